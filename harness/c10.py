"""C10 - First matching handler wins and sees the true request metadata (HTTP and TFTP).

Real TftpServer / HttpServer instances on loopback (ephemeral ports), recording handlers, real UDP/TCP
clients over IPv4 and IPv6, wildcard and specific binds, IPV6_PKTINFO used or not; plus the real file
request handlers with a Jinja template that prints request_info.  The call log and the reply are
compared with the extracted Coq model (Dispatch/Dispatch.v) and judged by the extracted `holds`.
"""
import atexit
import http
import io
import itertools
import logging
import os
import re
import shutil
import socket
import struct
import tempfile
import threading
import time

import common
from common import Check, sx, unsx, names, run_model
from vinegar.http import server as HS
from vinegar.tftp import server as TS
from vinegar.request_handler import file as FH

logging.getLogger("vinegar").addHandler(logging.NullHandler())
logging.getLogger("vinegar").propagate = False

MAXH = 4
V4 = "127.0.0.1"
V4M = "::ffff:127.0.0.1"
V6 = "::1"
CPORT = 5555          # canonical client port
SPORT = 69            # canonical server port
BINDS = ["::", V6, V4M]
# other spellings of "all interfaces" (the bound socket reports "::" resp. "::ffff:0.0.0.0")
WILD_SPELLINGS = ["0::0", "::0", "0::", "", "0:0:0:0:0:0:0:0", "0000:0000:0000:0000:0000:0000:0000:0000", "::ffff:0.0.0.0"]

SCRIPTS = {}          # request id -> list of (tag, accept)
LOGS = {}             # request id -> list of events
# request ids carry the process id: traffic of another harness process can never be mistaken for ours
_PID = os.getpid()
_ID = re.compile(r"id(\d+n\d+)x")


def rid_of(name):
    m = _ID.search(name)
    return m.group(1) if m else None


_SERIAL = itertools.count(1)
_FLOOR = {}           # request id -> serial number at the start of the CURRENT request for that id


class Ctx:
    """context object returned by prepare_context: remembers who made it, for which name and when"""
    def __init__(self, tag, name):
        self.tag = tag
        self.name = name
        self.serial = next(_SERIAL)


class FalsyCtx(list):
    """the same, but FALSY (an empty list subclass): a context is whatever prepare_context returns"""
    def __init__(self, tag, name):
        super().__init__()
        self.tag = tag
        self.name = name
        self.serial = next(_SERIAL)


FALSY = set()         # request ids whose handlers hand out falsy contexts


def make_ctx(tag, name):
    return (FalsyCtx if rid_of(name) in FALSY else Ctx)(tag, name)


RESULT_KINDS = ["ok", "bare404", "bare403", "bare500", "empty404", "404hdr", "404body", "raise", "raise-os"]


def visible(kind, tag):
    """what the client is to see from a handler result: b"<status>:<body unless it is http.server's error page>" """
    if kind == "ok":
        return b"200:" + tag
    if kind.startswith("raise"):           # handle() raises: the 500 page, and nobody else is asked
        return b"500:"
    if kind.startswith("bare"):
        return kind[4:].encode() + b":"
    if kind in ("empty404", "404hdr"):
        return b"404:"
    return b"404:" + tag


ACCEPTED = set()      # request ids for which some scripted handler has already accepted


def _spec(index, name):
    rid = rid_of(name)
    hs = SCRIPTS.get(rid)
    if hs is None:
        return None, None
    if index >= len(hs):
        # handler objects beyond the scripted list reject silently - unless somebody has accepted already:
        # then nobody may be asked any more, and the call is put on record
        if rid in ACCEPTED and rid in LOGS:
            LOGS[rid].append(("prepare", index, name))
        return None, None
    return rid, hs[index]


class RecTftp(TS.TftpRequestHandler):
    def __init__(self, index):
        self.index = index

    def prepare_context(self, filename):
        rid, h = _spec(self.index, filename)
        if h is None:
            return None
        LOGS[rid].append(("prepare", self.index, filename))
        return make_ctx(h[0], filename)

    def can_handle(self, filename, context):
        rid, h = _spec(self.index, filename)
        if h is None:
            return False
        LOGS[rid].append(("can", self.index, filename, _ctx(context)))
        if h[1]:
            ACCEPTED.add(rid)
        return h[1]

    def handle(self, filename, client_address, server_address, context):
        rid, h = _spec(self.index, filename)
        if rid is not None:
            LOGS[rid].append(("handle", self.index, filename, _ctx(context), client_address, server_address, "", []))
        return io.BytesIO(h[0].encode() if h else b"?")


class RecHttp(HS.HttpRequestHandler):
    def __init__(self, index):
        self.index = index

    def prepare_context(self, uri):
        rid, h = _spec(self.index, uri)
        if h is None:
            return None
        LOGS[rid].append(("prepare", self.index, uri))
        return make_ctx(h[0], uri)

    def can_handle(self, uri, context):
        rid, h = _spec(self.index, uri)
        if h is None:
            return False
        LOGS[rid].append(("can", self.index, uri, _ctx(context)))
        if h[1]:
            ACCEPTED.add(rid)
        return h[1]

    def handle(self, request_info, body, context):
        rid, h = _spec(self.index, request_info.uri)
        if rid is None:          # name mangled beyond recognition: find the request through the header
            rid = request_info.headers.get("X-Verif-Id", "-1")
            h = (SCRIPTS.get(rid) or [("?", True)] * MAXH)[self.index]
        LOGS.setdefault(rid, []).append(
            ("handle", self.index, request_info.uri, _ctx(context), request_info.client_address,
             request_info.server_address, request_info.method, list(request_info.headers.items())))
        kind = h[2] if len(h) > 2 else "ok"
        tag = h[0].encode()
        if kind == "ok":
            return (http.HTTPStatus.OK, None, io.BytesIO(tag))
        if kind == "raise":
            raise RuntimeError("scripted handle failure")
        if kind == "raise-os":
            raise FileNotFoundError(2, "scripted backend failure")
        if kind in ("bare404", "bare403", "bare500"):
            return (http.HTTPStatus(int(kind[4:])), None, None)
        if kind == "empty404":
            return (http.HTTPStatus.NOT_FOUND, {}, None)
        if kind == "404hdr":
            return (http.HTTPStatus.NOT_FOUND, {"X-Why": tag.decode()}, None)
        return (http.HTTPStatus.NOT_FOUND, None, io.BytesIO(tag))          # "404body"


def _ctx(c):
    if isinstance(c, (Ctx, FalsyCtx)):
        rid = rid_of(c.name)
        if c.serial <= _FLOOR.get(rid, 0):           # made by prepare_context for an EARLIER request
            return ("<context object of an earlier request> " + c.tag, c.name)
        return (c.tag, c.name)
    return ("<not a context: %r>" % (c,), "")


# ----------------------------------------------------------------------------- servers
_tftp = {}
_http = {}
_tmp = None

LIB_TPL = ("{% macro who() %}{% if request_info is defined %}sees {{ request_info.client_address|join(',') }} {{ request_info.uri }}"
           "{% elif id is defined or data is defined %}sees id/data{% else %}nothing{% endif %}{% endmacro %}")
# a macro library imported without context must see NOTHING of the request (per-request data must not be parked in
# engine-wide state such as Environment.globals or a cached module)
TFTP_TPL = ("{% import 'lib.txt' as lib %}lib={{ lib.who() }}\nclient={{ request_info.client_address|join(',') }}\nserver={{ request_info.server_address|join(',') }}\n"
            "uri={{ request_info.uri }}\nkeys={{ request_info.keys()|sort|join(',') }}\n")
HTTP_TPL = (TFTP_TPL + "method={{ request_info.method }}\n"
            "{% for k, v in request_info.headers.items() %}hdr={{ k }}={{ v }}\n{% endfor %}"
            # the headers object must still be the server's HTTPMessage: case-insensitive lookup, repeated lines, type
            "ci={{ request_info.headers['x-vERIF-id'] }}\n"
            "all={{ (request_info.headers.get_all('X-Rep') or [])|join('+') }}\n"
            "htype={{ request_info.headers.__class__.__name__ }}\n")


def _tmpdir():
    global _tmp
    if _tmp is None:
        _tmp = tempfile.mkdtemp(prefix="verif-c10-")
        atexit.register(shutil.rmtree, _tmp, True)
        with open(os.path.join(_tmp, "tftp.txt"), "w") as f:
            f.write(TFTP_TPL)
        with open(os.path.join(_tmp, "http.txt"), "w") as f:
            f.write(HTTP_TPL)
        with open(os.path.join(_tmp, "lib.txt"), "w") as f:
            f.write(LIB_TPL)
    return _tmp


class SockProxy:
    """stands in for TftpServer._socket: everything goes to the real socket; recvmsg can be told to return, for the
    NEXT datagram, ancillary data as an operating system may legally deliver it (none at all, unrelated messages
    first, only unrelated ones, a second IPV6_PKTINFO)"""
    def __init__(self, real):
        self._real = real
        self.script = []

    def recvmsg(self, bufsize, ancbufsize=0, flags=0):
        data, anc, fl, addr = self._real.recvmsg(bufsize, ancbufsize, flags)
        if self.script:
            mode = self.script.pop(0)
            other = (socket.SOL_SOCKET, 0x7e57, b"\x00" * 8)
            hop = (socket.IPPROTO_IPV6, getattr(socket, "IPV6_HOPLIMIT", 52), b"\x40\x00\x00\x00")
            if mode == "none":
                anc, fl = [], fl | getattr(socket, "MSG_CTRUNC", 8)
            elif mode == "other-first":
                anc = [other, hop] + list(anc)
            elif mode == "other-only":
                anc = [other, hop]
            elif mode == "two":
                anc = list(anc) + [(socket.IPPROTO_IPV6, socket.IPV6_PKTINFO, SECOND_RAW + b"\x01\x00\x00\x00")]
        return data, anc, fl, addr

    def __getattr__(self, name):
        return getattr(self._real, name)


SECOND_RAW = socket.inet_pton(socket.AF_INET6, "fe80::5")      # what a second packet-info message claims
ANC_MODES = ["none", "other-first", "other-only", "two"]


def wrap_socket(s):
    if not isinstance(s._socket, SockProxy):
        s._socket = SockProxy(s._socket)       # TftpServer._run reads self._socket on every iteration
    return s._socket


_PLATFORM_PKTINFO = None


def platform_has_pktinfo():
    """does the PLATFORM offer IPV6_RECVPKTINFO + recvmsg?  Probed once on a scratch socket, independently of what
    the server under test decided to enable."""
    global _PLATFORM_PKTINFO
    if _PLATFORM_PKTINFO is None:
        try:
            t = socket.socket(socket.AF_INET6, socket.SOCK_DGRAM)
            try:
                ok = hasattr(t, "recvmsg")
                t.setsockopt(socket.IPPROTO_IPV6, socket.IPV6_RECVPKTINFO, 1)
            finally:
                t.close()
            _PLATFORM_PKTINFO = bool(ok)
        except (AttributeError, OSError):
            _PLATFORM_PKTINFO = False
    return _PLATFORM_PKTINFO


_port_iter = itertools.count(12000 + (os.getpid() % 190) * 100)


def free_udp_port():
    """TftpServer sets SO_REUSEADDR on its UDP socket; with bind_port=0 the kernel may then hand out a port that another
    SO_REUSEADDR UDP socket (a TFTP server of ANOTHER harness process) already uses, and datagrams go astray between the
    processes.  So the harness picks ports itself, below the ephemeral range, and checks each with a socket that does
    not set SO_REUSEADDR."""
    for port in _port_iter:
        if port > 31900:
            break
        t = socket.socket(socket.AF_INET6, socket.SOCK_DGRAM)
        try:
            t.bind(("::", port))
            return port
        except OSError:
            continue
        finally:
            t.close()
    return 0


def port_is_shared(port):
    """more than one UDP socket bound to this port (possible only for the bind_port=0 servers of the restart cases)"""
    n = 0
    for fn in ("/proc/net/udp6", "/proc/net/udp"):
        try:
            with open(fn) as f:
                for ln in f.readlines()[1:]:
                    parts = ln.split()
                    if len(parts) > 1 and parts[1].rsplit(":", 1)[-1].lower() == "%04x" % port:
                        n += 1
        except OSError:
            pass
    return n > 1


def tftp_server(bind, pktinfo, filemode=False, restart=None):
    """restart: None = shared instance; "first" = dedicated instance; "restart" = stop() and start() that instance"""
    key = (bind, pktinfo, filemode, restart is not None)
    if key not in _tftp:
        if filemode:
            hs = [FH.TftpFileRequestHandler({"request_path": "/t", "root_dir": _tmpdir(), "template": "jinja"})]
        else:
            hs = [RecTftp(i) for i in range(MAXH)]
        # restart cases need bind_port=0 (a new port after stop()/start()); all others get a port of our own
        s = TS.TftpServer(hs, bind, 0 if restart is not None else free_udp_port(), default_timeout=2.0, max_retries=1)
        s.start()
        atexit.register(s.stop)
        if not platform_has_pktinfo():
            raise RuntimeError("platform without IPV6_RECVPKTINFO: C10 cannot exercise the packet-info path")
        # pktinfo=True: the server is left as it configured itself - a server that does not enable packet info
        # although the platform has it shows up in the observation (the handler gets the bound address)
        if not pktinfo:
            s._have_pktinfo = False       # read by TftpServer._run on every iteration
            time.sleep(0.25)
        elif restart is not None:
            time.sleep(0.15)              # the receive loop has run at least once before the restart
        _tftp[key] = (s, s._socket.getsockname())
    if restart == "restart":
        s = _tftp[key][0]
        for _try in range(5):
            s.stop()
            s.start()                     # same object, bind_port=0: a new ephemeral port
            if not port_is_shared(s._socket.getsockname()[1]):
                break
        if not pktinfo:
            s._have_pktinfo = False
            time.sleep(0.25)
        _tftp[key] = (s, s._socket.getsockname())
    return _tftp[key]


def http_server(bind, filemode=False, restart=None):
    key = (bind, filemode, restart is not None)
    if key not in _http:
        if filemode:
            hs = [FH.HttpFileRequestHandler({"request_path": "/t", "root_dir": _tmpdir(), "template": "jinja"})]
        else:
            hs = [RecHttp(i) for i in range(MAXH)]
        s = HS.HttpServer(hs, bind, 0)
        s.start()
        atexit.register(s.stop)
        _http[key] = (s, s._server.socket.getsockname())
    if restart == "restart":
        s = _http[key][0]
        s.stop()
        s.start()
        _http[key] = (s, s._server.socket.getsockname())
    return _http[key]


# ----------------------------------------------------------------------------- clients
_timeouts = [0]


def _patience():
    """a server that stopped answering must not cost 3 s per remaining case"""
    return 3.0 if _timeouts[0] < 3 else 0.05


def tftp_request(c):
    """-> (reply, client port, bound sockname)"""
    srv, sockname = tftp_server(c["bind"], c["pktinfo"], c["proto"] == 2, c.get("restart"))
    if c.get("anc_mode"):
        # a request on ANOTHER local address first, then the observed one with unusual ancillary data
        other = 4 if c["fam"] == 6 else 6
        if c["bind"] not in (V6, V4M, "::ffff:0.0.0.0"):
            tftp_request(dict(c, anc_mode=None, fam=other, name=b"warmup-no-script", mail=False, restart=None))
        proxy = wrap_socket(srv)
        time.sleep(0.12)                        # the receive loop is now blocked in the proxy's recvmsg
        proxy.script = [c["anc_mode"]]
    fam = socket.AF_INET if c["fam"] == 4 else socket.AF_INET6
    dst = dst_of(c)
    s = socket.socket(fam, socket.SOCK_DGRAM)
    s.settimeout(_patience())
    try:
        s.bind((dst, 0))
        cport = s.getsockname()[1]
        pkt = b"\x00\x01" + c["name"] + b"\x00" + (b"mail" if c["mail"] else b"octet") + b"\x00"
        s.sendto(pkt, (dst, sockname[1]))
        try:
            data, peer = s.recvfrom(65536)
        except socket.timeout:
            _timeouts[0] += 1
            return (("timeout",), cport, sockname)
        op = struct.unpack("!H", data[:2])[0]
        if op == 3:
            s.sendto(b"\x00\x04" + data[2:4], peer)
            return (("data", data[4:]), cport, sockname)
        if op == 5:
            return (("error", struct.unpack("!H", data[2:4])[0]), cport, sockname)
        return (("other", data[:8]), cport, sockname)
    finally:
        s.close()


def http_request(c):
    srv, sockname = http_server(c["bind"], c["proto"] == 3, c.get("restart"))
    fam = socket.AF_INET if c["fam"] == 4 else socket.AF_INET6
    dst = dst_of(c)
    s = socket.socket(fam, socket.SOCK_STREAM)
    s.settimeout(_patience())
    cport = 0
    buf = []
    try:
        s.bind((dst, 0))                      # the client's own address = the address it talks to (as the UDP client does)
        s.connect((dst, sockname[1]))
        cport = s.getsockname()[1]
        req = ("%s %s HTTP/1.%d\r\n" % (c["method"], c["name"].decode("latin-1"), c.get("httpver") or 0)
               + "".join("%s: %s\r\n" % kv for kv in c["headers"]) + "\r\n")
        s.sendall(req.encode("latin-1"))
        while True:
            d = s.recv(65536)
            if not d:
                break
            buf.append(d)
        raw = b"".join(buf)
    except (socket.timeout, ConnectionError):
        _timeouts[0] += 1
        raw = b"".join(buf)
    finally:
        s.close()
    m = re.match(rb"HTTP/1\.[01] (\d{3}) ", raw)
    body = raw.partition(b"\r\n\r\n")[2]
    return (("http", int(m.group(1)) if m else 0, body), cport, sockname)


# ----------------------------------------------------------------------------- check
def dst_of(c):
    """the local address the client talks to"""
    return (c.get("dst4") or V4) if c["fam"] == 4 else V6


def mapped(c):
    return ("::ffff:" + dst_of(c)) if c["fam"] == 4 else V6


class C10(Check):
    ident = "C10"
    technique = ("Coq proof (first-match characterisation of the handler loop for arbitrary handler functions, "
                 "destination-address recovery, request-info construction) + differential correspondence over "
                 "real loopback UDP/TCP sockets with recording handlers")
    rule = ("case = (protocol, bind address, client family, pktinfo used, request name, handler list <= 4 with accept "
            "vector); all accept vectors for every list length x every network configuration, plus seeded random "
            "names; non-trivial = at least two handlers or a rejected/unmatched request; distinct by (protocol, bind, "
            "family, pktinfo, accept vector, name class)")
    assumptions = [
        "Linux delivers IPV6_PKTINFO (with a v4-mapped address for IPv4 datagrams) on the dual-stack UDP socket; the "
        "harness states the expected cmsg and calls socket.inet_ntop directly for the oracle table",
        "client/server ports are ephemeral: the observed port is canonicalised to 5555 / 69 iff it equals the real one",
        "recording handlers find their script through a token in the request name (HTTP: also the X-Verif-Id header)",
    ]
    trusted_extra = ["harness/c10.py: recording handlers, UDP/TCP clients, parsing of the rendered template"]

    def __init__(self):
        self._seq = itertools.count(1)

    # -- cases
    def netconfigs(self, spellings=False):
        for bind in (WILD_SPELLINGS if spellings else BINDS):
            for fam in (4, 6):
                if (bind == V6 and fam == 4) or (bind in (V4M, "::ffff:0.0.0.0") and fam == 6):
                    continue
                yield bind, fam

    def mk(self, proto, bind, fam, pktinfo, handlers, stem=b"", tail=b"", mail=False, method="GET", headers=None,
           restart=None, debug=False, repeat=None, anc_mode=None, falsy_ctx=False, httpver=0, host="one", dst4=None):
        rid = "%dn%d" % (_PID, next(self._seq))
        token = b"id%sx" % rid.encode()
        if proto in (1, 3):
            name = (stem if stem else b"/") + token + tail
        else:
            name = stem + token + tail
        if proto == 2:
            name = stem + b"t/tftp.txt"
        if proto == 3:
            name = b"/t/http.txt"
        # requests a standard client library never produces: no Host field, two, an empty one - with HTTP/1.0 and HTTP/1.1
        hosts = {"one": [("Host", "verif")], "none": [], "two": [("Host", "verif"), ("Host", "other:81")], "empty": [("Host", "")],
                 "mixed": [("host", "a"), ("HOST", "b")]}[host]
        hd = hosts[:1] + [("X-Verif-Id", str(rid))] + list(headers or []) + hosts[1:]
        return {"proto": proto, "bind": bind, "fam": fam, "pktinfo": pktinfo, "rid": rid, "name": name,
                "mail": mail, "method": method, "headers": hd if proto in (1, 3) else [], "restart": restart, "debug": debug, "repeat": repeat, "anc_mode": anc_mode, "falsy_ctx": falsy_ctx, "httpver": httpver, "dst4": dst4,
                "handlers": [("h%d-%s" % (i, rid),) + ((bool(a[0]), a[1]) if isinstance(a, tuple) else (bool(a), "ok"))
                             for i, a in enumerate(handlers)]}

    def gen(self, tier, rng):
        vectors = [v for n in range(0, MAXH + 1) for v in itertools.product([False, True], repeat=n)]
        # every accept vector through every network configuration
        for bind, fam in self.netconfigs():
            for pk in (True, False):
                for v in vectors:
                    yield self.mk(0, bind, fam, pk, v, stem=b"boot/", tail=b"/a%20b%2Fc.cfg")
            for v in vectors:
                yield self.mk(1, bind, fam, True, v, tail=b"/a%20b%2Fc?x=%2F&y=1", headers=[("X-Extra", "a:b=c%20d")])
        # other spellings of the wildcard bind address: the handler must still see the address the client used
        some = [(True,), (False, True), (False, False, True, True), ()]
        for bind, fam in self.netconfigs(spellings=True):
            for pk in (True, False):
                for v in some:
                    yield self.mk(0, bind, fam, pk, v, stem=b"w/", tail=b"/x")
        # the same dispatch with the server loggers at DEBUG (diagnostic code must not call or confuse handlers)
        for v in vectors:
            yield self.mk(0, "::", 6, True, v, stem=b"dbg/", tail=b"/x", debug=True)
            yield self.mk(1, "::", 6, True, v, tail=b"/dbg?x=1", debug=True)
        for v in some:
            yield self.mk(0, "::", 4, False, v, stem=b"dbg/", debug=True)
            yield self.mk(1, V6, 6, True, v, tail=b"/dbg", method="POST", debug=True)
        # ancillary data as an operating system may legally deliver it (fault injection on recvmsg), after a request that
        # arrived on another local address: none at all (MSG_CTRUNC), unrelated messages first / only, two packet infos
        for mode in ANC_MODES:
            for bind, fam in (("::", 6), ("::", 4), ("0::0", 6), (V6, 6)):
                for v in ((True,), (False, True)):
                    yield self.mk(0, bind, fam, True, v, stem=b"anc/", anc_mode=mode)
            yield self.mk(2, "::", 6, True, (True,), anc_mode=mode)
        # contexts that are falsy objects (a context is whatever prepare_context returns)
        for v in some + [(True, True)]:
            yield self.mk(0, "::", 6, True, v, stem=b"fc/", falsy_ctx=True)
            yield self.mk(1, "::", 4, True, v, tail=b"/fc", falsy_ctx=True)
            yield self.mk(0, "::", 4, True, v, stem=b"fc/", falsy_ctx=True, repeat=2, debug=True)
        # legal names at natural limits: 255 / 256 / 400 characters, every 7-bit character but NUL in one name
        allchars = bytes(range(1, 128))
        for tl in (b"L" * 255, b"M" * 256, b"N" * 400, allchars):
            yield self.mk(0, "::", 6, True, (False, True), stem=b"lim/", tail=b"/" + tl)
        printable = bytes(ch for ch in range(33, 127) if ch not in b"?#")
        for tl in (b"U" * 255, b"V" * 4096, b"W" * 30000, printable, printable + b"?" + printable):
            yield self.mk(1, "::", 6, True, (False, True), tail=b"/" + tl, headers=[("X-Long", "h" * 8000)])
        # names that are falsy / sentinel-like as Python values
        for nm in (b"0", b"None", b"False", b"-1", b"%00", b"\x7f"):
            yield self.mk(0, "::", 6, True, (False, True), stem=nm + b"/", tail=b"/" + nm)
            yield self.mk(1, "::", 6, True, (False, True), tail=b"/" + nm + b"?" + nm + b"=" + nm, headers=[("X-Zero", "0"), ("X-Empty", "")])
        # the same file name / URI requested again on the same server: full dispatch and a fresh context every time
        for v in some + [(True, True), (False, True, False)]:
            for rep in (2, 3):
                yield self.mk(0, "::", 6, True, v, stem=b"again/", repeat=rep)
                yield self.mk(0, "::", 4, False, v, stem=b"again/", repeat=rep)
                yield self.mk(1, "::", 6, True, v, tail=b"/again?x=1", repeat=rep)
        yield self.mk(0, V6, 6, True, (True,), repeat=4, debug=True)
        yield self.mk(2, "::", 6, True, (True,), repeat=2)
        yield self.mk(3, "::", 6, True, (True,), repeat=2)
        # every logging level of the server modules (WARNING is the default of all other cases): names with backslashes,
        # control characters, quotes, non-ASCII bytes and percent signs must reach all three handler methods unchanged
        odd = [b"\\win\\path", b"/a\\b/c", b"/tab\there", b"/nl\nhere", b"/cr\rhere", b"/q'uote\"s", b"/\x01\x1f\x7f", b"/\xc3\xa4\xff",
               b"/100%", b"/%5C%0A", b"/u\\u0041", b"/x\\n"]
        for lvl in ("info", True):
            for tl in odd:
                yield self.mk(0, "::", 6, True, (False, True), stem=b"lv/", tail=tl, debug=lvl)
                yield self.mk(0, "::", 4, False, (True,), stem=b"lv/", tail=tl, debug=lvl, repeat=2)
            for tl in odd:
                if any(ch in tl for ch in b" \t\n\r\x0b\x0c\x1c\x1d\x1e\x1f\x85\xa0"):
                    continue            # white space for http.server's request-line split: not a single target
                yield self.mk(1, "::", 6, True, (False, True), tail=tl.replace(b"\xff", b"%FF"), debug=lvl)
            for v in vectors:
                yield self.mk(0, "::", 6, True, v, stem=b"inf/", tail=b"/x", debug="info")
                yield self.mk(1, "::", 6, True, v, tail=b"/inf?x=1", debug="info")
            yield self.mk(2, "::", 6, True, (True,), debug=lvl)
            yield self.mk(3, "::", 6, True, (True,), debug=lvl, headers=[("X-Rep", "1")])
        # the local address a request arrives on, at the edges of the octets (the loopback network is a /8: all of these are
        # ordinary unicast host addresses of this machine)
        for d4 in ("127.0.0.255", "127.0.255.255", "127.255.255.254", "127.0.0.0", "127.0.1.0", "127.1.2.3", "127.0.0.254", "127.224.0.1", "127.0.0.2"):
            for pk in (True, False):
                for v in ((True,), (False, False)):
                    yield self.mk(0, "::", 4, pk, v, stem=b"d4/", dst4=d4)
            yield self.mk(1, "::", 4, True, (False, True), tail=b"/d4", dst4=d4)
            yield self.mk(2, "::", 4, True, (True,), dst4=d4)
        # HTTP/1.0 and HTTP/1.1 request lines with one, no, two, an empty Host field: every one is dispatched like any other
        for ver in (0, 1):
            for host in ("one", "none", "two", "empty", "mixed"):
                for v in some + [(False, False)]:
                    yield self.mk(1, "::", 6, True, v, tail=b"/hv", httpver=ver, host=host)
                yield self.mk(1, V6, 6, True, (False, True), tail=b"/hv", httpver=ver, host=host, method="POST", debug=True)
                yield self.mk(3, "::", 4, True, (True,), httpver=ver, host=host, repeat=2)
        # stop() and start() on ONE server object (bind_port=0: new port): the handler must see the new address
        for bind, fam in (("::", 6), ("::", 4), (V6, 6)):
            for pk in (True, False):
                yield self.mk(0, bind, fam, pk, (False, True), stem=b"r1/", restart="first")
                yield self.mk(0, bind, fam, pk, (False, True), stem=b"r2/", restart="restart")
                yield self.mk(0, bind, fam, pk, (True,), stem=b"r3/", restart="restart")
            yield self.mk(1, bind, fam, True, (False, True), tail=b"/r1", restart="first")
            yield self.mk(1, bind, fam, True, (False, True), tail=b"/r2", restart="restart")
        yield self.mk(2, "::", 6, True, (True,), restart="first")
        yield self.mk(2, "::", 6, True, (True,), restart="restart")
        yield self.mk(3, "::", 6, True, (True,), restart="first")
        yield self.mk(3, "::", 6, True, (True,), restart="restart", headers=[("X-Rep", "1"), ("x-rep", "2")])
        # what handle() returns must not let a later handler be asked (HTTP): result kinds x later accepting handlers
        for kind in RESULT_KINDS:
            for later in ([], [(True, "ok")], [(False, "ok"), (True, "ok")], [(True, "bare404"), (True, "ok")]):
                for first in ([], [(False, "ok")]):
                    yield self.mk(1, "::", 6, True, first + [(True, kind)] + later, tail=b"/r")
        yield self.mk(1, "::", 4, True, [(True, "bare404"), (True, "bare404"), (True, "404body")], tail=b"/r")
        # request names: leading slash or not, escapes, upper case, non-ASCII bytes (dropped by the packet decoder)
        tails = [b"", b"/", b"%2f", b"%2F%2e%2e", b"/..", b" with space", b"/\xc3\xa4\xff", b"/A.B", b"?q=1", b"#frag",
                 b"/%00", b"/+plus", b"\\win\\path", b"/a\\b/c", b"/./x", b"//x", b"/x/", b"/UPPER/Case.CFG", b"/a%5Cb",
                 b"/a;b=c", b"/~user", b"/a%25b", b"/tab\there"]
        stems = [b"", b"/", b"%2f", b"a/", b"\xe9/", b"./", b"A\\", b"a//"]
        for bind, fam in self.netconfigs():
            for st in stems:
                for tl in tails:
                    yield self.mk(0, bind, fam, True, (False, True, True), stem=st, tail=tl)
            yield self.mk(0, bind, fam, True, (True,), mail=True)
            yield self.mk(0, bind, fam, False, (False, True), mail=True)
            for tl in tails:
                if b" " in tl or b"#" in tl or b"\t" in tl:
                    continue
                yield self.mk(1, bind, fam, True, (False, True, True), tail=tl.replace(b"\xff", b"%FF"))
            for m in ("GET", "HEAD", "POST", "PUT", "DELETE"):
                yield self.mk(1, bind, fam, True, (False, False, True, True), method=m,
                              headers=[("X-A", "1"), ("x-a", "2"), ("Accept", "*/*")])
            # bad HTTP paths: nobody is asked
            yield self.mk(1, bind, fam, True, (True,), stem=b"noslash/")
            yield self.mk(1, bind, fam, True, (True,), stem=b"*")
            # the real file handlers with a template printing request_info
            for pk in (True, False):
                for st in (b"", b"/"):
                    yield self.mk(2, bind, fam, pk, (True,), stem=st)
            yield self.mk(3, bind, fam, True, (True,), headers=[("X-Verif", "v=1; w")])
            yield self.mk(3, bind, fam, True, (True,), headers=[("X-Rep", "one"), ("X-Other", "o"), ("x-rep", "two"), ("X-REP", "three")])
            yield self.mk(3, bind, fam, True, (True,), headers=[("X-Rep", "only")], debug=True)
        # random
        n = 150 if tier == "quick" else 2500
        alphabet = b"abcXYZ019/%.-_~ +?&=\xe4\xff\\;"
        cfgs = list(self.netconfigs())
        for _ in range(n):
            bind, fam = rng.choice(cfgs)
            proto = rng.choice([0, 0, 1])
            v = tuple(rng.random() < 0.35 for _ in range(rng.randrange(0, MAXH + 1)))
            tail = bytes(rng.choice(alphabet) for _ in range(rng.randrange(0, 12)))
            stem = bytes(rng.choice(alphabet) for _ in range(rng.randrange(0, 4)))
            if proto == 1:
                tail = tail.replace(b" ", b"%20").replace(b"\xe4", b"%e4").replace(b"\xff", b"%FF")
                stem = b""
                hd = [("X-R%d" % i, "".join(rng.choice("abc:=%;, /") for _ in range(rng.randrange(1, 8))).strip() or "v")
                      for i in range(rng.randrange(0, 4))]
                v = [(a, rng.choice(RESULT_KINDS) if rng.random() < 0.4 else "ok") for a in v]
                yield self.mk(1, bind, fam, True, v, tail=tail, method=rng.choice(["GET", "POST", "DELETE"]), headers=hd)
            else:
                yield self.mk(0, bind, fam, rng.random() < 0.6, v, stem=stem, tail=tail, mail=rng.random() < 0.03)

    # -- real code
    def impl(self, c):
        SCRIPTS[c["rid"]] = c["handlers"]
        LOGS[c["rid"]] = []
        if c.get("falsy_ctx"):
            FALSY.add(c["rid"])
        loggers = [logging.getLogger("vinegar.http.server"), logging.getLogger("vinegar.tftp.server")]
        old = [lg.level for lg in loggers]
        if c.get("debug"):                       # the logging level is configuration: the property holds at every level
            for lg in loggers:
                lg.setLevel(logging.INFO if c["debug"] == "info" else logging.DEBUG)
        try:
            for _rep in range(c.get("repeat") or 1):
                # the same name again on the same long-lived server: every request gets its own full dispatch
                if _rep:
                    time.sleep(0.03)
                LOGS[c["rid"]] = []
                ACCEPTED.discard(c["rid"])
                _FLOOR[c["rid"]] = next(_SERIAL)
                if c["proto"] in (0, 2):
                    reply, cport, sockname = tftp_request(c)
                else:
                    reply, cport, sockname = http_request(c)
            if c.get("debug"):
                time.sleep(0.01)
        finally:
            for lg, lv in zip(loggers, old):
                lg.setLevel(lv)
        return {"reply": reply, "cport": cport, "sockname": sockname, "rid": c["rid"], "proto": c["proto"],
                "tags": [h[0] for h in c["handlers"]],
                "expect_hdr": {"ci": str(c["rid"]), "all": "+".join(v for k, v in c["headers"] if k.lower() == "x-rep"),
                               "htype": "HTTPMessage"}}

    def evaluate(self, cases):
        obs = [self.impl(c) for c in cases]
        time.sleep(0.08)                      # let a server that keeps going after the reply finish its calls
        for o in obs:
            o["log"] = list(LOGS.pop(o["rid"], []))
            SCRIPTS.pop(o["rid"], None)
            ACCEPTED.discard(o["rid"])
        lines = [self.line(c, o) for c, o in zip(cases, obs)]
        outs = run_model(self.ident, lines)
        res = []
        for c, o, ln, out in zip(cases, obs, lines, outs):
            if out.startswith("!") or out.startswith("#6261642d63617365"):
                raise RuntimeError(f"{self.ident}: driver rejected case {ln[:400]} -> {out[:100]}")
            r = unsx(out)
            res.append((c, o, r[0], names(r[1]), names(r[2]), r[3:]))
        return res

    # -- canonical forms
    def caddr(self, a, o, server):
        """address tuple -> list of bytes/int with the ephemeral port replaced by its canonical value"""
        if not isinstance(a, (tuple, list)):
            return [("<%r>" % (a,)).encode()]
        out = []
        real = o["sockname"][1] if server else o["cport"]
        for i, x in enumerate(a):
            if isinstance(x, bool) or not isinstance(x, (int, str)):
                out.append(repr(x).encode())
            elif isinstance(x, int):
                out.append((SPORT if server else CPORT) if (i == 1 and x == real) else x)
            else:
                out.append(x.encode("latin-1", "replace"))
        return out

    def canon(self, o):
        evs = []
        for e in o.get("log", []):
            if e[0] == "prepare":
                evs.append([0, e[1], e[2].encode("latin-1", "replace")])
            elif e[0] == "can":
                evs.append([1, e[1], e[2].encode("latin-1", "replace"),
                            [e[3][0].encode("latin-1", "replace"), e[3][1].encode("latin-1", "replace")]])
            else:
                evs.append([2, e[1], e[2].encode("latin-1", "replace"),
                            [e[3][0].encode("latin-1", "replace"), e[3][1].encode("latin-1", "replace")],
                            self.caddr(e[4], o, False), self.caddr(e[5], o, True), e[6].encode(),
                            [[k.encode("latin-1", "replace"), v.encode("latin-1", "replace")] for k, v in e[7]]])
        rp = o["reply"]
        filemode = o["proto"] in (2, 3)
        info = []
        content = None
        if rp[0] == "data":
            content = rp[1]
        elif rp[0] == "http" and rp[1] == 200:
            content = rp[2]
        handled = [e[1] for e in o.get("log", []) if e[0] == "handle"]
        if rp[0] == "http" and not filemode and handled:
            # answered by a handler: which one is known from the call log, what the client saw from the response
            body = rp[2] if rp[2].decode("latin-1") in o["tags"] else b""
            rep = [1, handled[-1], b"%d:%s" % (rp[1], body)]
        elif content is not None:
            if filemode:
                info = self.parse_info(content, o)
                rep = [1, 0, b""]
            else:
                tag = content.decode("latin-1")
                rep = [1, o["tags"].index(tag) if tag in o["tags"] else 99, content]
        elif (rp[0] == "error" and rp[1] == 1) or (rp[0] == "http" and rp[1] == 404):
            rep = [0]
        elif (rp[0] == "error" and rp[1] == 4) or (rp[0] == "http" and rp[1] == 400):
            rep = [2]
        else:
            rep = [1, 98, repr(rp).encode()]
        return [evs, rep, info]

    def parse_info(self, content, o):
        """rendered template -> [[key, ival]...] in the order of the model"""
        kv = {}
        hdrs = []
        for ln in content.decode("utf-8", "replace").split("\n"):
            k, _, v = ln.partition("=")
            if k == "hdr":
                hk, _, hv = v.partition("=")
                hdrs.append([hk.encode("latin-1", "replace"), hv.encode("latin-1", "replace")])
            elif k:
                kv[k] = v

        def addr(text, server):
            parts = text.split(",")
            tup = tuple(int(p) if re.fullmatch(r"-?\d+", p) and i > 0 else p for i, p in enumerate(parts))
            return [0, self.caddr(tup, o, server)]
        want = ["client_address", "server_address", "uri"] + (["headers", "method"] if o["proto"] == 3 else [])
        if kv.get("keys", "") != ",".join(sorted(want)):
            return [[b"keys", [1, kv.get("keys", "").encode()]]]
        lib_note = b"" if kv.get("lib", "<missing>") == "nothing" else (" !macro library imported without context: %s" % kv.get("lib")).encode("latin-1", "replace")
        out = [[b"client_address", addr(kv.get("client", ""), False)]]
        if o["proto"] == 3:
            for k, want_v in o.get("expect_hdr", {}).items():
                if kv.get(k, "<missing>") != want_v:
                    hdrs.append([b"!headers-object", ("%s: got %r, HTTPMessage gives %r" % (k, kv.get(k), want_v)).encode("latin-1", "replace")])
            out.append([b"headers", [2, hdrs]])
            out.append([b"method", [1, kv.get("method", "").encode()]])
        out.append([b"server_address", addr(kv.get("server", ""), True)])
        out.append([b"uri", [1, kv.get("uri", "").encode("latin-1", "replace") + lib_note]])
        return out

    def line(self, c, o):
        dst = mapped(c)
        raw = socket.inet_pton(socket.AF_INET6, dst)
        sn = o["sockname"]
        sockname = [sn[0].encode(), SPORT] + list(sn[2:])
        client = [dst.encode(), CPORT, 0, 0]
        local = [dst.encode(), SPORT, 0, 0]
        handlers = [[t.encode(), a, visible(k, t.encode()) if c["proto"] == 1 else t.encode()] for t, a, k in c["handlers"]]
        if c["proto"] in (2, 3):
            handlers = [[b"", True, b""]]
        real_anc = [True, raw + b"\x01\x00\x00\x00"]
        unrelated = [[False, b"\x00" * 8], [False, b"\x40\x00\x00\x00"]]
        anc = {None: [real_anc], "none": [], "other-first": unrelated + [real_anc], "other-only": unrelated,
               "two": [real_anc, [True, SECOND_RAW + b"\x01\x00\x00\x00"]]}[c.get("anc_mode")]
        return sx([c["proto"], False, bool(c["pktinfo"]), sockname,
                   anc,
                   [[raw, socket.inet_ntop(socket.AF_INET6, raw).encode()],
                    [SECOND_RAW, socket.inet_ntop(socket.AF_INET6, SECOND_RAW).encode()]],
                   client, local, c["method"].encode(),
                   [[k.encode("latin-1"), v.encode("latin-1")] for k, v in c["headers"]],
                   c["name"], bool(c["mail"]), handlers, self.canon(o)])

    def nontrivial(self, c, o):
        v = tuple((a, k) for _, a, k in c["handlers"])
        if len(v) < 2 and not c["mail"] and c["proto"] < 2:
            return None
        cls = (c["name"][:1] == b"/", b"%" in c["name"], any(b > 127 for b in c["name"]))
        return (c["proto"], c["bind"], c["fam"], c["pktinfo"], v, cls, c["mail"])

    def show(self, c):
        return {"proto": ["tftp", "http", "tftp+file-handler", "http+file-handler"][c["proto"]], "bind": c["bind"],
                "client_family": "IPv%d" % c["fam"], "pktinfo": c["pktinfo"], "name": c["name"].decode("latin-1"),
                "mail_mode": c["mail"], "method": c["method"], "http_version": "1.%d" % (c.get("httpver") or 0), "headers": c["headers"], "ipv4_destination": c.get("dst4"),
                "server_log_level": {None: "WARNING (default)", False: "WARNING (default)", True: "DEBUG", "info": "INFO"}.get(c.get("debug")), "restart": c.get("restart"),
                "same_request_sent_n_times(last one observed)": c.get("repeat"),
                "recvmsg_ancillary_data_for_this_datagram": c.get("anc_mode"), "falsy_context_objects": bool(c.get("falsy_ctx")),
                "handlers(tag,accepts,result)": c["handlers"]}

    def renamed(self, c, **kw):
        d = dict(c, **kw)
        rid = "%dn%d" % (_PID, next(self._seq))
        d["name"] = re.sub(rb"id\d+n\d+x", b"id%sx" % rid.encode(), d["name"])
        d["headers"] = [(k, str(rid) if k == "X-Verif-Id" else v) for k, v in d["headers"]]
        d["handlers"] = [(re.sub(r"-\d+n\d+$", "-%s" % rid, t), a, k) for t, a, k in d["handlers"]]
        d["rid"] = rid
        return d

    def shrink(self, c):
        hs = c["handlers"]
        for i in range(len(hs)):
            yield self.renamed(c, handlers=hs[:i] + hs[i + 1:])
        if c["proto"] < 2:
            m = re.search(rb"id\d+x", c["name"])
            if m and m.end() < len(c["name"]):
                yield self.renamed(c, name=c["name"][:m.end()])
            if m and m.start() > (1 if c["proto"] == 1 else 0):
                yield self.renamed(c, name=(b"/" if c["proto"] == 1 else b"") + c["name"][m.start():])
        if len(c["headers"]) > 2:
            yield self.renamed(c, headers=c["headers"][:2])
        if c["method"] != "GET":
            yield self.renamed(c, method="GET")

    # -- 16 concurrent requests with distinct names (exercised, not proved)
    def same_name_concurrently(self, report):
        """several clients ask for the SAME name at the same time: as many full dispatches as requests, as many
        distinct fresh contexts as requests"""
        for proto in (0, 1):
            n = 6
            c = self.mk(proto, "::", 6, True, (False, True), stem=b"same/" if proto == 0 else b"", tail=b"/same")
            SCRIPTS[c["rid"]] = c["handlers"]
            LOGS[c["rid"]] = []
            _FLOOR[c["rid"]] = next(_SERIAL)
            replies = [None] * n
            gate = threading.Barrier(n)

            def work(i):
                gate.wait()
                try:
                    replies[i] = (tftp_request(c) if proto == 0 else http_request(c))[0]
                except Exception as ex:      # noqa
                    replies[i] = ("exception", repr(ex))
            ths = [threading.Thread(target=work, args=(i,)) for i in range(n)]
            for t in ths:
                t.start()
            for t in ths:
                t.join()
            time.sleep(0.1)
            log = LOGS.pop(c["rid"], [])
            SCRIPTS.pop(c["rid"], None)
            ACCEPTED.discard(c["rid"])
            probes = [e for e in log if e[0] in ("prepare", "can")]
            handles = [e for e in log if e[0] == "handle"]
            stale = [e for e in handles if e[3][0].startswith("<")]
            ok = (len(probes) == 4 * n and len(handles) == n and not stale and all(e[1] == 1 for e in handles)
                  and all(r[0] in ("data", "http") for r in replies))
            report["extra"]["same_name_concurrent_requests"] = report["extra"].get("same_name_concurrent_requests", 0) + n
            if not ok:
                report["impl_failures"] += 1
                report.setdefault("extra_failing", []).append(
                    (dict(self.show(c), _extra=True, concurrent_same_name=n,
                          counted={"prepare+can calls": len(probes), "expected": 4 * n, "handle calls": len(handles),
                                   "handle calls with an earlier request's context": len(stale)}),
                     ["first_match" if len(probes) != 4 * n or len(handles) != n else "own_context"], None, None))

    def extra_checks(self, tier, rng, report):
        self.same_name_concurrently(report)
        import random
        crng = random.Random(rng.random())
        rounds = 2 if tier == "quick" else 20
        report["extra"]["concurrent_requests"] = 0
        cfgs = list(self.netconfigs())
        for _ in range(rounds):
            cases = []
            for k in range(16):
                bind, fam = ("::", crng.choice([4, 6])) if k % 2 else crng.choice(cfgs)
                v = tuple(crng.random() < 0.4 for _ in range(crng.randrange(1, MAXH + 1)))
                proto = 0 if k % 4 else 1
                cases.append(self.mk(proto, "::" if k % 2 else bind, fam, True, v, tail=b"/n%d" % k,
                                     headers=[("X-K", str(k))]))
            obs = [None] * len(cases)
            gate = threading.Barrier(len(cases))

            def work(i):
                gate.wait()
                try:
                    obs[i] = self.impl(cases[i])
                except Exception as ex:      # noqa
                    obs[i] = ex
            ths = [threading.Thread(target=work, args=(i,)) for i in range(len(cases))]
            for t in ths:
                t.start()
            for t in ths:
                t.join()
            time.sleep(0.1)
            good_c, good_o = [], []
            for c, o in zip(cases, obs):
                if isinstance(o, Exception) or o is None:
                    report.setdefault("extra_failing", []).append(
                        (dict(self.show(c), _extra=True, concurrent=True, error=repr(o)), ["concurrent_client"], None, None))
                    continue
                o["log"] = list(LOGS.pop(o["rid"], []))
                SCRIPTS.pop(o["rid"], None)
                good_c.append(c)
                good_o.append(o)
            outs = run_model(self.ident, [self.line(c, o) for c, o in zip(good_c, good_o)])
            for c, o, out in zip(good_c, good_o, outs):
                r = unsx(out)
                report["evaluations"] += 1
                report["extra"]["concurrent_requests"] += 1
                if len(r) >= 5 and r[4] in (0, 1):
                    key = "cases_within_theorem_hypotheses" if r[4] == 1 else "cases_outside_theorem_hypotheses"
                    report["extra"][key] = report["extra"].get(key, 0) + 1
                fi = names(r[2])
                if self.canon(o) != r[0]:
                    report["disagreements"] += 1
                if fi:
                    report["impl_failures"] += 1
                    report.setdefault("extra_failing", []).append(
                        (dict(self.show(c), _extra=True, concurrent=True), fi,
                         common._jsonable(self.canon(o)), common._jsonable(r[0])))


if __name__ == "__main__":
    raise SystemExit(C10().main())
