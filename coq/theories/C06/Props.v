(* placeholder while the model is validated against the code *)
From VF Require Import C06.Entry.
Theorem C06_stub : True. Proof. exact I. Qed.
Print Assumptions C06_stub.
