(* C09, request-port part: property theorems (to be re-exported from C09/Props.v).
   Only statements closed by lemmas of Tftp/RequestPortProofs.v. *)
From Coq Require Import String.
From Coq Require Import List NArith ZArith Bool.
From VF Require Import Base.Sx Tftp.Codec Tftp.NegSpec Tftp.CodecProofs Tftp.Transfer Tftp.RequestPort
  Tftp.RequestPortProofs C09.PortEntry.
Import ListNotations.
Open Scope N_scope.

(* For EVERY datagram and every list of request handlers the modelled port code returns normally
   (no exception reaches the catch-all of TftpServer._run) and its reaction is: nothing, exactly one
   ERROR with code 1, 2 or 4, or exactly one transfer start whose (filename, mode, options) are the
   decoding of the datagram, with a mode other than mail, handled by the first accepting handler. *)
Theorem C09_request_port_total : forall hs d,
  exists acts, process_request true hs d = Ok acts /\ serve_one true hs d = acts /\ reaction_ok hs d acts.
Proof. exact request_port_total. Qed.
Print Assumptions C09_request_port_total.

Theorem C09_request_port_no_internal_error : forall hs d, ~ In ALogExc (serve_one true hs d).
Proof. exact request_port_no_internal_error. Qed.
Print Assumptions C09_request_port_no_internal_error.

(* which reaction for which datagram: short -> nothing; unknown opcode -> nothing; WRQ -> ERROR 2;
   DATA/ACK/ERROR/OACK -> ERROR 4; undecodable RRQ or mode mail -> ERROR 4; no handler -> ERROR 1 *)
Theorem C09_request_port_codes : forall hs d,
  ((length d < 2)%nat -> serve_one true hs d = []) /\
  (forall hi lo r, d = hi :: lo :: r ->
     (u16 hi lo = 2 -> serve_one true hs d = [ASendError 2]) /\
     (3 <= u16 hi lo <= 6 -> serve_one true hs d = [ASendError 4]) /\
     (u16 hi lo = 0 \/ 7 <= u16 hi lo -> serve_one true hs d = []) /\
     (u16 hi lo = 1 -> decode_rrq d = None -> serve_one true hs d = [ASendError 4]) /\
     (u16 hi lo = 1 -> forall fn o, decode_rrq d = Some (fn, Mail, o) -> serve_one true hs d = [ASendError 4]) /\
     (u16 hi lo = 1 -> forall fn m o, decode_rrq d = Some (fn, m, o) -> m <> Mail ->
        first_accepting hs O fn = None -> serve_one true hs d = [ASendError 1])).
Proof. exact request_port_codes. Qed.
Print Assumptions C09_request_port_codes.

(* a well-formed RFC 1350/2347 read request (clean = NUL-free ASCII; mode in any letter case) starts a
   transfer with exactly the file name, mode and option dictionary the client meant *)
Theorem C09_request_decoding_is_rfc : forall sendable hs fn md m opts i,
  clean fn -> clean md -> mode_of_str md = Some m -> m <> Mail ->
  Forall (fun p => clean (fst p) /\ clean (snd p)) opts ->
  first_accepting hs O fn = Some i ->
  serve_one sendable hs (encode_rrq fn md opts) = [AStart fn m (dict_of opts) i].
Proof. exact request_decoding_is_rfc. Qed.
Print Assumptions C09_request_decoding_is_rfc.

(* ... and only datagrams of that shape start a transfer *)
Theorem C09_start_only_for_rfc_shape : forall sendable hs d f m o i,
  In (AStart f m o i) (serve_one sendable hs d) ->
  exists fn md opts,
    d = encode_rrq fn md opts /\ nul_free fn /\ nul_free md /\ pairs_nul_free opts /\
    f = ascii_ignore fn /\ mode_of_str (ascii_ignore md) = Some m /\ m <> Mail /\
    o = dict_of (map ascii_pair opts) /\ first_accepting hs O f = Some i.
Proof. exact start_only_for_rfc_shape. Qed.
Print Assumptions C09_start_only_for_rfc_shape.

(* the executable checker used on the implementation's reactions accepts the model *)
Theorem C09_port_holds : forall hs d, port_holds true hs d (serve_one true hs d) = [].
Proof. exact port_holds_model. Qed.
Print Assumptions C09_port_holds.

(* Fault dimension: the reply cannot be sent (sendto raises OSError, e.g. EINVAL for a requester with
   source port 0).  The same reaction is attempted - at most one sendto call -, the OSError is logged
   by the catch-all exactly when a reply was due (known finding D22: a traceback caused by a
   client-controlled source port), and nothing else changes; datagrams that need no reply and
   transfer starts are unaffected. *)
Theorem C09_request_port_unsendable : forall hs d,
  serve_one false hs d = port_spec hs d ++ (if existsb is_send (port_spec hs d) then [ALogExc] else []) /\
  reaction_ok hs d (port_spec hs d).
Proof. exact request_port_unsendable. Qed.
Print Assumptions C09_request_port_unsendable.

(* the checker reports that situation under the clause port_reply_unsendable_logged and no other *)
Theorem C09_port_holds_unsendable : forall hs d,
  port_holds false hs d (serve_one false hs d) =
  if existsb is_send (port_spec hs d) then ["C09:port_reply_unsendable_logged"%string] else [].
Proof. exact port_holds_unsendable. Qed.
Print Assumptions C09_port_holds_unsendable.

(* the serve loop keeps serving: every datagram that arrives (truncated to 512 bytes by recvfrom) gets
   its reaction, whatever arrived before it and whether or not earlier replies could be sent *)
Theorem C09_serve_loop_total : forall hs reqs,
  run_loop false hs reqs = map (fun r => serve_one (fst r) hs (firstn MAX_REQUEST_PACKET_SIZE (snd r))) reqs.
Proof. exact run_loop_total. Qed.
Print Assumptions C09_serve_loop_total.

(* a loop that leaves on OSError stops serving after one reply that cannot be sent *)
Theorem C09_serve_loop_break_refuted :
  exists hs reqs, (length (run_loop true hs reqs) < length reqs)%nat /\ length (run_loop false hs reqs) = length reqs.
Proof. exact run_loop_break_refuted. Qed.
Print Assumptions C09_serve_loop_break_refuted.

(* the constructor of _TftpReadRequest, which runs in the request-port thread, cannot raise on option
   values: int() is reached only for strings the FULL-match regular expression accepts, even with
   int() modelled as raising on everything that is not a plain digit string *)
Theorem C09_transfer_constructor_total : forall fn m o i, m <> Mail -> start_transfer fn m o i = Ok [AStart fn m o i].
Proof. exact start_transfer_ok. Qed.
Print Assumptions C09_transfer_constructor_total.

(* Fault dimension 2: a callee of the request-port thread raises ANY exception (RuntimeError of
   Thread.start, MemoryError, KeyError, a custom class, OSError, ...) at the log statement /
   socket_address_to_str, in prepare_context or can_handle of the i-th handler, at the handle lookup
   or at Thread.start.  If control reaches that station, the catch-all logs the exception and nothing
   else happens for this datagram (no reply attempt, no transfer); if it does not, nothing changes. *)
Theorem C09_request_port_faulted : forall st e sendable hs d,
  serve_one_f (Some (st, e)) sendable hs d =
  if reaches st hs d then [ALogExc] else serve_one_f None sendable hs d.
Proof. exact request_port_faulted. Qed.
Print Assumptions C09_request_port_faulted.

(* the log statement is reached for every datagram; Thread.start and the handle lookup exactly when a
   transfer would be started *)
Theorem C09_fault_reach : forall hs d,
  reaches SLog hs d = true /\
  (forall st, st = SThreadStart \/ st = SHandleLookup ->
     reaches st hs d = existsb (fun a => match a with AStart _ _ _ _ => true | _ => false end) (port_spec hs d)).
Proof. intros hs d. split; [apply reaches_log|intros st H; apply reaches_start_iff; exact H]. Qed.
Print Assumptions C09_fault_reach.

(* the serve loop survives every Exception: each datagram that arrives gets the reaction it would get
   alone, whichever faults were injected before it *)
Theorem C09_serve_loop_survives : forall hs reqs,
  run_loop_f catch_all hs reqs =
  map (fun r => serve_one_f (fst (fst r)) (snd (fst r)) hs (firstn MAX_REQUEST_PACKET_SIZE (snd r))) reqs.
Proof. exact run_loop_f_total. Qed.
Print Assumptions C09_serve_loop_survives.

(* a loop that catches only OSError and ValueError is left by the RuntimeError of Thread.start *)
Theorem C09_serve_loop_narrow_catch_refuted :
  exists hs reqs,
    (length (run_loop_f only_oserror_valueerror hs reqs) < length reqs)%nat /\
    length (run_loop_f catch_all hs reqs) = length reqs.
Proof. exact run_loop_narrow_catch_refuted. Qed.
Print Assumptions C09_serve_loop_narrow_catch_refuted.

Theorem C09_port_holds_faulted : forall st e sendable hs d,
  port_holds_f (Some (st, e)) sendable hs d (serve_one_f (Some (st, e)) sendable hs d) =
  if reaches st hs d then [] else port_holds sendable hs d (serve_one sendable hs d).
Proof. exact port_holds_f_model. Qed.
Print Assumptions C09_port_holds_faulted.

(* the tie between the theorems and the evaluated cases: for every case whose entry answer carries
   covered = 1 (port_validb) the checker accepts the model; the others (a reply due to a requester with
   source port 0) are the subject of C09_port_holds_unsendable *)
Theorem C09_port_covered_cases : forall f sendable hs d,
  port_validb f sendable hs d = true -> port_holds_f f sendable hs d (serve_one_f f sendable hs d) = [].
Proof. exact port_covered_cases. Qed.
Print Assumptions C09_port_covered_cases.

(* non-vacuity: a mixed-case request with a duplicated option name is decoded and handed to the
   second handler; a request without the final NUL is refused *)
Example C09_port_nonvacuous :
  serve_one true [HExact (lit "x"); HPrefix (lit "pxe")]
    (encode_rrq (lit "pxelinux.0") (lit "OcTeT") [(lit "blksize", lit "1428"); (lit "tsize", lit "0"); (lit "blksize", lit "9")])
  = [AStart (lit "pxelinux.0") Octet [(lit "blksize", lit "9"); (lit "tsize", lit "0")] 1] /\
  serve_one true [HConst true] (0 :: 1 :: lit "f" ++ 0 :: lit "octet") = [ASendError 4] /\
  serve_one true [HConst true] [0; 9; 1; 2] = [] /\ serve_one true [] [0] = [] /\
  (* near-numbers as option values do not disturb the port: the transfer starts, negotiation ignores them *)
  serve_one true [HConst true] (encode_rrq (lit "f") (lit "octet") [(lit "blksize", lit "1024x"); (lit "TIMEOUT", lit "5s")])
  = [AStart (lit "f") Octet [(lit "blksize", lit "1024x"); (lit "TIMEOUT", lit "5s")] 0] /\
  (* a write request from source port 0: one attempt, logged *)
  serve_one false [HConst true] [0; 2] = [ASendError 2; ALogExc].
Proof. vm_compute. repeat split; reflexivity. Qed.
