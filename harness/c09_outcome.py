"""C09: what the transfer thread (_TftpReadRequest._run) does with the request handler's result, against
Tftp/HandlerOutcome.v (binary c09out).  A client chooses the file name, so the handler's "no such file" / "not for you"
(TftpError) is client-controlled: it must reach the client as exactly one ERROR packet with the handler's code and
message and must not be logged as an exception; any other exception of a handler is exactly one ERROR packet with
code 0; in every case the thread ends by itself and releases its socket.  The real file request handler is run behind
the real thread for a sample of file names (missing, directory, below a file, outside the root, present)."""
import io
import os
import shutil
import socket
import tempfile
import threading
import time

import common
from common import sx, unsx
import fake_net
import tftp_common as T
from vinegar.tftp.server import TftpError
from vinegar.tftp.protocol import ErrorCode

EXC = [ValueError("x"), KeyError("k"), RuntimeError("r"), FileNotFoundError(2, "No such file"), PermissionError(13, "denied"),
       IsADirectoryError(21, "dir"), UnicodeDecodeError("utf-8", b"\xff", 0, 1, "bad"), socket.timeout("t"), OSError(5, "io"),
       ZeroDivisionError(), RecursionError(), MemoryError(), AssertionError(), StopIteration(), LookupError()]


def run_impl(case, handler=None):
    """case = (kind, code, msg, content[, exc index]); returns [packets, logexc, sock_closed, thread_exc]"""
    kind, code, msg, content = case[:4]
    thread_exc = []
    old_hook = threading.excepthook
    threading.excepthook = lambda a: thread_exc.append(a.exc_type.__name__)

    def h(filename, client, server, context):
        if kind == 0:
            raise TftpError(msg.decode("ascii"), ErrorCode(code))
        if kind == 1:
            raise EXC[case[4] % len(EXC)]
        return io.BytesIO(content)
    try:
        log = fake_net.run_transfer([(1, T.ADDRS[0], T.ack(1))], handler or h, {}, default_timeout=1, max_retries=0)
    finally:
        threading.excepthook = old_hook
    packets = []
    for e in log:
        if e[0] == "send":
            p = T.parse_packet(e[3])
            if p[0] == 5:
                # [5, code] from the strict parser (well-formed ERROR packet): message between header and NUL
                m = e[3][4:-1]
                packets.append([5, p[1], b"*" if kind == 1 else m])
            elif p[0] == 3:
                packets.append([3, p[1], p[2]])
            else:
                packets.append([99, e[3]])
    logexc = sum(1 for e in log if e[0] == "logexc")
    closed = any(e[0] == "close_sock" for e in log) and not any(e[0] == "hang" for e in log)
    return [packets, 0 if kind == 1 else logexc, 1 if closed else 0, len(thread_exc)]


def cases(tier, rng):
    quick = tier == "quick"
    msgs = [b"", b"x", b"File not found.", b"Access violation.", b"~" * 200, bytes(range(1, 128))]
    for code in range(0, 9):
        for m in msgs:
            yield (0, code, m, b"")
    for i in range(len(EXC)):
        yield (1, 0, b"", b"", i)
    for n in (0, 1, 3, 511):
        yield (2, 0, b"", bytes((7 * i) % 256 for i in range(n)))
    for _ in range(40 if quick else 1500):
        k = rng.choice([0, 0, 1, 2])
        yield (k, rng.randrange(0, 9), bytes(rng.randrange(1, 128) for _ in range(rng.randrange(0, 40))),
               bytes(rng.randrange(256) for _ in range(rng.randrange(0, 512))), rng.randrange(len(EXC)))


import contextlib


@contextlib.contextmanager
def file_handler_cases():
    """list of (name, case, handler) through the real TftpFileRequestHandler: what the handler signals must arrive as model kind 0"""
    from vinegar.request_handler.file import TftpFileRequestHandler
    root = tempfile.mkdtemp(prefix="vf_c09out_")
    try:
        os.makedirs(os.path.join(root, "sub"))
        with open(os.path.join(root, "sub", "a.txt"), "wb") as f:
            f.write(b"hello")
        outside = root + "_outside.txt"
        with open(outside, "wb") as f:
            f.write(b"secret")
        try:
            res = []
            hd = TftpFileRequestHandler({"request_path": "/files", "root_dir": root})
            for name, want in (("/files/sub/a.txt", (2, 0, b"", b"hello")),
                               ("/files/missing.txt", (0, 1, b"", b"")),
                               ("/files/sub", (0, 1, b"", b"")),
                               ("/files/sub/a.txt/x", (0, 1, b"", b"")),
                               ("/files/../" + os.path.basename(outside), (0, 1, b"", b"")),
                               ("/files/%2e%2e/" + os.path.basename(outside), (0, 1, b"", b"")),
                               ("/files/" + "a" * 300, (0, 1, b"", b"")),
                               ("/files/\udcffé", (0, 1, b"", b""))):
                ctx = hd.prepare_context(name)
                if not hd.can_handle(name, ctx):
                    continue

                def h(filename, client, server, context, _hd=hd, _name=name, _ctx=ctx):
                    return _hd.handle(_name, client, server, _ctx)
                res.append((name, want, h))
            yield res
        finally:
            os.unlink(outside)
    finally:
        shutil.rmtree(root, ignore_errors=True)


def line(case, obs):
    return sx([[case[0], case[1], case[2], case[3]], obs])


def replay(case):
    c = (case["kind"], case["code"], bytes.fromhex(case["msg_hex"]), bytes.fromhex(case["content_hex"]), case.get("exc", 0))
    o = run_impl(c)
    out, = common.run_model("c09out", [line(c, o)])
    r = unsx(out)
    return (o, r[0], [x.decode() for x in r[1]], [x.decode() for x in r[2]])


def outcome_checks(tier, rng, report):
    t0 = time.time()
    todo = [(c, None, None) for c in cases(tier, rng)]
    with file_handler_cases() as fh:
        todo += [(want, h, name) for (name, want, h) in fh]
        obs = [run_impl(c, h) for (c, h, _n) in todo]
    outs = common.run_model("c09out", [line(c, o) for (c, _h, _n), o in zip(todo, obs)])
    n = dis = fails = covered = 0
    failing = []
    for (c, h, name), o, out in zip(todo, obs, outs):
        if out.startswith("!") or out.startswith("#"):
            raise RuntimeError(f"c09out: driver rejected case {c!r} -> {out[:100]}")
        r = unsx(out)
        m, fm, fi = r[0], [x.decode() for x in r[1]], [x.decode() for x in r[2]]
        covered += 1 if r[3] == 1 else 0
        n += 1
        if fm:
            raise RuntimeError(f"c09out: the model fails its own checker on {c!r}: {fm}")
        d = common._jsonable(o) != common._jsonable(m)
        dis += 1 if d else 0
        fails += 1 if fi else 0
        if (fi or d) and (len(failing) < 3 or (name and len(failing) < 5)):
            case = {"_extra": True, "part": "handler-outcome", "kind": c[0], "code": c[1], "msg_hex": c[2].hex(),
                    "content_hex": c[3].hex(), "exc": (type(EXC[c[4] % len(EXC)]).__name__ if len(c) > 4 and c[0] == 1 else None),
                    "through_real_file_handler_with_filename": name}
            failing.append((case, fi or ["C09:handler_outcome_correspondence"], common._jsonable(o), common._jsonable(m)))
    report["evaluations"] += n
    report["disagreements"] += dis
    report["impl_failures"] += fails
    report["extra"].update({"handler_outcome_cases": n, "handler_outcome_cases_within_theorem_hypotheses": covered,
                            "handler_outcome_disagreements": dis, "handler_outcome_wall_s": round(time.time() - t0, 1)})
    report.setdefault("extra_failing", []).extend(failing)
