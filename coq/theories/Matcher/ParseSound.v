(* parse_sound: whatever the parser accepts is a legal layout of the tree it returns (for the
   documented grammar, i.e. without the bare-keyword quirk).  Together with parse_print this
   characterises the accepted language exactly: every other string is rejected. *)
From Coq Require Import String.
From Coq Require Import List NArith Bool Arith Lia.
From VF Require Import Matcher.Model Matcher.ParserFacts Matcher.PrintLex Matcher.PrintParse.
Import ListNotations.

(* ---------- whitespace ---------- *)
Lemma ws_split s : s = ws_prefix s ++ drop_ws s /\ is_ws (ws_prefix s).
Proof.
  unfold is_ws. induction s as [|c r [IH1 IH2]]; cbn [ws_prefix drop_ws]; [split; reflexivity|].
  destruct (is_space c) eqn:E; [|split; reflexivity].
  cbn [app forallb]. rewrite E. split; [now f_equal|exact IH2].
Qed.

Lemma skip_ws_split prev s pv r : skip_ws prev s = (pv, r) ->
  exists w, is_ws w /\ s = w ++ r /\ pv = last_of prev w /\ nonspace_head r.
Proof.
  rewrite skip_ws_eq. intros [= <- <-]. exists (ws_prefix s). destruct (ws_split s) as [H1 H2].
  repeat split; auto. apply drop_ws_nonspace.
Qed.

Lemma is_ws_app a b : is_ws a -> is_ws b -> is_ws (a ++ b).
Proof. unfold is_ws. intros Ha Hb. now rewrite forallb_app, Ha, Hb. Qed.

Lemma ws_nonspace_nil w t : is_ws w -> nonspace_head (w ++ t) -> t <> [] \/ w = [] -> w = [] \/ t = [].
Proof. destruct w as [|c w]; [auto|]. unfold is_ws. cbn. intros H Hn. apply andb_prop in H as [H _]. congruence. Qed.

(* ---------- lexing, read backwards ---------- *)
Lemma lex_quoted_sound q : (q =? BS)%N = false ->
  forall s v t, lex_quoted q s = Some (v, t) -> s = escape q v ++ q :: t.
Proof.
  intros Hq. fix IH 1. intros [|c r] v t; cbn [lex_quoted]; [discriminate|].
  destruct (c =? BS)%N eqn:Ec.
  - apply N.eqb_eq in Ec as ->. destruct r as [|d r']; [discriminate|].
    destruct ((d =? q) || (d =? BS))%N eqn:Ed; [|discriminate].
    destruct (lex_quoted q r') as [[v' t']|] eqn:E; [|discriminate].
    intros [= <- <-]. apply IH in E as ->. unfold escape. cbn [flat_map]. rewrite Ed. reflexivity.
  - destruct (c =? q)%N eqn:Ecq.
    + apply N.eqb_eq in Ecq as ->. intros [= <- <-]. reflexivity.
    + destruct (lex_quoted q r) as [[v' t']|] eqn:E; [|discriminate].
      intros [= <- <-]. apply IH in E as ->. unfold escape. cbn [flat_map]. rewrite Ecq, Ec. reflexivity.
Qed.

Lemma lex_unquoted_sound : forall s p t, lex_unquoted s = (p, t) ->
  s = p ++ t /\ forallb (fun c => negb (reserved c)) p = true /\ stop_res t.
Proof.
  induction s as [|c r IH]; intros p t; cbn [lex_unquoted].
  - intros [= <- <-]. repeat split.
  - destruct (reserved c) eqn:E.
    + intros [= <- <-]. repeat split. exact E.
    + destruct (lex_unquoted r) as [p' t'] eqn:E'. intros [= <- <-].
      destruct (IH _ _ eq_refl) as (-> & Hp & Hs). cbn [app forallb]. rewrite E. repeat split; auto.
Qed.

Lemma is_quote_cases c : is_quote c = true -> c = SQ \/ c = DQ.
Proof. unfold is_quote. intros H. apply orb_prop in H as [H|H]; apply N.eqb_eq in H; auto. Qed.

Lemma lex_pattern_sound s p l t : lex_pattern s = Ok (p, l, t) ->
  exists st, value_ok st p /\ s = print_value st p ++ t /\ (forall d, last_of d (print_value st p) = Some l) /\
             (st = Unq -> stop_res t /\ exists c r, s = c :: r /\ is_quote c = false) /\
             (st <> Unq -> exists c r, s = c :: r /\ is_quote c = true).
Proof.
  unfold lex_pattern. destruct s as [|c r]; [discriminate|].
  destruct (is_quote c) eqn:Eq.
  - destruct (lex_quoted c r) as [[v t']|] eqn:E; [|discriminate]. intros [= <- <- <-].
    destruct (is_quote_cases c Eq) as [-> | ->]; apply lex_quoted_sound in E; try reflexivity.
    + exists Sq. cbn [value_ok print_value]. repeat split; try congruence; try (eexists _, _; split; reflexivity).
      * rewrite E. cbn [app]. now rewrite <- app_assoc.
      * intros d. apply (last_of_snoc d (SQ :: escape SQ v)).
    + exists Dq. cbn [value_ok print_value]. repeat split; try congruence; try (eexists _, _; split; reflexivity).
      * rewrite E. cbn [app]. now rewrite <- app_assoc.
      * intros d. apply (last_of_snoc d (DQ :: escape DQ v)).
  - destruct (lex_unquoted (c :: r)) as [p' t'] eqn:E. destruct (rev p') as [|l' tl'] eqn:Er; [discriminate|].
    intros [= <- <- <-]. apply lex_unquoted_sound in E as (Es & Hp & Hs).
    exists Unq. cbn [value_ok print_value].
    assert (Hne : p' <> []) by (intros ->; discriminate).
    split; [|split; [exact Es|split]].
    + split; [exact Hne|]. split; [exact Hp|]. destruct p' as [|c0 p'']; [exact I|].
      cbn [app] in Es. injection Es as <- _. exact Eq.
    + intros d. unfold last_of. now rewrite Er.
    + split; [|congruence]. intros _. split; [exact Hs|]. eexists _, _. split; [reflexivity|exact Eq].
Qed.

Lemma lex_key_sound s k t : lex_key s = Ok (k, t) ->
  exists st, k <> [] /\ value_ok st k /\ s = print_value st k ++ t.
Proof.
  unfold lex_key. destruct s as [|c r]; [discriminate|].
  destruct (is_quote c) eqn:Eq.
  - destruct (lex_quoted c r) as [[v t']|] eqn:E; [|discriminate].
    destruct v as [|v0 v']; [discriminate|]. intros [= <- <-].
    destruct (is_quote_cases c Eq) as [-> | ->]; apply lex_quoted_sound in E; try reflexivity.
    + exists Sq. cbn [value_ok print_value]. repeat split; try discriminate.
      rewrite E. cbn [app]. now rewrite <- app_assoc.
    + exists Dq. cbn [value_ok print_value]. repeat split; try discriminate.
      rewrite E. cbn [app]. now rewrite <- app_assoc.
  - destruct (lex_unquoted (c :: r)) as [p' t'] eqn:E. destruct p' as [|c0 p'']; [discriminate|].
    intros [= <- <-]. apply lex_unquoted_sound in E as (Es & Hp & Hs).
    exists Unq. cbn [value_ok print_value]. split; [discriminate|]. split; [|exact Es].
    split; [discriminate|]. split; [exact Hp|]. cbn [app] in Es. injection Es as <- _. exact Eq.
Qed.

Lemma first_prefix_sound ps : forall s info r, first_prefix ps s = Some (info, r) ->
  exists p, In (p, info) ps /\ s = p ++ r.
Proof.
  induction ps as [|[p i] ps IH]; intros s info r; cbn [first_prefix]; [discriminate|].
  destruct (starts p s) as [r0|] eqn:E.
  - intros [= <- <-]. exists p. split; [now left|now apply starts_inv].
  - intros H. destruct (IH _ _ _ H) as (p' & Hin & Hs). exists p'. split; [now right|exact Hs].
Qed.

Definition prefix_text (isdata : bool) (ty : atype) (opts : bool) : str :=
  (if isdata then lit "@data_" else lit "@id_") ++ type_str ty ++
  (if opts then [SLASH] else if isdata then [COLON] else [AT]).

Lemma prefixes_text p isdata ty opts : In (p, (isdata, ty, opts)) prefixes -> p = prefix_text isdata ty opts.
Proof.
  unfold prefixes. cbn [In]. intros H.
  repeat (destruct H as [H|H]; [injection H; intros; subst; reflexivity|]). destruct H.
Qed.

Lemma expect_sound c s r : expect c s = Ok r -> s = c :: r.
Proof.
  unfold expect. destruct s as [|d t]; [discriminate|]. destruct (d =? c)%N eqn:E; [|discriminate].
  apply N.eqb_eq in E as ->. now intros [= <-].
Qed.

(* does the text start with a closing parenthesis (or an at sign)? *)
Definition flag (x : str) : bool := match x with c :: _ => (c =? RP)%N || (c =? AT)%N | [] => false end.

Lemma space_not_flag c : is_space c = true -> ((c =? RP)%N || (c =? AT)%N) = false.
Proof.
  intros H. destruct (c =? RP)%N eqn:E1; [apply N.eqb_eq in E1; subst; discriminate|].
  destruct (c =? AT)%N eqn:E2; [apply N.eqb_eq in E2; subst; discriminate|]. reflexivity.
Qed.
Lemma flag_ws_rp w x : is_ws w -> flag (w ++ RP :: x) = is_nil w.
Proof.
  destruct w as [|c w]; [reflexivity|]. unfold is_ws. cbn [forallb app flag is_nil]. intros H.
  apply andb_prop in H as [H _]. now apply space_not_flag.
Qed.
Lemma flag_ws_nil w : is_ws w -> flag (w ++ []) = false.
Proof.
  destruct w as [|c w]; [reflexivity|]. unfold is_ws. cbn [forallb app flag]. intros H.
  apply andb_prop in H as [H _]. now apply space_not_flag.
Qed.
Lemma flag_ws_kw w k x : is_ws w -> flag (w ++ kw_str k ++ x) = false.
Proof.
  destruct w as [|c w].
  - intros _. destruct k; reflexivity.
  - unfold is_ws. cbn [forallb app flag]. intros H. apply andb_prop in H as [H _]. now apply space_not_flag.
Qed.

Lemma find_kw_none_each ks s k : find_kw ks s = None -> In k ks ->
  match starts (kw_str k) s with Some r => boundary_after r = false | None => True end.
Proof.
  induction ks as [|k0 ks IH]; cbn [find_kw In]; [tauto|].
  destruct (starts (kw_str k0) s) as [r0|] eqn:E.
  - destruct (boundary_after r0) eqn:Eb; [discriminate|]. intros H [->|Hin]; [now rewrite E|now apply IH].
  - intros H [->|Hin]; [now rewrite E|now apply IH].
Qed.

Lemma kw_text_cases p : is_kw_text p = true -> exists k, p = kw_str k.
Proof.
  unfold is_kw_text. intros H. apply orb_prop in H as [H|H]; [apply orb_prop in H as [H|H]|];
    apply str_eqb_true in H; eauto.
Qed.

Section Sound.
  Variable V : variants.
  Variable compile : atom -> cres.
  Let b := bare_keyword_atom V.

  Lemma compile_qualified_cok a a' : compile_qualified V compile a = Ok a' -> compile a = COk.
  Proof. unfold compile_qualified. destruct (compile a); try discriminate; [reflexivity|].
    destruct (overflow_escapes V); discriminate. Qed.
  Lemma compile_unqualified_cok a a' : compile_unqualified compile a = Ok a' -> compile a = COk.
  Proof. unfold compile_unqualified. destruct (compile a); try discriminate; reflexivity. Qed.

  Lemma simple_sound s a l r : simple V compile s = Ok (a, l, r) ->
    exists st, (atom_okx true a st /\
                (st_short st = true -> st_pat st = Unq -> is_kw_text (a_pat a) = true -> b = true) /\
                (st_pat st = Unq -> stop_res r)) /\
               s = print_atom a st ++ r /\ (forall d, last_of d (print_atom a st) = Some l) /\
               compile a = COk.
  Proof.
    unfold simple. destruct (first_prefix prefixes s) as [[[[isdata ty] opts] r0]|] eqn:Ep.
    - apply first_prefix_sound in Ep as (p & Hin & Es). apply prefixes_text in Hin. subst p.
      intros H. apply bind_ok in H as ([cs r2] & H1 & H).
      set (sep := if isdata then COLON else AT) in *.
      assert (Ho : (opts = true /\ cs = false /\ r0 = 105%N :: sep :: r2) \/
                   (opts = true /\ cs = true /\ r0 = sep :: r2) \/
                   (opts = false /\ cs = true /\ r0 = r2)).
      { destruct opts.
        - destruct r0 as [|c r'].
          + apply bind_ok in H1 as (x & Hx & _). discriminate.
          + destruct (c =? 105)%N eqn:Ec.
            * apply N.eqb_eq in Ec as ->. apply bind_ok in H1 as (x & Hx & [= <- <-]).
              apply expect_sound in Hx as ->. left. auto.
            * apply bind_ok in H1 as (x & Hx & [= <- <-]).
              apply expect_sound in Hx. right. left. auto.
        - injection H1 as <- <-. right. right. auto. }
      destruct isdata.
      + apply bind_ok in H as ([k r3] & Hk & H). apply lex_key_sound in Hk as (kq & Hkne & Hkv & Er2).
        apply bind_ok in H as (r4 & H4 & H). apply expect_sound in H4.
        apply bind_ok in H as ([[p l'] r5] & H5 & H).
        apply lex_pattern_sound in H5 as (pq & Hpv & Er4 & Hlast & Hunq & _).
        apply bind_ok in H as (a' & Hc & [= <- <- <-]).
        pose proof (compile_qualified_cok _ _ Hc) as Hcok. apply compile_qualified_ok in Hc. subst a'.
        exists {| st_short := false; st_slash := (opts && cs)%bool; st_key := kq; st_pat := pq |}.
        split; [split; [unfold atom_okx; cbn; auto|split; [discriminate|intros Hq; now apply Hunq]]|].
        split; [|split; [|exact Hcok]].
        * subst s r2 r3 r4. unfold sep in Ho.
          destruct Ho as [(-> & -> & ->)|[(-> & -> & ->)|(-> & -> & ->)]]; destruct ty;
            unfold print_atom, opt_str, prefix_text; cbn -[print_value]; rewrite <- ?app_assoc; cbn [app];
            rewrite <- ?app_assoc; reflexivity.
        * intros d. unfold print_atom. cbn [st_short a_key st_pat a_pat st_key].
          rewrite !last_of_app. rewrite last_of_cons, last_of_app, last_of_cons. apply Hlast.
      + apply bind_ok in H as ([[p l'] r5] & H5 & H).
        apply lex_pattern_sound in H5 as (pq & Hpv & Er2 & Hlast & Hunq & _).
        apply bind_ok in H as (a' & Hc & [= <- <- <-]).
        pose proof (compile_qualified_cok _ _ Hc) as Hcok. apply compile_qualified_ok in Hc. subst a'.
        exists {| st_short := false; st_slash := (opts && cs)%bool; st_key := Unq; st_pat := pq |}.
        split; [split; [unfold atom_okx; cbn; auto|split; [discriminate|intros Hq; now apply Hunq]]|].
        split; [|split; [|exact Hcok]].
        * subst s r2. unfold sep in Ho.
          destruct Ho as [(-> & -> & ->)|[(-> & -> & ->)|(-> & -> & ->)]]; destruct ty;
            unfold print_atom, opt_str, prefix_text; cbn -[print_value]; rewrite <- ?app_assoc; cbn [app];
            rewrite <- ?app_assoc; reflexivity.
        * intros d. unfold print_atom. cbn [st_short a_key st_pat a_pat st_key].
          rewrite !last_of_app. rewrite last_of_cons. apply Hlast.
    - destruct s as [|c s']; [discriminate|]. destruct (c =? AT)%N; [discriminate|].
      intros H. apply bind_ok in H as ([[p l'] r5] & H5 & H).
      apply lex_pattern_sound in H5 as (pq & Hpv & Es & Hlast & Hunq & _).
      fold b in H.
      destruct (negb b && negb (is_quote c) && is_kw_text p) eqn:Ek; [discriminate|].
      apply bind_ok in H as (a' & Hc & [= <- <- <-]).
      pose proof (compile_unqualified_cok _ _ Hc) as Hcok. apply compile_unqualified_ok in Hc. subst a'.
      exists {| st_short := true; st_slash := false; st_key := Unq; st_pat := pq |}.
      split; [|split; [exact Es|split; [exact Hlast|exact Hcok]]].
      split; [|split].
      + unfold atom_okx. cbn. split; [exact Hpv|]. repeat split. discriminate.
      + cbn. intros _ Hq Hkw. destruct (Hunq Hq) as (_ & c' & r' & [= <- <-] & Hnq).
        rewrite Hnq, Hkw in Ek. cbn in Ek. rewrite !andb_true_r in Ek. now apply negb_false_iff in Ek.
      + cbn. intros Hq. now apply Hunq.
  Qed.

  Lemma atom_upgrade a st r : atom_okx true a st ->
    (st_short st = true -> st_pat st = Unq -> is_kw_text (a_pat a) = true -> b = true) ->
    (st_pat st = Unq -> stop_res r) ->
    find_kw all_kws (print_atom a st ++ r) = None ->
    atom_okx (b && flag r) a st.
  Proof.
    intros [Hv Hk] Hb Hs Hf. split; [exact Hv|]. destruct (st_short st) eqn:Esh; [|exact Hk].
    destruct Hk as (H1 & H2 & H3 & _). repeat split; auto.
    intros Hq Hal. destruct (is_kw_text (a_pat a)) eqn:Ekw; [exfalso|reflexivity].
    rewrite (Hb eq_refl Hq eq_refl) in Hal. cbn in Hal.
    destruct (kw_text_cases _ Ekw) as (k & Ep).
    unfold print_atom in Hf. rewrite Esh, Hq in Hf. cbn [print_value] in Hf. rewrite Ep in Hf.
    assert (Hin : In k all_kws) by (destruct k; cbn; auto).
    pose proof (find_kw_none_each _ _ k Hf Hin) as Hx. rewrite starts_app in Hx.
    specialize (Hs Hq). destruct r as [|c r']; [discriminate|]. cbn in Hs, Hx, Hal.
    unfold reserved in Hs. apply orb_false_elim in Hx as [Hlp Hsp]. rewrite Hsp, Hlp in Hs. cbn in Hs.
    rewrite orb_false_r in Hs. rewrite orb_comm in Hal. congruence.
  Qed.

  (* ---------- trees ---------- *)
  Lemma forallb_last {A} (f : A -> bool) v l t : forallb f v = true -> rev v = l :: t -> f l = true.
  Proof.
    intros Hv Hr. assert (Hin : In l v) by (apply in_rev; rewrite Hr; now left).
    rewrite forallb_forall in Hv. now apply Hv.
  Qed.

  Lemma value_last st v : value_ok st v -> (st = Unq -> v <> []) ->
    exists l, (forall d, last_of d (print_value st v) = Some l) /\ prev_ok (Some l) = false.
  Proof.
    intros Hv Hne. destruct st.
    - cbn [value_ok print_value] in *. destruct Hv as (Hn & Hr & _).
      destruct (unquoted_last v Hn) as (l & El & Hl). exists l. split; [exact Hl|].
      pose proof (forallb_last _ _ _ _ Hr El) as Hx. apply negb_true_iff in Hx.
      unfold reserved in Hx. apply orb_false_elim in Hx as [Hx Hrp]. apply orb_false_elim in Hx as [Hx Hlp].
      apply orb_false_elim in Hx as [Hsp _]. cbn. now rewrite Hsp, Hlp, Hrp.
    - exists SQ. split; [intros d; apply (last_of_snoc d (SQ :: escape SQ v))|reflexivity].
    - exists DQ. split; [intros d; apply (last_of_snoc d (DQ :: escape DQ v))|reflexivity].
  Qed.

  Lemma atom_last al a st : atom_okx al a st ->
    exists l, (forall d, last_of d (print_atom a st) = Some l) /\ prev_ok (Some l) = false.
  Proof.
    intros [Hv Hk]. destruct (value_last (st_pat st) (a_pat a) Hv) as (l & Hl & Hp).
    { intros Hq. rewrite Hq in Hv. now destruct Hv. }
    exists l. split; [|exact Hp]. intros d. unfold print_atom. destruct (st_short st); [apply Hl|].
    destruct (a_key a).
    - rewrite !last_of_app. rewrite last_of_cons, last_of_app, last_of_cons. apply Hl.
    - rewrite !last_of_app. rewrite last_of_cons. apply Hl.
  Qed.

  Lemma last_char_paren t : forall rp lvl d, okx b rp lvl t -> prev_ok (last_of d (print t)) = true -> ends_paren t = true.
  Proof.
    induction t as [a st|w c IH|k l IHl w1 w2 r IHr|w1 c IH w2]; intros rp lvl d; cbn [okx print ends_paren].
    - intros Hok Hp. destruct (atom_last _ a st Hok) as (x & Hx & Hf). rewrite Hx in Hp. congruence.
    - intros (_ & Hok & _). rewrite !last_of_app. now apply (IH rp 2%nat).
    - intros (_ & _ & _ & _ & _ & Hr & _). rewrite !last_of_app. now apply (IHr rp (S (lev k))).
    - reflexivity.
  Qed.

  Lemma head_paren t : forall rp lvl tl, okx b rp lvl t -> print t = LP :: tl -> starts_paren t = true.
  Proof.
    induction t as [a st|w c IH|k l IHl w1 w2 r IHr|w1 c IH w2]; intros rp lvl tl; cbn [okx print starts_paren].
    - intros Hok E. destruct (atom_head _ a st Hok) as (ch & t' & E' & _ & Hlp). rewrite E' in E.
      injection E as -> _. discriminate.
    - intros _ E. discriminate.
    - intros (_ & _ & _ & _ & Hl & _) E. destruct (print_head l _ _ _ Hl) as (ch & t' & E' & _).
      rewrite E' in E. cbn [app] in E. injection E as -> _. now apply (IHl false (lev k) t').
    - reflexivity.
  Qed.

  Lemma boundary_paren rp lvl t rest : okx b rp lvl t -> boundary_after (print t ++ rest) = true -> starts_paren t = true.
  Proof.
    intros Hok Hb. destruct (print_head t _ _ _ Hok) as (ch & t' & E & Hs). rewrite E in Hb. cbn [app boundary_after] in Hb.
    rewrite Hs, orb_false_r in Hb. apply N.eqb_eq in Hb as ->. now apply (head_paren t rp lvl t').
  Qed.

  Lemma ok_weaken t : forall rp lvl lvl', (lvl' <= lvl)%nat -> okx b rp lvl t -> okx b rp lvl' t.
  Proof.
    destruct t; intros rp lvl lvl' Hle; cbn [okx]; auto.
    intros (H1 & H2 & H3). split; [exact H1|]. split; [lia|exact H3].
  Qed.

  (* what a sub-parser of a level returns, read backwards *)
  Definition sub_sound (sub : parser) (lvl : nat) : Prop :=
    forall prev s e pv r, nonspace_head s -> sub prev s = Ok (e, pv, r) ->
    exists t w, okx b (flag (w ++ r)) lvl t /\ is_ws w /\ s = print t ++ w ++ r /\ erase t = e /\
                pv = last_of (last_of prev (print t)) w /\ compiled compile t.

  Section LoopSound.
    Variables (k : kw) (sub : parser).
    Hypothesis Hk : k <> KNot.
    Hypothesis Hsub : sub_sound sub (S (lev k)).

    Lemma peek_one_sound prev s k' r0 : peek_kw [k] prev s = PSome k' r0 ->
      k' = k /\ s = kw_str k ++ r0 /\ boundary_after r0 = true /\ prev_ok prev = true.
    Proof.
      unfold peek_kw. destruct (find_kw [k] s) as [[k2 r2]|] eqn:E; [|discriminate].
      destruct (prev_ok prev) eqn:Ep; [|discriminate]. intros [= <- <-].
      cbn [find_kw] in E. destruct (starts (kw_str k) s) as [r1|] eqn:Es; [|discriminate].
      destruct (boundary_after r1) eqn:Eb; [|discriminate]. injection E as <- <-.
      apply starts_inv in Es. auto.
    Qed.

    Lemma loop_sound g : forall tl wl prev0 s e pv r,
      okx b (flag (wl ++ s)) (lev k) tl -> compiled compile tl -> is_ws wl -> nonspace_head s ->
      loop k sub (mk_of k) g (erase tl) (last_of (last_of prev0 (print tl)) wl) s = Ok (e, pv, r) ->
      exists t w, okx b (flag (w ++ r)) (lev k) t /\ is_ws w /\ print tl ++ wl ++ s = print t ++ w ++ r /\ erase t = e /\
                  pv = last_of (last_of prev0 (print t)) w /\ compiled compile t.
    Proof.
      induction g as [|g IH]; intros tl wl prev0 s e pv r Hok Hcomp Hwl Hns; cbn [loop]; [discriminate|].
      destruct s as [|c s'].
      { intros [= <- <- <-]. exists tl, wl. auto 10. }
      destruct (peek_kw [k] (last_of (last_of prev0 (print tl)) wl) (c :: s')) as [| |k' r0] eqn:Ep; [discriminate| |].
      { intros [= <- <- <-]. exists tl, wl. auto 10. }
      apply peek_one_sound in Ep as (-> & Es & Hb & Hpo).
      destruct (skip_ws (last_of (last_of (last_of prev0 (print tl)) wl) (kw_str k)) r0) as [pv1 r1] eqn:E1.
      apply skip_ws_split in E1 as (w2 & Hw2 & Er0 & Epv1 & Hns1).
      intros H. apply bind_ok in H as ([[e2 pv2] r2] & H2 & H).
      destruct (Hsub pv1 r1 e2 pv2 r2 Hns1 H2) as (t2 & wa & Hok2 & Hwa & Er1 & Ee2 & Epv2 & Hc2).
      destruct (skip_ws pv2 r2) as [pv3 r3] eqn:E3.
      apply skip_ws_split in E3 as (w3 & Hw3 & Er2 & Epv3 & Hns3).
      set (tl' := CBin k tl wl w2 t2).
      rewrite Es, (flag_ws_kw wl k r0 Hwl) in Hok.
      assert (Hok' : okx b (flag ((wa ++ w3) ++ r3)) (lev k) tl').
      { cbn [okx]. split; [exact Hk|]. split; [lia|]. split; [exact Hwl|]. split; [exact Hw2|].
        split; [exact Hok|]. split; [rewrite <- app_assoc, <- Er2; exact Hok2|]. split.
        - destruct wl as [|c0 wl']; [|left; discriminate]. right. cbn [last_of rev] in Hpo.
          now apply (last_char_paren tl false (lev k) prev0).
        - destruct w2 as [|c0 w2']; [|left; discriminate]. right. cbn [app] in Er0. subst r0 r1.
          apply (boundary_paren (flag (wa ++ r2)) (S (lev k)) t2 (wa ++ r2)); [exact Hok2|exact Hb]. }
      assert (Hc' : compiled compile tl').
      { intros a Ha. cbn [catoms] in Ha. apply in_app_or in Ha as [Ha|Ha]; auto. }
      assert (Hm : mk_of k (erase tl) e2 = erase tl') by (unfold tl'; cbn [erase]; now rewrite Ee2).
      rewrite Hm in H.
      assert (Hpv : pv3 = last_of (last_of prev0 (print tl')) (wa ++ w3)).
      { subst pv3 pv2 pv1. unfold tl'. cbn [print]. now rewrite !last_of_app. }
      rewrite Hpv in H.
      destruct (IH tl' (wa ++ w3) prev0 r3 e pv r Hok' Hc' (is_ws_app _ _ Hwa Hw3) Hns3 H)
        as (t & w & Hokt & Hw & Est & Eet & Epv & Hct).
      exists t, w. split; [exact Hokt|]. split; [exact Hw|]. split; [|auto].
      rewrite <- Est. rewrite Es, Er0, Er1, Er2. unfold tl'. cbn [print]. now rewrite <- !app_assoc.
    Qed.

    Lemma compound_sound g prev s e pv r : compound k sub (mk_of k) g prev s = Ok (e, pv, r) ->
      exists t w0 w, okx b (flag (w ++ r)) (lev k) t /\ is_ws w0 /\ is_ws w /\ s = w0 ++ print t ++ w ++ r /\ erase t = e /\
                     pv = last_of (last_of (last_of prev w0) (print t)) w /\ compiled compile t.
    Proof.
      unfold compound. destruct (skip_ws prev s) as [pv0 r0] eqn:E0.
      apply skip_ws_split in E0 as (w0 & Hw0 & Es & Epv0 & Hns0).
      intros H. apply bind_ok in H as ([[e1 pv1] r1] & H1 & H).
      destruct (Hsub pv0 r0 e1 pv1 r1 Hns0 H1) as (t1 & wa & Hok1 & Hwa & Er0 & Ee1 & Epv1 & Hc1).
      destruct (skip_ws pv1 r1) as [pv2 r2] eqn:E2.
      apply skip_ws_split in E2 as (w2 & Hw2 & Er1 & Epv2 & Hns2).
      assert (Hok1' : okx b (flag ((wa ++ w2) ++ r2)) (lev k) t1).
      { rewrite <- app_assoc, <- Er1. apply (ok_weaken t1 _ (S (lev k))); [lia|exact Hok1]. }
      rewrite <- Ee1 in H.
      assert (Hpv : pv2 = last_of (last_of pv0 (print t1)) (wa ++ w2)).
      { subst pv2 pv1. now rewrite !last_of_app. }
      rewrite Hpv in H.
      destruct (loop_sound g t1 (wa ++ w2) pv0 r2 e pv r Hok1' Hc1 (is_ws_app _ _ Hwa Hw2) Hns2 H)
        as (t & w & Hokt & Hw & Est & Eet & Epv & Hct).
      exists t, w0, w. split; [exact Hokt|]. split; [exact Hw0|]. split; [exact Hw|].
      split; [|split; [exact Eet|split; [now rewrite Epv, Epv0|exact Hct]]].
      rewrite Es, Er0, Er1. f_equal. rewrite <- Est. now rewrite <- !app_assoc.
    Qed.
  End LoopSound.

  Lemma compound_sub_sound k sub g : k <> KNot -> sub_sound sub (S (lev k)) ->
    sub_sound (compound k sub (mk_of k) g) (lev k).
  Proof.
    intros Hk Hsub prev s e pv r Hns H.
    destruct (compound_sound k sub Hk Hsub g prev s e pv r H) as (t & w0 & w & Hok & Hw0 & Hw & Es & Ee & Epv & Hc).
    assert (w0 = []) as ->.
    { destruct w0 as [|c w0']; [reflexivity|]. exfalso. rewrite Es in Hns. unfold is_ws in Hw0. cbn in Hw0, Hns.
      apply andb_prop in Hw0 as [Hc0 _]. congruence. }
    exists t, w. cbn [app last_of rev] in *. auto 10.
  Qed.

  Lemma unary_sound f : sub_sound (unary V compile f) 2.
  Proof.
    induction f as [|f IH]; intros prev s e pv r Hns; [discriminate|]. rewrite unary_S.
    assert (Hand : sub_sound (and_level V compile f) 1).
    { apply (compound_sub_sound KAnd); [discriminate|exact IH]. }
    assert (Hsimple : ('(a, l, r') <- simple V compile s ;; Ok (Atom a, Some l, r')) = Ok (e, pv, r) ->
      find_kw all_kws s = None ->
      exists t w, okx b (flag (w ++ r)) 2 t /\ is_ws w /\ s = print t ++ w ++ r /\ erase t = e /\
                  pv = last_of (last_of prev (print t)) w /\ compiled compile t).
    { intros H Hfk. apply bind_ok in H as ([[a l] r'] & Hs & [= <- <- <-]).
      destruct (simple_sound s a l r' Hs) as (st & (Hok & Hb2 & Hst) & Es & Hlast & Hc).
      exists (CAtom a st), []. split; [cbn [okx app]; rewrite Es in Hfk; now apply atom_upgrade|]. split; [reflexivity|]. split; [cbn [print app]; exact Es|].
      split; [reflexivity|]. split; [|intros x [<-|[]]; exact Hc].
      cbn [print]. change (Some l = last_of prev (print_atom a st)). now rewrite Hlast. }
    destruct s as [|c s']; [intros H; now apply Hsimple|].
    destruct (c =? LP)%N eqn:Ec.
    - apply N.eqb_eq in Ec as ->. intros H. apply bind_ok in H as ([[e' pv'] r'] & Ho & H).
      destruct r' as [|d r'']; [discriminate|]. destruct (d =? RP)%N eqn:Ed; [|discriminate].
      apply N.eqb_eq in Ed as ->. injection H as <- <- <-.
      destruct (compound_sound KOr (and_level V compile f) ltac:(discriminate) Hand f (Some LP) s' e' pv' (RP :: r'') Ho)
        as (t & w0 & w & Hok & Hw0 & Hw & Es & Ee & _ & Hc).
      rewrite (flag_ws_rp w r'' Hw) in Hok.
      exists (CParen w0 t w), []. cbn [okx print erase app]. repeat split; auto.
      + rewrite Es. cbn [app]. now rewrite <- !app_assoc.
      + cbn [last_of rev]. symmetry. apply (ends_paren_last (CParen w0 t w)). reflexivity.
    - destruct (peek_kw all_kws prev (c :: s')) as [| |k' r0] eqn:Ep; [discriminate| |].
      { intros H. apply Hsimple; [exact H|]. unfold peek_kw in Ep.
        destruct (find_kw all_kws (c :: s')) as [[k2 r2]|]; [|reflexivity]. destruct (prev_ok prev); discriminate. }
      destruct k'; try discriminate.
      unfold peek_kw in Ep. destruct (find_kw all_kws (c :: s')) as [[k2 r2]|] eqn:Ef; [|discriminate].
      destruct (prev_ok prev) eqn:Epo; [|discriminate]. injection Ep as -> ->.
      apply find_kw_inv in Ef as (Es & Hb).
      destruct (skip_ws (last_of prev (kw_str KNot)) r0) as [pv1 r1] eqn:E1.
      apply skip_ws_split in E1 as (w & Hw & Er0 & Epv1 & Hns1).
      intros H. apply bind_ok in H as ([[e' pv'] r'] & Hu & [= <- <- <-]).
      destruct (IH pv1 r1 e' pv' r' Hns1 Hu) as (t & wa & Hok & Hwa & Er1 & Ee & Epv & Hc).
      exists (CNot w t), wa. cbn [okx print erase]. split; [|split; [exact Hwa|split; [|split; [now rewrite Ee|split; [|exact Hc]]]]].
      + split; [exact Hw|]. split; [exact Hok|]. destruct w as [|c0 w']; [|left; discriminate]. right.
        cbn [app] in Er0. subst r0 r1. apply (boundary_paren (flag (wa ++ r')) 2 t (wa ++ r')); [exact Hok|exact Hb].
      + rewrite Es, Er0, Er1. now rewrite <- !app_assoc.
      + rewrite Epv, Epv1. now rewrite !last_of_app.
  Qed.

  Theorem parse_sound_x s e : parse V compile s = Ok e ->
    exists t w0 w3, okx b false 0 t /\ is_ws w0 /\ is_ws w3 /\ s = w0 ++ print t ++ w3 /\ erase t = e /\ compiled compile t.
  Proof.
    unfold parse. intros H. apply bind_ok in H as ([[e' pv] r] & Ho & H).
    destruct r as [|c r]; [|discriminate]. injection H as <-.
    assert (Hand : sub_sound (and_level V compile (fuel_for s)) 1).
    { apply (compound_sub_sound KAnd); [discriminate|apply unary_sound]. }
    destruct (compound_sound KOr _ ltac:(discriminate) Hand _ None s e' pv [] Ho)
      as (t & w0 & w & Hok & Hw0 & Hw & Es & Ee & _ & Hc).
    rewrite (flag_ws_nil w Hw) in Hok. exists t, w0, w. rewrite app_nil_r in Es. auto 10.
  Qed.
End Sound.

Theorem parse_sound V compile : bare_keyword_atom V = false -> forall s e, parse V compile s = Ok e ->
  exists t w0 w3, ok 0 t /\ is_ws w0 /\ is_ws w3 /\ s = w0 ++ print t ++ w3 /\ erase t = e /\ compiled compile t.
Proof. intros Hb s e H. pose proof (parse_sound_x V compile s e H) as Hx. now rewrite Hb in Hx. Qed.
