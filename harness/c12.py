"""C12 - YAML target caching is transparent: never stale, isolated, versions track data."""
import copy
import itertools
import os
import shutil

import common
from common import Check, sx, unsx, hist
import pyval
from pyval import enc, norm, exc_code
import yamlfs
from yamlfs import DIR

import vinegar.data_source
from vinegar.data_source.yaml_target import YamlTargetSource as _YamlTargetSource


def YamlTargetSource(cfg):
    """sources are created the way the server wires them: get_data_source -> yaml_target.get_instance"""
    src = vinegar.data_source.get_data_source("yaml_target", cfg)
    assert isinstance(src, _YamlTargetSource)
    return src

from vinegar.utils.cache import LRUCache

LRU_KEYS = ["a", "b", "c"]


def run_lru(c):
    cache = LRUCache(cache_size=c["cap"])
    out = []
    for op in c["ops"]:
        if op[0] == "get":
            v = cache.get(op[1], None)
            r = [] if v is None else [v]
        else:
            cache[op[1]] = op[2]
            r = []
        out.append([r, [k in cache for k in LRU_KEYS]])
    return out

CURRENT_VARIANTS = [1, 0, 0, 0]


# ----------------------------------------------------------------------------- histories
def apply_op(tree, op):
    """the op on the dict form of the tree; returns the new dict (pure)"""
    t = dict(tree)
    kind = op[0]
    if kind == "edit":
        t[op[1]] = op[2]
    elif kind == "delete":
        t.pop(op[1], None)
    elif kind == "inplace":                    # same length, same inode, old mtime put back
        t[op[1]] = op[2]
    elif kind == "swap":                       # name.yaml <-> name/init.yaml
        f, i = op[1] + ".yaml", op[1] + "/init.yaml"
        if f in t and i not in t:
            t[i] = t.pop(f)
        elif i in t and f not in t:
            t[f] = t.pop(i)
    return t


def sync_fs(root, old, new):
    for rel in old:
        if rel not in new:
            yamlfs.remove_path(root, rel)
            d = os.path.dirname(os.path.join(root, rel))
            while d != root and os.path.isdir(d) and not os.listdir(d):
                os.rmdir(d)
                d = os.path.dirname(d)
    for rel, text in new.items():
        if old.get(rel, "\0") != text or rel not in old:
            yamlfs.write_file(root, rel, text)


def snapshots(c):
    """(tree, pd, pv, sys, faults) at every get of the history"""
    tree = dict(c["base"])
    pd, pv = yamlfs.PRECEDING[0]
    faults = {}
    out = []
    for op in c["ops"]:
        if op[0] == "nested":
            if c.get("engine") and c.get("peek"):
                out.append((tree, pd, pv, op[2], dict(faults)))
            out.append((tree, pd, pv, op[1], dict(faults)))
            continue
        if op[0] in ("get", "race"):
            if op[0] == "race":            # the file changes DURING this call: the call itself is not judged
                tree = apply_op(tree, ("edit", op[2], op[3]))
                continue
            out.append((tree, pd, pv, op[1], dict(faults)))
        elif op[0] == "pre":
            pd, pv = yamlfs.PRECEDING[op[1]]
        elif op[0] == "fault":
            faults[op[1]] = (op[2], op[3])
        elif op[0] == "unfault":
            faults.pop(op[1], None)
        elif op[0] == "switch":
            tree = apply_op(tree, op[1])
        else:
            tree = apply_op(tree, op)
    return out


def mutate(v):
    """the caller scribbles over everything it was given"""
    if isinstance(v, dict):
        for x in list(v.values()):
            mutate(x)
        v["__scribble__"] = 1
        for k in list(v):
            if k != "__scribble__" and not isinstance(v[k], (dict, list, set, tuple)):
                v[k] = "scribbled"
    elif isinstance(v, list):
        for x in v:
            mutate(x)
        v.append("scribbled")
    elif isinstance(v, tuple):            # !!omap / !!pairs give lists of tuples: what hangs below a tuple is reachable too
        for x in v:
            mutate(x)
    elif isinstance(v, set):
        v.add("scribbled")


class Peek:
    """the function `peek` offered to the templates (template_config.context): when armed it makes ONE re-entrant
    get_data call for another system on the same source - an overlapping call without threads"""
    def __init__(self):
        self.armed = None
        self.result = None

    def __call__(self):
        if self.armed is not None:
            src, sysid, pd, pv = self.armed
            self.armed = None
            self.result = get(src, sysid, pd, pv)
        return ""


def config(c, root, cache_size, peek=None):
    if c.get("peek"):
        return dict(_config(c, root, cache_size), template_config={"context": {"peek": peek or (lambda: "")}})
    return _config(c, root, cache_size)


def _config(c, root, cache_size):
    return {"root_dir": root, "template": "jinja" if c["engine"] else None, "merge_lists": c["ml"], "merge_sets": c["ms"],
            "allow_empty_top": c["allow_empty"], "cache_size": cache_size}


class RaceEdit:
    """replaces a file between the two accesses (version stat, read - in whichever order) that the template
    loader makes on it inside one get_source call, as an editor or deployment tool racing with a request does"""
    def __init__(self, root, rel, text):
        self.root, self.rel, self.text = root, rel, text
        self.path = os.path.abspath(os.path.join(root, rel))
        self.events = 0
        self.done = False
        self.active = True          # narrowed to "inside the loader's get_source for this file" when that can be hooked

    def _event(self, path):
        if self.done or not self.active or os.path.abspath(str(path)) != self.path:
            return
        self.events += 1
        if self.events == 2:
            self.done = True
            yamlfs.write_file(self.root, self.rel, self.text)

    def __enter__(self):
        import vinegar.template.jinja as J
        self.J = J
        self._v = J.version_for_file_path
        self._had_open = "open" in J.__dict__

        def version(path):
            self._event(path)
            return self._v(path)

        def open_(file, *a, **kw):
            self._event(file)
            return open(file, *a, **kw)
        J.version_for_file_path = version
        J.open = open_
        self._loader = getattr(getattr(J, "JinjaEngine", None), "_Loader", None)
        if self._loader is not None and hasattr(self._loader, "get_source"):
            orig = self._loader.get_source
            self._orig_get_source = orig
            me = self
            self.active = False

            def get_source(loader_self, environment, template):
                me.active = os.path.abspath(str(template)) == me.path
                me.events = 0
                try:
                    return orig(loader_self, environment, template)
                finally:
                    me.active = False
            self._loader.get_source = get_source
        return self

    def __exit__(self, *exc):
        self.J.version_for_file_path = self._v
        if self._loader is not None and hasattr(self, "_orig_get_source"):
            self._loader.get_source = self._orig_get_source
        if not self._had_open:
            del self.J.open
        if not self.done:                  # the loader did not touch the file twice: edit after the call
            yamlfs.write_file(self.root, self.rel, self.text)
        return False


def get(src, sysid, pd, pv):
    try:
        d, v = src.get_data(sysid, copy.deepcopy(pd), pv)
        return ("ok", d, v)
    except Exception as e:     # noqa: BLE001
        return ("exc", exc_code(e))


def repoint(base, link, target):
    """atomic switch of a symbolic link (deployment of a new release)"""
    tmp = os.path.join(base, ".newlink")
    if os.path.lexists(tmp):
        os.remove(tmp)
    os.symlink(target, tmp)
    os.replace(tmp, os.path.join(base, link))


def run_real(c):
    import logging
    base_dir = yamlfs.new_root()
    root = base_dir
    release = 0
    lg = logging.getLogger("vinegar")
    old_level = lg.level
    if c.get("loglevel"):
        lg.setLevel(getattr(logging, c["loglevel"]))
    try:
        if c.get("linked"):
            # root_dir is a symbolic link ("current -> releases/N"), below a directory with unusual characters
            os.makedirs(os.path.join(base_dir, "rel 0 %41 \u00e9"))
            os.symlink("rel 0 %41 \u00e9", os.path.join(base_dir, "cur rent"))
            root = os.path.join(base_dir, "cur rent")
        elif c.get("rootname"):
            root = os.path.join(base_dir, c["rootname"])
            os.makedirs(root)
        tree = dict(c["base"])
        yamlfs.materialise(tree, root)
        # one long-lived source - or two over the same directory serving the gets alternately (caching is transparent,
        # so which of them answers, and what the other one has cached meanwhile, must not matter)
        peek = Peek()
        srcs = [YamlTargetSource(config(c, root, c["cache_size"], peek))]
        if c.get("nsrc", 1) == 2:
            srcs.append(YamlTargetSource(config(c, root, 1, peek)))
        ngets = 0
        pd, pv = yamlfs.PRECEDING[0]
        faults = {}
        out = []
        for op in c["ops"]:
            src = srcs[ngets % len(srcs)]
            if op[0] == "get":
                ngets += 1
                with yamlfs.Faults(root, faults):
                    r = get(src, op[1], pd, pv)
                    snap = copy.deepcopy(r)
                    if r[0] == "ok":
                        mutate(r[1])                      # isolation: must not show up in any later result
                    f = get(YamlTargetSource(config(c, root, 0)), op[1], pd, pv)
                out.append((snap, f))
            elif op[0] == "nested":
                # get_data(A) during which - while a template is rendered - get_data(B) is called on the same source
                peek.armed, peek.result = (src, op[2], pd, pv), None
                ra = get(src, op[1], pd, pv)
                peek.armed = None
                pairs = []
                if peek.result is not None:
                    pairs.append((op[2], peek.result))
                pairs.append((op[1], ra))
                for sysid, r in pairs:
                    snap = copy.deepcopy(r)
                    if r[0] == "ok":
                        mutate(r[1])
                    out.append((snap, get(YamlTargetSource(config(c, root, 0)), sysid, pd, pv)))
            elif op[0] == "race":
                with RaceEdit(root, op[2], op[3]):
                    get(src, op[1], pd, pv)           # old or new content: both are legitimate for this call
                tree = apply_op(tree, ("edit", op[2], op[3]))
            elif op[0] == "pre":
                pd, pv = yamlfs.PRECEDING[op[1]]
            elif op[0] == "inplace":
                yamlfs.write_inplace_keep_mtime(root, op[1], op[2])
                tree = apply_op(tree, op)
            elif op[0] == "switch":
                # a new release directory with the tree after the inner operation; then the link is re-pointed
                new = apply_op(tree, op[1])
                release += 1
                name = "rel %d %%41 \u00e9" % release
                os.makedirs(os.path.join(base_dir, name))
                yamlfs.materialise(new, os.path.join(base_dir, name))
                repoint(base_dir, "cur rent", name)
                tree = new
            elif op[0] == "fault":
                faults[op[1]] = (op[2], op[3])
                if op[2] == "read":
                    yamlfs.touch(root, op[1])
            elif op[0] == "unfault":
                if faults.pop(op[1], (None,))[0] == "read":
                    yamlfs.touch(root, op[1])
            else:
                new = apply_op(tree, op)
                sync_fs(root, tree, new)
                tree = new
        return out
    finally:
        lg.setLevel(old_level)
        shutil.rmtree(base_dir, ignore_errors=True)


# ----------------------------------------------------------------------------- encoding
def enc_gres(r, vmap):
    if r[0] == "ok":
        return [0, [enc(r[1]), vmap(r[2])]]
    return [1, r[1]]


def canon_versions(pairs):
    """version strings -> index of first occurrence, over (long-lived, fresh) pairs in order"""
    seen = {}

    def vmap(v):
        v = bytes(v) if isinstance(v, (bytes, bytearray)) else v.encode("latin-1")
        if v not in seen:
            seen[v] = str(len(seen))
        return seen[v]
    return [[enc_gres(a, vmap), enc_gres(b, vmap)] for a, b in pairs]


def norm_gres(x):
    return [0, [norm(x[1][0]), x[1][1]]] if x[0] == 0 else x


def pairs_from_model(m):
    out = []
    for a, b in m:
        out.append((("ok", None, a[1][1]) if a[0] == 0 else ("exc", a[1]), ("ok", None, b[1][1]) if b[0] == 0 else ("exc", b[1])))
    return out


# base tree: top with two targets, a file with a relative include in the middle, an init directory, templates
BASE = {
    "top.yaml": "'*': [a, d]\ns1: [d.x]\n",
    "a.yaml": "k: 1\ninclude: [d.x]\nm: 1\n",
    "d/init.yaml": "l: [1]\ninclude: [.x]\nk: 3\n",
    "d/x.yaml": "m: 2\nn: {p: 1}\n",
}
BASE_T = {
    "top.yaml": "'*': [a, d]\n{% if id == 's1' %}s1: [d.x]{% endif %}\n'@data_literal:x@1': [a]\n",
    "a.yaml": "k: {{ data.get('x', 0) }}\ninclude: [d.x]\nm: 1\n",
    "d/init.yaml": "l: [1]\ninclude: [.x]\nk: 3\n",
    "d/x.yaml": "m: 2\n{% if id == 's2' %}n: {p: 1}{% endif %}\n",
}
# a non-leaf file reached twice with a conflicting piece in between (top repetition and a diamond)
BASE_R = {
    "top.yaml": "'*': [a, m, a]\ns1: [y]\n",
    "a.yaml": "u: 1\ninclude: [.x]\nw: 1\n",          # relative: x.yaml as a file, a/x.yaml after a swap to a/init.yaml
    "m.yaml": "m: mid\nn: {p: mid}\n",
    "y.yaml": "m: y\ninclude: [a]\n",
    "x.yaml": "m: rootx\nn: {p: 1}\n",
    "a/x.yaml": "m: subx\nn: {p: 2}\n",
}
# list/set merging pair: only the LATER file is edited (stale elements must not come out of the cache)
BASE_L = {
    "top.yaml": "'*': [a, b]\n",
    "a.yaml": "l: [1, 2]\nst: !!set {1: null}\nd: {q: [1]}\ninclude: [c]\n",
    "b.yaml": "l: [2, 3]\nst: !!set {2: null}\nd: {q: [5]}\n",
    "c.yaml": "l: [9]\n",
}
EDITS_L = [
    ("edit", "b.yaml", "l: [4]\nd: {q: [6]}\n"),
    ("edit", "b.yaml", "l: [7]\nst: !!set {3: null}\n"),
    ("edit", "c.yaml", "l: [8]\nst: !!set {4: null}\n"),
    ("edit", "a.yaml", "l: [1]\n"),
    ("delete", "c.yaml"),
]
# a data file that ends in a block scalar: trailing line breaks are data (|, |+, >), nothing else changes
BLOCK_TEXTS = ["k: |\n  a", "k: |\n  a\n", "k: |\n  a\n\n", "k: |+\n  a\n", "k: |+\n  a\n\n", "k: |+\n  a\n\n\n",
               "k: >\n  a", "k: >\n  a\n", "k: >+\n  a\n\n", "k: |\n  a\n  \n", "k: a", "k: a\n", "k: a\n\n\n", "k: a \n"]
BASE_B = {"top.yaml": "'*': [f, g]\n", "f.yaml": BLOCK_TEXTS[0], "g.yaml": "m: 1\n"}
# both a.yaml and a/init.yaml exist: a failing stat of a.yaml must not silently select the init file
BASE_F = {"top.yaml": "'*': [a, b]\n", "a.yaml": "k: file\ninclude: [b]\n", "a/init.yaml": "k: init\n", "b.yaml": "m: 1\n"}


def fault_histories():
    out = []
    for kind, err in (("stat", "EIO"), ("stat", "EACCES"), ("read", "EACCES"), ("read", "EIO"), ("stat", "ESTALE")):
        for rel in ("a.yaml", "top.yaml", "b.yaml", "a/init.yaml"):
            out.append((BASE_F, [("get", "s1"), ("fault", rel, kind, err), ("get", "s1"), ("get", "s2"), ("unfault", rel),
                                 ("get", "s1"), ("get", "s1")]))
        out.append((BASE_F, [("fault", "a.yaml", kind, err), ("get", "s1"), ("unfault", "a.yaml"), ("get", "s1"),
                             ("edit", "a.yaml", "k: new\n"), ("get", "s1")]))
        out.append(({k: v for k, v in BASE_F.items() if k != "a.yaml"},
                    [("get", "s1"), ("fault", "a/init.yaml", kind, err), ("get", "s1"), ("unfault", "a/init.yaml"), ("get", "s1")]))
    return out


def race_histories():
    """a file is replaced while the template loader is between its two accesses; the overlapping call may see either
    content, every LATER call must see the new one"""
    out = []
    for base in (BASE_T, BASE):
        for rel, new in (("a.yaml", "k: raced\nm: 7\n"), ("d/x.yaml", "m: raced\n"), ("top.yaml", "'*': [a]\n")):
            out.append((base, [("race", "s1", rel, new), ("get", "s1"), ("get", "s1"), ("get", "s2")]))
            out.append((base, [("get", "s1"), ("edit", rel, base[rel] + "# touched\n"), ("race", "s1", rel, new), ("get", "s1"),
                               ("get", "s2"), ("get", "s1")]))
            out.append((base, [("get", "s1"), ("race", "s1", rel, new), ("get", "s1"), ("race", "s2", rel, base[rel]), ("get", "s1"),
                               ("get", "s2")]))
    return out


EDITS = [
    ("edit", "a.yaml", "k: ~\nm: 0\nz: ''\n"),                     # falsy but valid values
    ("edit", "d/x.yaml", "m: false\nn: {}\no: []\n"),
    ("edit", "d/x.yaml", "m: \u00e9t\u00e9\nn: {p: -12345678901234567890}\n"),   # non-ASCII, huge
    ("edit", "a.yaml", "k: 1\ninclude: []\nm: 1\n"),                 # falsy include list
    ("edit", "a.yaml", "k: 4\n"),
    ("edit", "a.yaml", "m: 1\ninclude: [d.x]\nk: 1\n"),
    ("edit", "d/x.yaml", "m: 5\n"),
    ("edit", "d/x.yaml", "{}\n"),
    ("edit", "top.yaml", "'*': [d, a]\n"),
    ("edit", "top.yaml", "s2: [a]\n"),
    ("edit", "d/init.yaml", "k: 3\ninclude: [.x]\nl: [1]\n"),
    ("edit", "d.yaml", "z: 1\n"),
    ("delete", "d/x.yaml"),
    ("delete", "d.yaml"),
    ("swap", "a"),
    ("swap", "d/x"),
    ("pre", 1),
    ("pre", 2),
    ("pre", 0),
]


def d13_history():
    """the witness of the pre-e62fc38 defect: same version list, different pieces"""
    X = "k: 1\ninclude:\n  - .n\nm: 1\n"
    Y = "m: 2\ninclude:\n  - .n\nk: 2\n"
    Z = "{}\n"
    base = {"top.yaml": "'*':\n  - a.X\n  - b.Y\n  - a.X\n", "a/X.yaml": X, "a/n.yaml": Z, "b/Y.yaml": Y, "b/n.yaml": Z}
    ops = [("get", "s"), ("delete", "a/n.yaml"), ("edit", "top.yaml", "'*':\n  - a.X\n"), ("edit", "a/n/init.yaml", X),
           ("edit", "a/n/n/init.yaml", Y), ("edit", "a/n/n/n.yaml", Z), ("get", "s")]
    return base, ops


class C12(Check):
    ident = "C12"
    technique = ("Coq model of the three cache layers (top / data_file_<name> / result) with the versions the code builds, "
                 "LRU and Null cache, proofs of LRU laws and cache transparency, + differential correspondence: the real "
                 "long-lived YamlTargetSource against a newly constructed one and against the model after every step of "
                 "generated edit histories")
    rule = ("case = (base tree of 4 files with/without templates, history of edit/delete/create/swap file<->init/"
            "set-preceding/get ops, cache_size in {0,1,2,64}, engine on/off); exhaustive: every pair of mutations each "
            "followed by gets for two systems (root_dir as a re-pointed symbolic link and with unusual characters, logging levels, YAML tags that give tuples / "
            "bytes / dates; fault injection: os.stat or open failing with EIO/EACCES/ESTALE for one file during some calls, then recovering; "
            "a file replaced between the template loader's two accesses during a call; base trees: plain, templated, a list/set-merging pair with merge flags on whose later file is edited, a file ending in a "
            "block scalar whose trailing line breaks alone change, and one where a non-leaf file with a relative "
            "include is reached twice with a conflicting piece in between and can be swapped to init.yaml); random histories up to 10 ops incl. random trees; the D13 witness; "
            "every returned tree is scribbled over by the caller; non-trivial = history with >= 2 gets and >= 1 mutation; "
            "distinct by full case")
    assumptions = [
        "every file edit changes (mtime_ns, size, ino) - the harness sets a strictly increasing mtime (template loader cache)",
        "preceding-data version identifies the preceding data (the harness uses a fixed table of (data, version) pairs)",
        "md5/mmh3 does not collide on the strings hashed in a run; versions are compared by their equality pattern",
    ]

    def gen(self, tier, rng):
        # the LRU cache alone: every get/set sequence over three keys
        lops = [("get", k) for k in LRU_KEYS] + [("set", k, None) for k in LRU_KEYS]
        for n in range(1, 5 if tier == "quick" else 7):
            for seq in itertools.product(lops, repeat=n):
                for cap in (1, 2, 3):
                    yield {"kind": "lru", "cap": cap,
                           "ops": [(o[0], o[1]) if o[0] == "get" else ("set", o[1], 10 * i + 1) for i, o in enumerate(seq)]}
        base, ops = d13_history()
        for cs in (64, 1, 0):
            yield {"base": base, "ops": ops, "cache_size": cs, "engine": False, "ml": False, "ms": True, "allow_empty": False}
        sizes = (0, 1, 2, 64)
        for engine, b in ((False, BASE), (True, BASE_T)):
            muts = EDITS
            pairs = list(itertools.product(muts, repeat=2))
            if tier == "quick":
                pairs = rng.sample(pairs, 70)
            for m1, m2 in pairs:
                for cs in (sizes if tier != "quick" else (rng.choice((0, 1)), rng.choice((2, 64)))):
                    ops = [("get", "s1"), ("get", "s2"), m1, ("get", "s1"), ("get", "s2"), m2, ("get", "s2"), ("get", "s1")]
                    yield {"base": b, "ops": ops, "cache_size": cs, "engine": engine, "ml": False, "ms": True, "allow_empty": False}
        rpairs = list(itertools.product(EDITS, repeat=2))
        swap = ("swap", "a")               # same content, other place: the relative include must be resolved anew
        fixed = [(swap, m2) for m2 in EDITS[:3]] + [(m1, swap) for m1 in EDITS[:2]] + [(swap, swap)]
        for m1, m2 in (fixed + rng.sample(rpairs, 10) if tier == "quick" else rpairs):
            for cs in ((rng.choice((1, 2, 64)),) if tier == "quick" else (1, 64)):
                ops = [("get", "s1"), ("get", "s2"), m1, ("get", "s1"), ("get", "s2"), m2, ("get", "s2"), ("get", "s1")]
                yield {"base": BASE_R, "ops": ops, "cache_size": cs, "engine": False, "ml": False, "ms": True, "allow_empty": False}
        # merge flags on, later file of a list/set-merging pair edited
        lpairs = list(itertools.product(EDITS_L, repeat=2))
        for m1, m2 in (lpairs[:6] + rng.sample(lpairs, 4) if tier == "quick" else lpairs):
            for ml, ms in (((True, True),) if tier == "quick" else ((True, True), (True, False), (False, True))):
                for cs in ((rng.choice((1, 64)),) if tier == "quick" else (1, 64)):
                    ops = [("get", "s1"), m1, ("get", "s1"), ("get", "s2"), m2, ("get", "s1"), ("get", "s1")]
                    yield {"base": BASE_L, "ops": ops, "cache_size": cs, "engine": False, "ml": ml, "ms": ms, "allow_empty": False,
                           "nsrc": rng.choice((1, 2))}
        # only the trailing line breaks after a final block scalar change
        for engine in (False, True):
            for i, t1 in enumerate(BLOCK_TEXTS):
                others = BLOCK_TEXTS if tier != "quick" else [BLOCK_TEXTS[(i + 1) % len(BLOCK_TEXTS)], BLOCK_TEXTS[(i + 2) % len(BLOCK_TEXTS)]]
                for t2 in others:
                    if t1 == t2:
                        continue
                    ops = [("edit", "f.yaml", t1), ("get", "s1"), ("edit", "f.yaml", t2), ("get", "s1"), ("edit", "f.yaml", t1), ("get", "s1")]
                    yield {"base": BASE_B, "ops": ops, "cache_size": 64, "engine": engine, "ml": False, "ms": True, "allow_empty": False}
        for i, (base, ops) in enumerate(fault_histories()):
            for engine in (False, True):
                yield {"base": base, "ops": ops, "cache_size": 64 if engine else 2, "engine": engine, "ml": False, "ms": True,
                       "allow_empty": False, "nsrc": 1 + (i % 2)}
        # the top file turns malformed and heals again (every TypeError / RuntimeError branch of _process_top)
        for bad in ("- a\n", "'*': 5\n", "'*': [a, '']\n", "5: [a]\n", "'(': [a]\n", "'*': [a\n", "", "[]\n", "{}\n"):
            ops = [("get", "s1"), ("edit", "top.yaml", bad), ("get", "s1"), ("get", "s2"), ("edit", "top.yaml", BASE["top.yaml"]),
                   ("get", "s1")]
            yield {"base": BASE, "ops": ops, "cache_size": 64, "engine": False, "ml": False, "ms": True, "allow_empty": bad == ""}
        # a legal include chain of depth 20: the deepest and a middle file are edited, nested nulls arrive later
        chain = {"top.yaml": "'*': [l1]\n"}
        for i in range(1, 21):
            chain["l%d.yaml" % i] = "d%d: %d\nshared: {at: %d, k: {v: %d}}\n%s" % (i, i, i, i, "include: [l%d]\n" % (i + 1) if i < 20 else "")
        ops = [("get", "s1"), ("edit", "l20.yaml", "shared: {k: {v: ~}}\n"), ("get", "s1"), ("edit", "l10.yaml", "z: 1\ninclude: [l11]\n"),
               ("get", "s1"), ("delete", "l20.yaml"), ("get", "s1"), ("edit", "l20.yaml", "w: 1\n"), ("get", "s1")]
        for cs in (1, 64):
            yield {"base": chain, "ops": ops, "cache_size": cs, "engine": False, "ml": False, "ms": True, "allow_empty": False}
        # root_dir is a symbolic link that is re-pointed to a new release while the source lives (and plain roots with
        # unusual characters); logging level as a dimension
        sw = [("edit", "a.yaml", "k: 4\n"), ("edit", "top.yaml", "'*': [d, a]\n"), ("delete", "d/x.yaml"), ("edit", "d/x.yaml", "m: 5\n"),
              ("edit", "d.yaml", "z: 1\n")]
        for i, m1 in enumerate(sw):
            for engine, b in ((False, BASE), (True, BASE_T)):
                m2 = sw[(i + 1) % len(sw)]
                ops = [("get", "s1"), ("switch", m1), ("get", "s1"), ("get", "s2"), m2, ("get", "s1"), ("switch", m2), ("get", "s1"),
                       ("switch", ("edit", "a.yaml", b["a.yaml"])), ("get", "s1")]
                yield {"base": b, "ops": ops, "cache_size": (0, 1, 64)[i % 3], "engine": engine, "ml": False, "ms": True,
                       "allow_empty": False, "linked": True, "loglevel": ("DEBUG", "INFO", "WARNING")[i % 3]}
        for name in ("r %41", "\u00e9 dir", "a b/c", "x%", "UP"):
            ops = [("get", "s1"), ("edit", "a.yaml", "k: 4\n"), ("get", "s1"), ("swap", "a"), ("get", "s1")]
            yield {"base": BASE_T, "ops": ops, "cache_size": 2, "engine": True, "ml": False, "ms": True, "allow_empty": False,
                   "rootname": name, "loglevel": "DEBUG"}
        # an in-place rewrite of the same length with the old mtime put back (only ctime tells): top file and data files,
        # template engine on and off
        def same_len(text, old, new):
            assert len(old) == len(new) and old in text
            return text.replace(old, new, 1)
        for engine, b in ((True, BASE_T), (False, BASE)):
            edits = [("a.yaml", same_len(b["a.yaml"], "m: 1", "m: 7")), ("d/x.yaml", same_len(b["d/x.yaml"], "m: 2", "m: 8")),
                     ("top.yaml", same_len(b["top.yaml"], "[a, d]", "[d, a]")), ("d/init.yaml", same_len(b["d/init.yaml"], "k: 3", "k: 9"))]
            for rel, new in edits:
                ops = [("get", "s1"), ("get", "s2"), ("inplace", rel, new), ("get", "s1"), ("get", "s2"), ("inplace", rel, b[rel]), ("get", "s1"),
                       ("inplace", rel, new), ("get", "s2")]
                for cs in (0, 64):
                    yield {"base": b, "ops": ops, "cache_size": cs, "engine": engine, "ml": False, "ms": True, "allow_empty": False}
        # overlapping calls for different systems on one source without threads: while top.yaml is rendered for system A a
        # function offered to the templates calls get_data for system B on the same source
        nb = {"top.yaml": "{{ peek() }}'*': [common]\n's1': [one]\n's2': [two]\n", "common.yaml": "who: {{ id }}\n", "one.yaml": "only_1: 1\n",
              "two.yaml": "only_2: 2\ninclude: [common]\n"}
        for cs in (64, 1, 0):
            yield {"base": nb, "ops": [("nested", "s1", "s2"), ("get", "s1"), ("get", "s2"), ("edit", "one.yaml", "only_1: 3\n"),
                                       ("nested", "s2", "s1"), ("get", "s1"), ("get", "s2")],
                   "cache_size": cs, "engine": True, "ml": False, "ms": True, "allow_empty": False, "peek": True}
        # a white-space-only name appears in top.yaml / an include list and goes away again (an init.yaml sits in the tree root)
        wsb = dict(BASE, **{"init.yaml": "rootinit: 1\n"})
        yield {"base": wsb, "ops": [("get", "s1"), ("edit", "top.yaml", "'*': [a, ' ']\n"), ("get", "s1"), ("get", "s2"),
                                    ("edit", "top.yaml", BASE["top.yaml"]), ("get", "s1"), ("edit", "a.yaml", "k: 1\ninclude: [\"\\t\"]\n"), ("get", "s1"),
                                    ("edit", "a.yaml", BASE["a.yaml"]), ("get", "s1")],
               "cache_size": 64, "engine": False, "ml": False, "ms": True, "allow_empty": False}
        # text a template engine would treat as markup, with templating switched off (template: None through the factory)
        mk = {"top.yaml": "'*': [a]\n# {% if id == 's1' %}\n's1': [b]\n# {% endif %}\n", "a.yaml": "k: '{{ later }}'\ninclude: [b]\n",
              "b.yaml": "m: \"{# note #}x\"\n"}
        yield {"base": mk, "ops": [("get", "s1"), ("edit", "b.yaml", "m: '{{ 1 + 1 }}'\n"), ("get", "s1"), ("get", "s2"),
                                   ("edit", "a.yaml", "k: '{% raw %}'\n"), ("get", "s1")],
               "cache_size": 64, "engine": False, "ml": False, "ms": True, "allow_empty": False}
        # values that yaml.safe_load does not turn into dict / list / set / scalar: !!omap and !!pairs (lists of TUPLES whose
        # members can be mutable), !!binary (bytes), !!timestamp (date objects); every returned tree is scribbled over
        exotic = ["bo: !!omap [ disk: {timeout: 5}, net: [1, 2] ]\nm: 1\n", "bo: !!pairs [ a: {x: 1}, a: [2] ]\n",
                  "bin: !!binary aGVsbG8=\nwhen: 2001-12-14\nn: {t: !!omap [ k: {v: 1} ]}\n",
                  "bo: !!omap [ disk: {timeout: 6} ]\nst: !!set {a: null}\n"]
        for i, t1 in enumerate(exotic):
            t2 = exotic[(i + 1) % len(exotic)]
            for ml in (False, True):
                ops = [("edit", "d/x.yaml", t1), ("get", "s1"), ("get", "s1"), ("edit", "a.yaml", "k: 9\ninclude: [d.x]\n"), ("get", "s1"),
                       ("edit", "d/x.yaml", t2), ("get", "s1"), ("get", "s2"), ("get", "s1")]
                yield {"base": BASE, "ops": ops, "cache_size": 64, "engine": False, "ml": ml, "ms": True, "allow_empty": False}
        # D25: a data file called like the marker that starts the list of parent files is an ordinary file
        tf = {"top.yaml": "'*': ['top file', b]\n", "top file.yaml": "t: 1\n", "b.yaml": "m: 1\ninclude: ['top file']\n"}
        yield {"base": tf, "ops": [("get", "s1"), ("edit", "top file.yaml", "t: 2\n"), ("get", "s1"),
                                   ("edit", "top file.yaml", "t: 3\ninclude: [b]\n"), ("get", "s1"), ("edit", "top file.yaml", "t: 4\n"), ("get", "s1")],
               "cache_size": 64, "engine": False, "ml": False, "ms": True, "allow_empty": False}
        for base, ops in race_histories():
            for engine in (True, False):
                if (base is BASE_T) != engine:
                    continue
                yield {"base": base, "ops": ops, "cache_size": 64, "engine": engine, "ml": False, "ms": True, "allow_empty": False}
        n = 110 if tier == "quick" else 4000
        for _ in range(n):
            engine = rng.random() < 0.5
            if rng.random() < 0.5:
                b = dict(BASE_T if engine else (BASE if rng.random() < 0.6 else BASE_R))
                pool = list(EDITS)
            else:
                b = yamlfs.rand_tree(rng, engine, nfiles=rng.randrange(2, 6))
                pool = [("pre", 1), ("pre", 2), ("pre", 0)]
                for rel in list(b):
                    if b[rel] is not DIR and rng.random() < 0.3:
                        pool.append(("fault", rel, rng.choice(["stat", "read"]), rng.choice(["EIO", "EACCES"])))
                        pool.append(("unfault", rel))
                for rel in list(b):
                    if b[rel] is DIR:
                        del b[rel]
                names = [r for r in b if r != "top.yaml"]
                avail = [x for fn in names for x in yamlfs.names_of(fn)]
                for rel in list(b):
                    pool.append(("delete", rel))
                    pool.append(("edit", rel, yamlfs.rand_top(rng, engine, avail) if rel == "top.yaml"
                                 else yamlfs.rand_file_text(rng, engine, rel, avail)))
                    if rel != "top.yaml" and not rel.endswith("init.yaml"):
                        pool.append(("swap", rel[:-5]))
            ops = []
            for _ in range(rng.randrange(2, 7)):
                ops.append(rng.choice(pool))
                for _ in range(rng.randrange(1, 3)):
                    ops.append(("get", rng.choice(["s1", "s2", "x"])))
            ops = [("get", "s1")] + ops
            yield {"base": b, "ops": ops, "cache_size": rng.choice(sizes), "engine": engine, "ml": rng.random() < 0.3,
                   "ms": rng.random() < 0.8, "allow_empty": rng.random() < 0.3}

    def impl(self, c):
        if c.get("kind") == "lru":
            return run_lru(c)
        return run_real(c)

    def line(self, c, o):
        if c.get("kind") == "lru":
            ops = [[0, op[1]] if op[0] == "get" else [1, op[1], op[2]] for op in c["ops"]]
            return sx([7, c["cap"], LRU_KEYS, ops, o])
        yl = {}
        calls = []
        groups = {}            # the matcher is a function of (system id, preceding-data version)
        for (tree, pd, pv, sysid, faults) in snapshots(c):
            r, y, m = yamlfs.oracle_dicts(tree, c["engine"], sysid, pd)
            yl.update(y)
            groups.setdefault((sysid, pv), {}).update(m)
            calls.append([sysid, pv, yamlfs.listing(tree, faults), yamlfs.enc_render(r)])
        cfg = [c["allow_empty"], c["ml"], c["ms"], c["engine"]]
        gs = [[k[0], k[1], yamlfs.enc_match(m)] for k, m in groups.items()]
        return sx([c.get("variants", CURRENT_VARIANTS), cfg, c["cache_size"], yamlfs.enc_yload(yl), gs, calls, canon_versions(o)])

    def evaluate(self, cases):
        res = super().evaluate(cases)
        out = []
        for (c, o, m, fm, fi, rest) in res:
            if c.get("kind") == "lru":
                out.append((c, o, m, fm, fi, rest))
                continue
            for pair in m:
                for x in pair:
                    if x[0] == 1 and x[1] in (101, 177):
                        raise RuntimeError(f"C12: case outside the model (code {x[1]}): {self.show(c)}")
            # bring the model's versions to the same canonical form (index of first occurrence)
            seen = {}

            def vmap(v):
                if v not in seen:
                    seen[v] = str(len(seen)).encode()
                return seen[v]
            mm = []
            for a, b in m:
                a2 = [0, [norm(a[1][0]), vmap(a[1][1])]] if a[0] == 0 else a
                b2 = [0, [norm(b[1][0]), vmap(b[1][1])]] if b[0] == 0 else b
                mm.append([a2, b2])
            out.append((c, o, mm, fm, fi, rest))
        return out

    def canon(self, o):
        if o and isinstance(o[0], list):
            return unsx(sx(o))
        x = unsx(sx(canon_versions(o)))
        return [[norm_gres(a), norm_gres(b)] for a, b in x]

    def nontrivial(self, c, o):
        if c.get("kind") == "lru":
            return None
        gets = sum(1 for op in c["ops"] if op[0] == "get")
        muts = sum(1 for op in c["ops"] if op[0] not in ("get",))
        if gets >= 2 and muts >= 1:
            return repr((sorted(c["base"].items()), c["ops"], c["cache_size"], c["engine"], c["ml"], c["ms"]))
        return None

    def show(self, c):
        if c.get("kind") == "lru":
            return {"kind": "lru", "cache_size": c["cap"], "ops": [list(o) for o in c["ops"]]}
        return {"base": c["base"], "ops": [list(op) for op in c["ops"]], "cache_size": c["cache_size"], "engine": c["engine"],
                "long_lived_sources": c.get("nsrc", 1), "root_dir_is_symlink": bool(c.get("linked")),
                "root_dir_name": c.get("rootname"), "loglevel": c.get("loglevel"),
                "merge_lists": c["ml"], "merge_sets": c["ms"], "allow_empty_top": c["allow_empty"]}

    def shrink(self, c):
        if c.get("kind") == "lru":
            for i in range(len(c["ops"])):
                yield dict(c, ops=c["ops"][:i] + c["ops"][i + 1:])
            return
        ops = c["ops"]
        for i in range(len(ops)):
            yield dict(c, ops=ops[:i] + ops[i + 1:])
        for k in list(c["base"]):
            if k != "top.yaml":
                b = dict(c["base"])
                del b[k]
                yield dict(c, base=b)
        if c["engine"]:
            yield dict(c, engine=False)


if __name__ == "__main__":
    raise SystemExit(C12().main())
