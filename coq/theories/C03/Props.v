(* C03 - HTTP responses carry exactly the handler's status, headers and body.
   Property theorems only; each is closed by a lemma from Http/EmitProofs.v. *)
From Coq Require Import String.
From Coq Require Import List NArith Bool Arith Lia.
From VF Require Import Base.Sx Http.Response Http.Emit Http.EmitProofs C03.Entry.
Import ListNotations.
Open Scope N_scope.

(* The strict parser is a left inverse of the wire format on well-formed responses
   (three-digit code, CR/LF-free reason, token names, CR/LF-free values, any body). *)
Theorem C03_parse_render : forall r, response_ok r = true -> parse_response (render r) = Some r.
Proof. exact parse_render. Qed.
Print Assumptions C03_parse_render.

(* For every request path, every handler list and whatever the selected handler returns
   (status 100..999; headers None, {} or non-empty with token names and CR/LF-free values;
   body None or any bytes, even a stream that fails after its data), the bytes on the wire parse
   to: the status; Server, Date followed by exactly the handler's headers; the handler's bytes
   (empty when absent; the standard error page for a bare status >= 400, for 400/404/500 raised
   by the server itself; no page for HEAD). *)
Theorem C03_emit_wellformed : forall e path hs, case_ok e hs = true ->
  parse_response (wire (delegate false e path hs)) = Some (expected e path hs).
Proof. exact emit_wellformed. Qed.
Print Assumptions C03_emit_wellformed.

(* the same for one handler result in isolation *)
Theorem C03_emit_result_wellformed : forall e status hdrs body st,
  env_ok e = true -> hact_ok (HReturn status hdrs body) = true ->
  emit_result false e status hdrs body init = Fin st \/ emit_result false e status hdrs body init = Exn true st ->
  parse_response (wire st) = Some (result_response e status hdrs body).
Proof.
  intros e s hd b st He Ha H. destruct (emit_result_delivered e s hd b st H) as (Hw & _ & _).
  rewrite Hw. apply parse_render. now apply result_response_ok.
Qed.
Print Assumptions C03_emit_result_wellformed.

(* a handler (prepare_context, can_handle or handle) that raises gives the 500 error response *)
Theorem C03_raising_handler_500 : forall e path hs, case_ok e hs = true ->
  bad_path path = false -> first_raises hs = true ->
  parse_response (wire (delegate false e path hs)) = Some (error_response e 500) /\
  r_code (error_response e 500) = 500.
Proof.
  intros e path hs Hok Hp Hr. rewrite (emit_wellformed e path hs Hok), (raising_expected e path hs Hp Hr).
  split; [reflexivity|]. unfold error_response. destruct (error_texts e 500). reflexivity.
Qed.
Print Assumptions C03_raising_handler_500.

(* exactly one status line is produced per request and nothing stays in the header buffer;
   no side condition at all *)
Theorem C03_exactly_one_response : forall e path hs,
  nlines (delegate false e path hs) = 1%nat /\ pending (delegate false e path hs) = [].
Proof. exact exactly_one. Qed.
Print Assumptions C03_exactly_one_response.

Lemma bytes_eqb_refl a : bytes_eqb a a = true.
Proof. unfold bytes_eqb. destruct (list_eq_dec N.eq_dec a a); congruence. Qed.
Lemma headers_eqb_refl a : headers_eqb a a = true.
Proof. unfold headers_eqb. destruct (list_eq_dec header_eq_dec a a); congruence. Qed.

(* the server's own error replies are error_response's, and those announce the length of their body *)
Lemma own_error_loop_expected e hs : own_error_loop hs = true ->
  exists code, expected_loop e hs = error_response e code.
Proof.
  induction hs as [|h r IH]; cbn [own_error_loop expected_loop]; [intros _; now exists 404%N|].
  destruct (prep_raises h || can_raises h); [intros _; now exists 500%N|].
  destruct (can h); [|exact IH]. destruct (act h); [intros _; now exists 500%N|discriminate].
Qed.

Lemma cl_ok_error_response e code : cl_ok (error_response e code) = true.
Proof.
  unfold cl_ok, error_response, error_headers. destruct (error_texts e code) as [short long].
  cbn [r_headers r_body]. unfold std_headers. cbn [app find_hdr fst snd].
  change (bytes_eqb S_Server S_ContentLength) with false. change (bytes_eqb S_Date S_ContentLength) with false.
  change (bytes_eqb S_Connection S_ContentLength) with false. cbv iota.
  destruct (has_error_body code); cbn [andb find_hdr fst snd app]; [|reflexivity].
  change (bytes_eqb S_ContentType S_ContentLength) with false. cbv iota.
  assert (E : bytes_eqb S_ContentLength S_ContentLength = true) by apply bytes_eqb_refl. rewrite E.
  destruct (negb (e_head e)); cbn [andb]; [now rewrite bytes_eqb_refl|now rewrite orb_true_r].
Qed.

(* the executable checker used on the implementation's observations accepts the model *)
Theorem C03_holds : forall c, valid c -> holds c (run_model c) = [].
Proof.
  intros [old e path hs] [Ho Hok]. cbn [old_end_headers cenv chandlers] in Ho, Hok. subst old.
  unfold holds, run_model, spec, own_error. cbn [old_end_headers cenv cpath chandlers o_resp o_nstatus o_leftover].
  rewrite (emit_wellformed e path hs Hok).
  destruct (exactly_one e path hs) as [-> ->].
  rewrite N.eqb_refl, headers_eqb_refl, bytes_eqb_refl. cbn [app].
  destruct (bad_path path || own_error_loop hs) eqn:Eo; [|reflexivity].
  assert (H : exists code, expected e path hs = error_response e code).
  { unfold expected. destruct (bad_path path); [now exists 400%N|]. cbn [orb] in Eo. now apply own_error_loop_expected. }
  destruct H as [code ->]. now rewrite cl_ok_error_response.
Qed.
Print Assumptions C03_holds.

(* the hypotheses of C03_holds as the boolean the driver reports for every evaluated case *)
Lemma C03_validb_valid c : validb c = true -> valid c.
Proof.
  unfold validb, valid. intros H. apply andb_true_iff in H as [H1 H2]. apply negb_true_iff in H1. auto.
Qed.
Theorem C03_covered_cases : forall c, validb c = true -> holds c (run_model c) = [].
Proof. intros c H. apply C03_holds. now apply C03_validb_valid. Qed.
Print Assumptions C03_covered_cases.

(* the behaviour before fix 67d5531 (defect D7) violates the property: status 200, headers None,
   body "BODY" puts the bare body on the wire and leaves the status line in the buffer *)
Definition env0 : env :=
  {| e_server := [83]; e_date := [68];
     e_responses := [(200, ([79; 75], [79; 75]))]; e_head := false |}.
Definition case_d7 (old : bool) : case :=
  {| old_end_headers := old; cenv := env0; cpath := [47; 97];
     chandlers := [{| prep_raises := false; can_raises := false; can := true;
                      act := HReturn 200 None (Some ([66; 79; 68; 89], false)) |}] |}.

Theorem C03_refuted_old_end_headers :
  case_ok (cenv (case_d7 true)) (chandlers (case_d7 true)) = true /\
  run_model (case_d7 true) = {| o_resp := Unparsable [66; 79; 68; 89]; o_nstatus := 1; o_leftover := 37 |} /\
  holds (case_d7 true) (run_model (case_d7 true)) = ["well_formed"; "one_response"]%string.
Proof. split; [|split]; vm_compute; reflexivity. Qed.

(* non-vacuity: the same case under the current code is valid and yields the full response *)
Example C03_nonvacuous :
  valid (case_d7 false) /\
  o_resp (run_model (case_d7 false)) =
    Parsed {| r_code := 200; r_reason := [79; 75]; r_headers := [(S_Server, [83]); (S_Date, [68])];
              r_body := [66; 79; 68; 89] |}.
Proof. split; [split; vm_compute; reflexivity | vm_compute; reflexivity]. Qed.
