(* Specification side of C03: HTTP/1.x responses as values, their wire format, and a strict
   response parser.  Definitions only. *)
From Coq Require Import String.
From Coq Require Import List NArith ZArith Bool Arith.
From VF Require Import Base.Sx.
Import ListNotations.
Open Scope N_scope.

Definition bytes := list N.
Definition CRLF : bytes := [13; 10].
Definition header := (bytes * bytes)%type.

(* a response as the client is meant to understand it *)
Record response := { r_code : N; r_reason : bytes; r_headers : list header; r_body : bytes }.

(* "%d" *)
Definition dec (n : N) : bytes := print_Z (Z.of_N n).

(* "HTTP/1." *)
Definition HTTP1 : bytes := [72; 84; 84; 80; 47; 49; 46].

Definition status_line (code : N) (msg : bytes) : bytes :=
  HTTP1 ++ 48 :: 32 :: dec code ++ 32 :: msg ++ CRLF.
Definition hdr_line (h : header) : bytes := fst h ++ 58 :: 32 :: snd h ++ CRLF.
Definition render (r : response) : bytes :=
  status_line (r_code r) (r_reason r) ++ flat_map hdr_line (r_headers r) ++ CRLF ++ r_body r.

(* ---------- strict parser ---------- *)

(* a line is everything up to the first CR, which must be followed by LF; a bare LF is an error *)
Fixpoint split_crlf (w : bytes) : option (bytes * bytes) :=
  match w with
  | [] => None
  | x :: r =>
      if x =? 13 then
        match r with
        | y :: r' => if y =? 10 then Some ([], r') else None
        | [] => None
        end
      else if x =? 10 then None
      else match split_crlf r with
           | Some (l, rest) => Some (x :: l, rest)
           | None => None
           end
  end.

Fixpoint strip_prefix (p l : bytes) : option bytes :=
  match p, l with
  | [], _ => Some l
  | a :: p', b :: l' => if a =? b then strip_prefix p' l' else None
  | _ :: _, [] => None
  end.

Definition is_digit (c : N) : bool := (48 <=? c) && (c <=? 57).
Definition code3 (a b c : N) : option N :=
  if is_digit a && is_digit b && is_digit c && negb (a =? 48)
  then Some ((a - 48) * 100 + (b - 48) * 10 + (c - 48)) else None.

(* HTTP-version SP 3DIGIT SP reason-phrase ; versions 1.0 and 1.1 *)
Definition parse_status_line (l : bytes) : option (N * bytes) :=
  match strip_prefix HTTP1 l with
  | Some (v :: sp1 :: a :: b :: c :: sp2 :: reason) =>
      if ((v =? 48) || (v =? 49)) && (sp1 =? 32) && (sp2 =? 32) then
        match code3 a b c with
        | Some code => Some (code, reason)
        | None => None
        end
      else None
  | _ => None
  end.

(* RFC 7230 tchar *)
Definition tchar (c : N) : bool :=
  is_digit c || ((65 <=? c) && (c <=? 90)) || ((97 <=? c) && (c <=? 122)) ||
  existsb (N.eqb c) [33; 35; 36; 37; 38; 39; 42; 43; 45; 46; 94; 95; 96; 124; 126].

Fixpoint split_colon (l : bytes) : option (bytes * bytes) :=
  match l with
  | [] => None
  | x :: r =>
      if x =? 58 then Some ([], r)
      else match split_colon r with
           | Some (a, b) => Some (x :: a, b)
           | None => None
           end
  end.

(* field-name ":" SP field-value ; the value is kept verbatim *)
Definition parse_header (l : bytes) : option header :=
  match split_colon l with
  | Some (name, sp :: value) =>
      if (sp =? 32) && negb (match name with [] => true | _ => false end) && forallb tchar name
      then Some (name, value) else None
  | _ => None
  end.

Fixpoint parse_headers (fuel : nat) (w : bytes) : option (list header * bytes) :=
  match fuel with
  | O => None
  | S f =>
      match split_crlf w with
      | None => None
      | Some ([], rest) => Some ([], rest)
      | Some (line, rest) =>
          match parse_header line, parse_headers f rest with
          | Some h, Some (hs, body) => Some (h :: hs, body)
          | _, _ => None
          end
      end
  end.

(* the body is delimited by the end of the connection (HTTP/1.0, Connection: close) *)
Definition parse_response (w : bytes) : option response :=
  match split_crlf w with
  | None => None
  | Some (sl, rest) =>
      match parse_status_line sl with
      | None => None
      | Some (code, reason) =>
          match parse_headers (S (length rest)) rest with
          | None => None
          | Some (hs, body) => Some {| r_code := code; r_reason := reason; r_headers := hs; r_body := body |}
          end
      end
  end.

(* well-formedness conditions on what goes into a response *)
Definition nocrlf (l : bytes) : bool := forallb (fun c => negb (c =? 13) && negb (c =? 10)) l.
Definition token (l : bytes) : bool := negb (match l with [] => true | _ => false end) && forallb tchar l.
Definition header_ok (h : header) : bool := token (fst h) && nocrlf (snd h).
Definition code_ok (c : N) : bool := (100 <=? c) && (c <=? 999).
