(* Generic pool of caller threads plus one main-loop thread sharing finite global state guarded by
   one lock.  Definitions only (the proofs are in PoolProofs.v).

   A caller thread executes a list of operations; every operation is a sequence of atomic steps
   given by [cstep]; the main thread's atomic steps are given by [mstep].  A step function returns
   [None] when the thread is blocked (lock taken, join target still alive) or has nothing to do.
   The scheduler is an arbitrary list of choices; a choice naming a blocked thread is skipped. *)
From Coq Require Import List Arith Bool.
Import ListNotations.

Inductive lk := LFree | LCaller | LMain.
Definition lk_eqb (a b : lk) : bool :=
  match a, b with LFree, LFree | LCaller, LCaller | LMain, LMain => true | _, _ => false end.

Inductive choice := C (i : nat) | M.

Fixpoint upd {A} (i : nat) (a : A) (l : list A) : list A :=
  match l, i with
  | [], _ => []
  | _ :: r, O => a :: r
  | x :: r, S k => x :: upd k a r
  end.

Section Pool.
  Variables (G PC OP : Type).
  Variable lkof : G -> lk.
  (* globals -> am I the lock owner -> pc -> next pending operation -> (globals, pc, operation consumed) *)
  Variable cstep : G -> bool -> PC -> option OP -> option (G * PC * bool).
  Variable mstep : G -> option G.
  Variable is_idle : PC -> bool.

  Record caller := { pc : PC; todo : list OP }.
  Record st := { g : G; owner : nat; callers : list caller }.

  Definition isme (s : st) (i : nat) : bool :=
    match lkof (g s) with LCaller => Nat.eqb (owner s) i | _ => false end.

  Definition step (s : st) (ch : choice) : option st :=
    match ch with
    | M => match mstep (g s) with
           | Some g' => Some {| g := g'; owner := owner s; callers := callers s |}
           | None => None
           end
    | C i =>
        match nth_error (callers s) i with
        | None => None
        | Some c =>
            match cstep (g s) (isme s i) (pc c) (hd_error (todo c)) with
            | None => None
            | Some (g', p', consumed) =>
                Some {| g := g';
                        owner := match lkof (g s), lkof g' with
                                 | LCaller, _ => owner s
                                 | _, LCaller => i
                                 | _, _ => owner s
                                 end;
                        callers := upd i {| pc := p'; todo := if consumed then tl (todo c) else todo c |}
                                       (callers s) |}
            end
        end
    end.

  (* run a schedule; choices of blocked threads are skipped *)
  Fixpoint run (s : st) (sch : list choice) : st :=
    match sch with
    | [] => s
    | ch :: r => match step s ch with Some s' => run s' r | None => run s r end
    end.

  Definition done_caller (c : caller) : bool :=
    is_idle (pc c) && match todo c with [] => true | _ => false end.
  Definition all_done (s : st) : bool := forallb done_caller (callers s).

  Definition enabled (s : st) (ch : choice) : bool :=
    match step s ch with Some _ => true | None => false end.

  (* choices worth trying in state s *)
  Definition choices (s : st) : list choice := M :: map C (seq 0 (length (callers s))).
  Definition some_enabled (s : st) : bool := existsb (enabled s) (choices s).

  (* canonical sequential execution of ONE call by caller 0 alone: run the caller while it can step,
     let the main thread step when the caller is blocked *)
  Fixpoint run_call (fuel : nat) (s : st) (started : bool) : option st :=
    match fuel with
    | O => None
    | S f =>
        match nth_error (callers s) 0 with
        | None => None
        | Some c =>
            if started && is_idle (pc c) then Some s
            else match step s (C 0) with
                 | Some s' => run_call f s' true
                 | None => match step s M with
                           | Some s' => run_call f s' started
                           | None => None
                           end
                 end
        end
    end.
End Pool.

Arguments pc {PC OP} _.
Arguments todo {PC OP} _.
Arguments g {G PC OP} _.
Arguments owner {G PC OP} _.
Arguments callers {G PC OP} _.
