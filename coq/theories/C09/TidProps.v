(* C09 (transfer part): transfer identifiers are isolated, and direct readings of the reactions
   to ERROR and invalid packets.  Property theorems only, closed by Tftp/TidProofs.v. *)
From Coq Require Import String.
From Coq Require Import List NArith ZArith Bool Lia.
From VF Require Import Tftp.Readers Tftp.Codec Tftp.Transfer Tftp.Run Tftp.Tid Tftp.TidProofs.
Import ListNotations.
Open Scope Z_scope.

(* TID non-interference.  For every configuration with a positive retransmission interval, every
   OACK, every list of blocks and EVERY script of incoming datagrams whose time stamps do not
   decrease: deleting all datagrams from foreign addresses from the script
   (i)   leaves the way the transfer ends unchanged,
   (ii)  leaves unchanged everything in the trace that is not the reception of a foreign datagram
         or the packet sent to a foreign address - all packets to the peer, all receptions from
         the peer, all time-outs, the closes, each with its virtual time,
   (iii) and in the run with the foreign datagrams each delivered one is answered directly by
         exactly one ERROR 5 to its sender, not before its arrival, and nothing else is ever sent
         to a foreign address (foreign_answered).
   The statement is about the server that needs no time to take a datagram off the socket
   (proc = 0): handling a datagram costs time whoever sent it, and with proc > 0 what follows a
   foreign datagram shifts by at most proc (Tftp/TimeProofs.v await_times bounds every try).
   Arrival order is what a socket queue delivers; for scripts that hand a later-stamped foreign
   datagram to the socket before an earlier-stamped peer datagram the statement is false
   (C09_tid_unsorted_refuted): the foreign datagram moves the clock to its own stamp. *)
Theorem C09_tid_noninterference : forall c oack blocks evs,
  0 < tmo c -> proc c = 0 -> nondecreasing evs ->
  fst (transfer_r c oack blocks (client_only evs)) = fst (transfer_r c oack blocks evs) /\
  snd (transfer_r c oack blocks (client_only evs)) = strip_foreign (snd (transfer_r c oack blocks evs)) /\
  foreign_answered (snd (transfer_r c oack blocks evs)) = true.
Proof. intros c oack blocks evs Ht Hp Hs. apply transfer_tid; [exact Ht|exact Hp|]. apply nondecreasing_sorted. exact Hs. Qed.
Print Assumptions C09_tid_noninterference.

(* the same for a complete case (negotiation, reader, transfer): only the default time-out has to
   be positive - and that only when the client does not obtain another one *)
Definition without_foreign (c : tcase) : tcase :=
  {| t_content := t_content c; t_chunks := t_chunks c; t_netascii := t_netascii c; t_options := t_options c;
     t_limits := t_limits c; t_retries := t_retries c; t_wrap := t_wrap c; t_kind := t_kind c;
     t_events := client_only (t_events c); t_proc := t_proc c; t_v := t_v c; t_nv := t_nv c; t_na_always_skip := t_na_always_skip c |}.
Theorem C09_tid_noninterference_case : forall c,
  0 < tmo (t_cfg c) -> t_proc c = 0 -> nondecreasing (t_events c) ->
  run_transfer_case (without_foreign c) = strip_foreign (run_transfer_case c) /\
  foreign_answered (run_transfer_case c) = true.
Proof.
  intros c Ht Hp Hs. destruct (C09_tid_noninterference (t_cfg c) (n_oack (t_neg c)) (t_blocks c) (t_events c) Ht Hp Hs)
    as [_ [A B]]. split; [exact A|exact B].
Qed.
Print Assumptions C09_tid_noninterference_case.

Theorem C09_tid_unsorted_refuted :
  ~ nondecreasing unsorted_script /\
  snd (transfer_r unsorted_cfg [] [[1%N]; [2%N]] (client_only unsorted_script))
  <> strip_foreign (snd (transfer_r unsorted_cfg [] [[1%N]; [2%N]] unsorted_script)).
Proof. exact tid_unsorted_refuted. Qed.
Print Assumptions C09_tid_unsorted_refuted.

(* any ERROR packet from the peer - opcode 00 05, any code, any length >= 2 - ends the transfer
   silently: wherever its reception occurs in the trace, only the two closes follow *)
Theorem C09_peer_error_silent : forall c pre t d post,
  t_v c = current -> 0 <= t_proc c ->
  run_transfer_case c = pre ++ TRecv t client d :: post ->
  is_error_datagram d = true ->
  post = [TCloseFile; TCloseSock].
Proof. intros c pre t d post Hv Hp. apply (peer_error_silent (t_cfg c) Hv Hp). Qed.
Print Assumptions C09_peer_error_silent.

(* a datagram from the peer that is invalid (shorter than 2 bytes, opcode other than ACK/ERROR,
   ACK whose length is not 4) is answered with exactly one ERROR 0, then the closes *)
Theorem C09_invalid_packet_one_error : forall c pre t d post,
  t_v c = current -> 0 <= t_proc c ->
  run_transfer_case c = pre ++ TRecv t client d :: post ->
  classify current d = CInvalid ->
  exists now, t <= now /\ post = [TSend now client (PError 0); TCloseFile; TCloseSock].
Proof. intros c pre t d post Hv Hp. apply (invalid_packet_one_error (t_cfg c) Hv Hp). Qed.
Print Assumptions C09_invalid_packet_one_error.

(* which datagrams are invalid *)
Theorem C09_invalid_datagrams : forall d,
  classify current d = CInvalid <->
  match d with
  | hi :: lo :: r => (u16 hi lo <> 4%N /\ u16 hi lo <> 5%N) \/ (u16 hi lo = 4%N /\ length r <> 2%nat)
  | _ => True
  end.
Proof.
  intros d. unfold classify. destruct d as [|hi [|lo r]]; try tauto.
  destruct (u16 hi lo =? 4)%N eqn:E4.
  - apply N.eqb_eq in E4. rewrite E4.
    destruct r as [|b1 [|b2 [|b3 r]]]; cbn [length]; split; intros H; try discriminate; try (right; split; [reflexivity|lia]);
      try reflexivity; destruct H as [[H _]|[_ H]]; congruence.
  - apply N.eqb_neq in E4. destruct (u16 hi lo =? 5)%N eqn:E5.
    + apply N.eqb_eq in E5. rewrite E5. cbn [current errcode_raises andb].
      split; [destruct r as [|c1 [|c2 r]]; discriminate|]. intros [[_ H]|[H _]]; congruence.
    + apply N.eqb_neq in E5. split; [intros _; left; split; assumption|reflexivity].
Qed.
Print Assumptions C09_invalid_datagrams.

(* the catch-all exception branch of _process_request is never taken, whatever arrives *)
Theorem C09_no_logexc : forall c, t_v c = current -> 0 <= t_proc c -> ~ In TLogExc (run_transfer_case c).
Proof. intros c Hv Hp. apply (transfer_no_logexc (t_cfg c) Hv Hp). Qed.
Print Assumptions C09_no_logexc.

(* ---------- non-vacuity ---------- *)
Definition tid_case : tcase :=
  {| t_content := [1; 2; 3; 4; 5; 6; 7; 8; 9; 10; 11]%N; t_chunks := []; t_netascii := false;
     t_options := [(lit "blksize"%string, lit "8"%string)];
     t_limits := {| max_bs := 65464; max_tmo := 30720; default_tmo := 2048 |}; t_retries := 1; t_wrap := Some 0%N;
     t_kind := KNoFileno;
     t_events := [Recv 3 1 [0; 4; 0; 0]; Recv 5 0 [0; 4; 0; 0]; Recv 5 2 [9]; Recv 700 3 [0; 5; 0; 0; 0];
                  Recv 2100 0 [0; 4; 0; 1]; Recv 2101 1 []; Recv 2102 0 [0; 4; 0; 2]]%N;
     t_proc := 0; t_v := current; t_nv := ncurrent; t_na_always_skip := false |}.
Example C09_tid_nonvacuous :
  (0 < tmo (t_cfg tid_case) /\ nondecreasing (t_events tid_case)) /\
  length (run_transfer_case tid_case) = 18%nat /\
  length (strip_foreign (run_transfer_case tid_case)) = 10%nat /\
  run_transfer_case (without_foreign tid_case) = strip_foreign (run_transfer_case tid_case).
Proof. split; [split; [reflexivity|cbn; lia]|]. vm_compute. repeat split; reflexivity. Qed.

(* an ERROR with an unknown code and no message, and a 5-byte ACK *)
Definition err_case : tcase :=
  {| t_content := [1; 2; 3]%N; t_chunks := []; t_netascii := false; t_options := [];
     t_limits := {| max_bs := 65464; max_tmo := 30720; default_tmo := 2048 |}; t_retries := 1; t_wrap := Some 0%N;
     t_kind := KNoFileno; t_events := [Recv 7 0 [0; 5; 255; 255]]%N;
     t_proc := 0; t_v := current; t_nv := ncurrent; t_na_always_skip := false |}.
Definition inv_case : tcase :=
  {| t_content := [1; 2; 3]%N; t_chunks := []; t_netascii := false; t_options := [];
     t_limits := {| max_bs := 65464; max_tmo := 30720; default_tmo := 2048 |}; t_retries := 1; t_wrap := Some 0%N;
     t_kind := KNoFileno; t_events := [Recv 7 0 [0; 4; 0; 1; 0]]%N;
     t_proc := 0; t_v := current; t_nv := ncurrent; t_na_always_skip := false |}.
Example C09_terminal_nonvacuous :
  run_transfer_case err_case =
    [TSend 0 client (PData 1 [1; 2; 3]%N)] ++ TRecv 7 client [0; 5; 255; 255]%N :: [TCloseFile; TCloseSock] /\
  is_error_datagram [0; 5; 255; 255]%N = true /\
  run_transfer_case inv_case =
    [TSend 0 client (PData 1 [1; 2; 3]%N)] ++ TRecv 7 client [0; 4; 0; 1; 0]%N ::
    [TSend 7 client (PError 0); TCloseFile; TCloseSock] /\
  classify current [0; 4; 0; 1; 0]%N = CInvalid.
Proof. vm_compute. repeat split; reflexivity. Qed.
