From Coq Require Import ExtrOcamlBasic.
From Coq Require Extraction.
From VF Require Import Base.Sx C13.Entry.
Definition main := wrap entry.
Extraction "../ocaml/gen/c13_model.ml" main.
