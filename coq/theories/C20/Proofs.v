(* The executable checker of C20 accepts the model on every valid case. *)
From Coq Require Import String.
From Coq Require Import List NArith ZArith Bool Arith Lia.
From VF Require Import Base.Sx Lifecycle.Pool Lifecycle.PoolProofs Lifecycle.Seq Lifecycle.Explore
  Lifecycle.ExploreProofs Lifecycle.TftpLife Lifecycle.TftpLifeProofs Lifecycle.HttpLife Lifecycle.HttpLifeProofs
  Lifecycle.LifeSeq Lifecycle.LifeTheorems Lifecycle.Transfer Lifecycle.TransferProofs C20.Entry.
Import ListNotations.
Local Open Scope nat_scope.

Lemma seq_clauses_spec r o : seq_clauses o (spec_obs r o) (spec_obs r o) = [].
Proof. unfold seq_clauses, spec_obs, nth0. cbn [nth]. rewrite !Nat.eqb_refl. reflexivity. Qed.

Lemma seq_holds_spec h : forall r, seq_holds h (spec_run r h) (spec_run r h) = [].
Proof.
  induction h as [|o t IH]; intros r; cbn [spec_run seq_holds]; auto.
  rewrite seq_clauses_spec. apply IH.
Qed.

Lemma holds_seq fuel s h : holds (Seq s h) (run_model_f fuel (Seq s h)) = [].
Proof.
  destruct s; cbn [run_model_f holds].
  - rewrite tftp_idempotent. apply seq_holds_spec.
  - rewrite http_idempotent. apply seq_holds_spec.
Qed.

(* ---- concurrent cases ---- *)
Notation TInv := (Inv glob cpc op lock gok lok act actb).
Notation HInv := (Inv hglob hpc hop hlock hgok hlok hact hactb).

Lemma tpool0_inv pre ops : TInv (tpool0 pre ops).
Proof.
  unfold tpool0. rewrite <- (map_map (map (fun b : bool => if b then Start else Stop))
                                      (fun l => {| pc := Idle; todo := l |})).
  destruct pre.
  - exact (pool_inv glob cpc op lock gok lok act actb (tpre true) Idle eq_refl eq_refl eq_refl eq_refl eq_refl _).
  - exact (pool_inv glob cpc op lock gok lok act actb (tpre false) Idle eq_refl eq_refl eq_refl eq_refl eq_refl _).
Qed.

Lemma hpool0_inv pre ops : HInv (hpool0 pre ops).
Proof.
  unfold hpool0. rewrite <- (map_map (map (fun b : bool => if b then HStart else HStop))
                                      (fun l => {| pc := HIdle; todo := l |})).
  destruct pre.
  - exact (pool_inv hglob hpc hop hlock hgok hlok hact hactb (hpre true) HIdle eq_refl eq_refl eq_refl eq_refl eq_refl _).
  - exact (pool_inv hglob hpc hop hlock hgok hlok hact hactb (hpre false) HIdle eq_refl eq_refl eq_refl eq_refl eq_refl _).
Qed.

Lemma tquiet_final gl : quiet gl = true -> tfinal gl <= 1.
Proof.
  unfold quiet, tfinal. intros H. apply andb_prop in H. destruct H as [H _].
  destruct (Running gl); [lia|]. destruct (Stopped gl); [lia|discriminate].
Qed.
Lemma hquiet_final gl : hquiet gl = true -> hfinal gl <= 1.
Proof.
  unfold hquiet, hfinal. intros H. apply andb_prop in H. destruct H as [H _].
  destruct (HRunning gl); [lia|]. destruct (HStopped gl); [lia|discriminate].
Qed.

Lemma all_done_idle {G PC OP} (is_idle : PC -> bool) (s : st G PC OP) :
  all_done G PC OP is_idle s = true -> forall c, In c (callers s) -> is_idle (pc c) = true.
Proof.
  intros Hd c Hc. unfold all_done in Hd. rewrite forallb_forall in Hd. specialize (Hd c Hc).
  unfold done_caller in Hd. apply andb_prop in Hd. tauto.
Qed.

Lemma tP_final : forall s, TInv s -> all_done glob cpc op is_idle s = true -> tfinal (g s) <= 1.
Proof.
  intros s Hi Hd. apply tquiet_final.
  apply (idle_quiet glob cpc op lock is_idle gok lok act actb quiet tF1' tF2' s Hi). exact (all_done_idle is_idle s Hd).
Qed.
Lemma hP_final : forall s, HInv s -> all_done hglob hpc hop his_idle s = true -> hfinal (g s) <= 1.
Proof.
  intros s Hi Hd. apply hquiet_final.
  apply (idle_quiet hglob hpc hop hlock his_idle hgok hlok hact hactb hquiet hF1' hF2' s Hi). exact (all_done_idle his_idle s Hd).
Qed.

Lemma holds_conc_ok s pre ops f : forallb (fun x => Nat.leb x 1) f = true -> holds (Conc s pre ops) (OConc 0 0 f) = [].
Proof. intros Hf. cbn [holds]. rewrite Hf. reflexivity. Qed.

Lemma holds_conc_tftp fuel pre ops : snd (texplore fuel pre ops) = true ->
  holds (Conc Tftp pre ops) (run_model_f fuel (Conc Tftp pre ops)) = [].
Proof.
  intros Hv. cbn [run_model_f]. unfold tconc_obs. unfold texplore in Hv.
  destruct (conc_obs_ok glob cpc op lock (cstep cur) (mstep cur) is_idle tgcode cpccode opcode err tfinal TInv
              (inv_step glob cpc op lock (cstep cur) (mstep cur) gok lok act actb tO1' tO2' tO3')
              tinv_err
              (no_deadlock glob cpc op lock (cstep cur) (mstep cur) is_idle gok lok act actb tD1' tD2')
              tP_final fuel (tpool0 pre ops) (tpool0_inv pre ops) Hv) as (f & E & Hf).
  rewrite E. apply holds_conc_ok. exact Hf.
Qed.

Lemma holds_conc_http fuel pre ops : snd (hexplore fuel pre ops) = true ->
  holds (Conc Http pre ops) (run_model_f fuel (Conc Http pre ops)) = [].
Proof.
  intros Hv. cbn [run_model_f]. unfold hconc_obs. unfold hexplore in Hv.
  destruct (conc_obs_ok hglob hpc hop hlock (hcstep true true) hmstep his_idle hgcode hpccode hopcode herr hfinal HInv
              (inv_step hglob hpc hop hlock (hcstep true true) hmstep hgok hlok hact hactb hO1' hO2' hO3')
              hinv_err
              (no_deadlock hglob hpc hop hlock (hcstep true true) hmstep his_idle hgok hlok hact hactb hD1' hD2')
              hP_final fuel (hpool0 pre ops) (hpool0_inv pre ops) Hv) as (f & E & Hf).
  rewrite E. apply holds_conc_ok. exact Hf.
Qed.

(* ---- transfer cases: finite sweep over the environment record ---- *)
Lemma holds_xfer fuel e : with_sock e = true -> with_file e = true -> holds (Xfer e) (run_model_f fuel (Xfer e)) = [].
Proof.
  destruct e as [so hr ts xe se cf ws wf]; cbn [with_sock with_file]. intros -> ->.
  destruct so, hr, ts, xe, se, cf; reflexivity.
Qed.

Theorem holds_model_f fuel c : valid_f fuel c -> holds c (run_model_f fuel c) = [].
Proof.
  destruct c as [s h|s pre ops|e]; cbn [valid_f].
  - intros _. apply holds_seq.
  - destruct s; [apply holds_conc_tftp | apply holds_conc_http].
  - intros [H1 H2]. apply holds_xfer; assumption.
Qed.

Lemma validb_f_valid fuel c : validb_f fuel c = true -> valid_f fuel c.
Proof.
  destruct c as [s h|s pre ops|e]; cbn [validb_f valid_f]; intros H.
  - constructor.
  - destruct s; exact H.
  - apply andb_prop in H. exact H.
Qed.

Lemma validb_valid c : validb c = true -> valid c.
Proof. exact (validb_f_valid explore_fuel c). Qed.

Theorem holds_model c : valid c -> holds c (run_model c) = [].
Proof. exact (holds_model_f explore_fuel c). Qed.
