(* C15 - SQLite state is one map; writes visible everywhere at once and survive a kill.
   PARTIAL proof: every statement of the autocommit connection is assumed atomic, durable and
   visible (SQLite/OS behaviour, exercised by the kill runs, not proved). *)
From Coq Require Import String.
From Coq Require Import List NArith ZArith Bool Arith.
From VF Require Import Base.Sx Sqlite.Model C15.Entry C15.EntryProofs.
Import ListNotations.
Open Scope N_scope.

Theorem C15_holds : forall c, valid c -> holds c (run_model c) = [].
Proof. exact holds_model. Qed.
Print Assumptions C15_holds.
