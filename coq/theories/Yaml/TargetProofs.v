(* Lemmas about the YAML-target model (C11, reused by C12). *)
From Coq Require Import List NArith ZArith Bool Arith Lia.
From VF Require Import PyVal.Val PyVal.ValProofs Merge.Merge Yaml.Target.
Import ListNotations.

Lemma name_eqb_eq a b : name_eqb a b = true <-> a = b.
Proof.
  unfold name_eqb. revert b. induction a as [|x a IH]; intros [|y b]; cbn [list_eqb]; try (split; discriminate); [tauto|].
  rewrite andb_true_iff, str_eqb_eq, IH. split; [intros [-> ->]; reflexivity | intros E; injection E; auto].
Qed.
Lemma name_eqb_refl a : name_eqb a a = true.
Proof. now apply name_eqb_eq. Qed.

(* ------------------------------------------------------------------ three-way split *)
Lemma include_hashable : hashable INCLUDE = true.
Proof. reflexivity. Qed.

Lemma py_eq_include_l k : hashable k = true -> py_eq k INCLUDE = py_eq INCLUDE k.
Proof.
  intros Hk. unfold py_eq. destruct (veq false k INCLUDE) eqn:E1.
  - apply veq_hashable_r in E1; [|reflexivity]. subst. reflexivity.
  - destruct (veq false INCLUDE k) eqn:E2; [|reflexivity].
    apply veq_hashable_l in E2; [|reflexivity]. subst. discriminate.
Qed.

Lemma split_loop_spec : forall d pre post,
  Forall (fun k => hashable k = true) (keys d) ->
  split_loop d true pre None post =
    match from_include d with
    | None => (pre ++ d, None, post)
    | Some (v, r) => split_loop r false (pre ++ before_include d) (Some v) post
    end.
Proof.
  induction d as [|[k v] r IH]; intros pre post Hh; cbn [split_loop from_include before_include].
  - now rewrite app_nil_r.
  - destruct (py_eq k INCLUDE); [now rewrite app_nil_r|].
    inversion Hh; subst. rewrite IH by assumption. destruct (from_include r) as [[v' r']|]; now rewrite <- app_assoc.
Qed.

Lemma split_loop_after : forall d pre inc post,
  (forall k, In k (keys d) -> py_eq k INCLUDE = false) ->
  split_loop d false pre inc post = (pre, inc, post ++ d).
Proof.
  induction d as [|[k v] r IH]; intros pre inc post Hn; cbn [split_loop]; [now rewrite app_nil_r|].
  rewrite (Hn k) by (now left). rewrite IH by (intros k' Hk'; apply Hn; now right). now rewrite <- app_assoc.
Qed.

Lemma lookup_from_include d : Forall (fun k => hashable k = true) (keys d) ->
  lookup INCLUDE d = match from_include d with Some (v, _) => Some v | None => None end.
Proof.
  unfold lookup. induction d as [|[k v] r IH]; intros Hh; cbn [assoc from_include]; [reflexivity|].
  inversion Hh; subst. rewrite <- py_eq_include_l by assumption.
  destruct (py_eq k INCLUDE); [reflexivity | now apply IH].
Qed.

Theorem split_three_way : forall d, wf (VDict d) = true -> norm3 (split_code d) = split_spec d.
Proof.
  intros d W. destruct (wf_dict_parts _ W) as (Hh & Hn & _).
  unfold split_code, split_spec, has. rewrite (lookup_from_include d Hh).
  destruct (from_include d) as [[v r]|] eqn:Ef; cbv beta iota; cbn [negb]; [|reflexivity].
  destruct d as [|[k x] d']; [discriminate|].
  cbn [from_include before_include] in *. destruct (py_eq k INCLUDE) eqn:Ek.
  - injection Ef as <- <-. cbn [norm3]. f_equal.
    cbn [dict_del]. inversion Hh; subst. rewrite <- py_eq_include_l by assumption. now rewrite Ek.
  - rewrite (split_loop_spec ((k, x) :: d') [] [] Hh). cbn [from_include before_include]. rewrite Ek, Ef.
    (* after the include key no further key equals it: keys are pairwise different *)
    assert (A : forall k', In k' (keys r) -> py_eq k' INCLUDE = false).
    { clear Ek. unfold keys in *. cbn [map fst] in Hn, Hh. inversion Hn as [|? ? _ Hn']; subst. inversion Hh as [|? ? _ Hh']; subst.
      clear Hn Hh W. revert Ef Hn' Hh'. induction d' as [|[k1 x1] d1 IH]; intros Ef Hn' Hh'; [discriminate|].
      cbn [from_include] in Ef. cbn [map fst] in Hn', Hh'. inversion Hn' as [|? ? Hni Hn1]; subst. inversion Hh' as [|? ? Hk1 Hh1]; subst.
      destruct (py_eq k1 INCLUDE) eqn:E1.
      - injection Ef as <- <-. intros k' Hk'. destruct (py_eq k' INCLUDE) eqn:E2; [|reflexivity].
        unfold py_eq in E1, E2. apply veq_hashable_r in E1; [|reflexivity]. apply veq_hashable_r in E2; [|reflexivity].
        subst. contradiction.
      - now apply IH. }
    rewrite split_loop_after by assumption. reflexivity.
Qed.

(* ------------------------------------------------------------------ relative includes *)
Fixpoint dots (k : nat) (rest : str) : str := match k with O => rest | S k' => DOT :: dots k' rest end.

Lemma split_dots_nonempty s : split_dots s <> [].
Proof. destruct s as [|c r]; cbn [split_dots]; [discriminate|]. destruct (c =? DOT)%N; [discriminate|]. destruct (split_dots r); discriminate. Qed.

Lemma split_dots_dot s : split_dots (DOT :: s) = [] :: split_dots s.
Proof. reflexivity. Qed.

Fixpoint up (k : nat) (d : name) : option name :=
  match k with
  | O => Some d
  | S k' => match d with [] => None | _ => up k' (removelast d) end
  end.

Lemma strip_dots_lead : forall k rest parent, (forall r', rest <> [] :: r') ->
  strip_dots (repeat [] k ++ rest) parent =
    match up k parent with Some d => Ok (rest, d) | None => Err RuntimeError end.
Proof.
  induction k as [|k IH]; intros rest parent Hr; cbn [repeat app up].
  - destruct rest as [|[|c s] r]; try reflexivity. exfalso. now apply (Hr r).
  - cbn [strip_dots]. destruct parent as [|x p]; [reflexivity|]. now apply IH.
Qed.

Lemma split_dots_dots : forall k s, split_dots (dots k s) = repeat [] k ++ split_dots s.
Proof. induction k as [|k IH]; intros s; cbn [dots repeat app]; [reflexivity|]. now rewrite split_dots_dot, IH. Qed.

(* ------------------------------------------------------------------ compile = specification *)
Section Compile.
  Variable V : variants.
  Variable C : config.
  Variable H : str -> str.
  Variable render_o : str -> res str.
  Variable yload : str -> res val.
  Variable matches : str -> res bool.
  Variable t : fstree.
  Variable pv : str.
  Hypothesis V_norerender : rerender V = false.
  (* the YAML parser returns real Python dicts: hashable, pairwise different keys *)
  Hypothesis yload_wf : forall text v, yload text = Ok v -> wf v = true.

  Notation resolve := (resolve C t).
  Notation load_file := (load_file C H render_o yload t).
  Notation parse_file := (parse_file H yload).
  Notation spec_load := (spec_load C H render_o yload t).
  Notation get_entry := (get_entry V C H render_o yload t).
  Notation pfile := (pfile V C H render_o yload t).
  Notation pfiles := (pfiles V C H render_o yload t).
  Notation sfile := (sfile V C H render_o yload t).
  Notation expand_spec := (expand_spec V C H render_o yload t).
  Notation after_version := (after_version V).

  Definition file_ok (n : name) (e : entry) : Prop := forall rn p, resolve n = Ok (rn, p) -> load_file p = Ok e.
  (* content validity of a data-file entry: it is what some text parses to - no reference to any snapshot *)
  Definition cfile_valid (e : entry) : Prop := exists text, parse_file text = Ok e.
  Definition nc_ok (nc : files) : Prop := forall n e, flookup n nc = Some e -> file_ok n e /\ cfile_valid e.
  (* an old entry is harmless: whatever text hashes to its version parses to its data *)
  Definition oc_ok (oc : files) : Prop :=
    forall n e, flookup n oc = Some e -> forall text, H text = snd e -> parse_file text = Ok e.
  (* a piece carries the version of the rendered text it was cut from, tagged by its side *)
  Definition piece_ok (p : piece) : Prop :=
    exists text b inc a, parse_file text = Ok ((b, inc, a), H text) /\
      In p (opt_piece b (H text) ++ opt_piece a (after_version (H text))).

  Lemma flookup_cons n n' e l : flookup n' ((n, e) :: l) = if name_eqb n' n then Some e else flookup n' l.
  Proof. unfold flookup. cbn [find fst snd]. destruct (name_eqb n' n); reflexivity. Qed.

  Lemma get_entry_eq oc nc n rn p : nc_ok nc -> oc_ok oc -> resolve n = Ok (rn, p) ->
    get_entry oc nc n p = load_file p.
  Proof.
    intros Hnc Hoc Hr. unfold Target.get_entry. rewrite V_norerender.
    destruct (flookup n nc) as [e|] eqn:En.
    - symmetry. exact (proj1 (Hnc n e En) rn p Hr).
    - unfold Target.load_file. destruct (wrap_rt (render_path C render_o t p)) as [text|x]; cbn [bind]; [|reflexivity].
      destruct (flookup n oc) as [e|] eqn:Eo; [|reflexivity].
      destruct (str_eqb (H text) (snd e)) eqn:Eh; [|reflexivity].
      apply str_eqb_eq in Eh. symmetry. exact (Hoc n e Eo text Eh).
  Qed.

  Lemma parse_file_version text e : parse_file text = Ok e -> snd e = H text.
  Proof.
    unfold Target.parse_file. destruct (wrap_rt (yload text)) as [d|x]; cbn [bind]; [|discriminate].
    destruct d; try discriminate. intros E. injection E as <-. reflexivity.
  Qed.

  Lemma load_file_parse p e : load_file p = Ok e -> exists text, parse_file text = Ok e.
  Proof.
    unfold Target.load_file. destruct (wrap_rt (render_path C render_o t p)) as [text|x]; cbn [bind]; [|discriminate].
    intros E. now exists text.
  Qed.

  Lemma wrap_rt_ok {A} (r : res A) a : wrap_rt r = Ok a -> r = Ok a.
  Proof. destruct r; cbn; [congruence | discriminate]. Qed.

  Lemma load_spec p : spec_load p = match load_file p with Ok e => Ok (norm3 (fst e), snd e) | Err x => Err x end.
  Proof.
    unfold Target.spec_load, Target.load_file, Target.parse_file.
    destruct (wrap_rt (render_path C render_o t p)) as [text|x]; cbn [bind]; [|reflexivity].
    destruct (wrap_rt (yload text)) as [d|x] eqn:Ey; cbn [bind]; [|reflexivity].
    destruct d; try reflexivity. cbn [fst snd]. apply wrap_rt_ok in Ey. apply yload_wf in Ey.
    now rewrite split_three_way.
  Qed.

  Lemma opt_piece_some b v : opt_piece b v = some_piece (match b with Some x => x | None => [] end) v.
  Proof. destruct b as [[|x r]|]; reflexivity. Qed.

  (* relation between a level of the model and the same level of the specification *)
  Definition level_rel (oc : files)
             (rm : list name -> list (res name) -> files -> res (list piece * files))
             (rs : list name -> list (res name) -> res (list piece)) : Prop :=
    forall parents fl nc, nc_ok nc ->
      match rm parents fl nc with
      | Ok (pl, nc') => rs parents fl = Ok pl /\ nc_ok nc' /\ Forall piece_ok pl
      | Err e => rs parents fl = Err e
      end.

  Lemma pfile_rel oc rm rs : oc_ok oc -> level_rel oc rm rs ->
    forall parents n rn p nc, nc_ok nc -> resolve n = Ok (rn, p) ->
      match pfile rm oc parents (n, rn, p) nc with
      | Ok (pl, nc') => sfile rs parents (n, rn, p) = Ok pl /\ nc_ok nc' /\ Forall piece_ok pl
      | Err e => sfile rs parents (n, rn, p) = Err e
      end.
  Proof.
    intros Hoc Hrel parents n rn p nc Hnc Hr. unfold Target.pfile, Target.sfile.
    destruct (existsb (name_eqb n) parents); [reflexivity|].
    rewrite (get_entry_eq oc nc n rn p Hnc Hoc Hr), load_spec.
    destruct (load_file p) as [[[[b inc] a] v]|x] eqn:El; cbn [bind]; [|reflexivity].
    cbn [norm3 fst snd].
    assert (Hnc1 : nc_ok ((n, (b, inc, a, v)) :: nc)).
    { intros n' e'. rewrite flookup_cons. destruct (name_eqb n' n) eqn:En.
      - apply name_eqb_eq in En. subst n'. intros E. injection E as <-. split.
        + intros rn' p' Hr'. rewrite Hr in Hr'. now injection Hr' as <- <-.
        + apply (load_file_parse _ _ El).
      - apply Hnc. }
    assert (Hv : exists text, parse_file text = Ok (b, inc, a, H text) /\ v = H text).
    { destruct (load_file_parse _ _ El) as [text Hp]. exists text. pose proof (parse_file_version _ _ Hp) as Ev. cbn [snd] in Ev. subst v. auto. }
    destruct Hv as (text & Hp & ->).
    assert (Pb : Forall piece_ok (opt_piece b (H text))).
    { apply Forall_forall. intros q Hq. exists text, b, inc, a. split; [assumption|]. apply in_or_app. now left. }
    assert (Pa : Forall piece_ok (opt_piece a (after_version (H text)))).
    { apply Forall_forall. intros q Hq. exists text, b, inc, a. split; [assumption|]. apply in_or_app. now right. }
    destruct inc as [iv|].
    - destruct (truthy iv).
      + destruct (iter_val iv) as [items|x]; cbn [bind]; [|reflexivity].
        destruct (map_res (resolve_rel rn) items) as [names|x]; cbn [bind]; [|reflexivity].
        specialize (Hrel (parents ++ [n]) (map Ok names) _ Hnc1).
        destruct (rm (parents ++ [n]) (map Ok names) _) as [[pl nc']|x]; cbn [bind fst snd].
        * destruct Hrel as (E1 & E2 & E3). rewrite E1. cbn [bind]. split; [|split; [assumption|]].
          -- now rewrite !opt_piece_some.
          -- apply Forall_app. split; [assumption|]. apply Forall_app. now split.
        * now rewrite Hrel.
      + cbn [bind fst snd]. split; [|split; [assumption|]].
        * now rewrite !opt_piece_some.
        * apply Forall_app. split; [assumption|]. cbn [app]. assumption.
    - cbn [bind fst snd]. split; [|split; [assumption|]].
      * now rewrite !opt_piece_some.
      * apply Forall_app. split; [assumption|]. cbn [app]. assumption.
  Qed.

  Definition resolved (q : name * name * path) : Prop := resolve (fst (fst q)) = Ok (snd (fst q), snd q).

  Lemma resolve_all_sound : forall fl rs, resolve_all C t fl = Ok rs -> Forall resolved rs.
  Proof.
    induction fl as [|rn r IH]; intros rs E; cbn [resolve_all] in E.
    - injection E as <-. constructor.
    - destruct rn as [n|x]; cbn [bind] in E; [|discriminate].
      destruct (resolve n) as [[rn' p]|x] eqn:Er; cbn [bind] in E; [|discriminate].
      destruct (resolve_all C t r) as [r'|x]; cbn [bind] in E; [|discriminate].
      injection E as <-. constructor; [exact Er | now apply IH].
  Qed.

  Lemma pfile_list_rel oc rm rs : oc_ok oc -> level_rel oc rm rs ->
    forall parents qs nc, nc_ok nc -> Forall resolved qs ->
      match pfile_list (pfile rm oc) parents qs nc with
      | Ok (pl, nc') => sfile_list (sfile rs) parents qs = Ok pl /\ nc_ok nc' /\ Forall piece_ok pl
      | Err e => sfile_list (sfile rs) parents qs = Err e
      end.
  Proof.
    intros Hoc Hrel parents qs. induction qs as [|[[n rn] p] r IH]; intros nc Hnc Hq; cbn [pfile_list sfile_list].
    - split; [reflexivity | split; [assumption | constructor]].
    - inversion Hq as [|? ? Hq1 Hqr]; subst. unfold resolved in Hq1. cbn [fst snd] in Hq1.
      pose proof (pfile_rel oc rm rs Hoc Hrel parents n rn p nc Hnc Hq1) as P1.
      destruct (pfile rm oc parents (n, rn, p) nc) as [[pl1 nc1]|x]; cbn [bind fst snd].
      + destruct P1 as (E1 & N1 & F1). rewrite E1. cbn [bind].
        specialize (IH nc1 N1 Hqr).
        destruct (pfile_list (pfile rm oc) parents r nc1) as [[pl2 nc2]|x]; cbn [bind fst snd].
        * destruct IH as (E2 & N2 & F2). rewrite E2. cbn [bind]. split; [reflexivity | split; [assumption | now apply Forall_app]].
        * now rewrite IH.
      + now rewrite P1.
  Qed.

  Lemma pfiles_rel oc : oc_ok oc -> forall fuel, level_rel oc (pfiles fuel oc) (expand_spec fuel).
  Proof.
    intros Hoc. induction fuel as [|f IH]; intros parents fl nc Hnc; cbn [Target.pfiles Target.expand_spec]; [reflexivity|].
    destruct (resolve_all C t fl) as [qs|x] eqn:Er; cbn [bind]; [|reflexivity].
    apply (pfile_list_rel oc _ _ Hoc IH parents qs nc Hnc). now apply resolve_all_sound in Er.
  Qed.

  Lemma nc_ok_nil : nc_ok [].
  Proof. intros n e E. discriminate. Qed.
  Lemma oc_ok_nil : oc_ok [].
  Proof. intros n e E. discriminate. Qed.

  (* ---- the whole of compile_data ---- *)
  Notation eval_top := (eval_top C matches).
  Notation spec_top := (spec_top C render_o yload matches t).
  Notation spec_pieces := (spec_pieces V C H render_o yload matches t).
  Notation get_data_spec := (get_data_spec V C H render_o yload matches t).
  Notation get_full_spec := (get_full_spec V C H render_o yload matches t).
  Notation process_top := (process_top C H render_o yload matches t pv).
  Notation compile := (compile V C H render_o yload matches t pv).
  Notation top_version := (top_version H pv).
  Notation merge_all := (merge_all C).

  (* usable cached top / result: whatever has the same version yields the same data *)
  Definition top_ok (ce : top_entry) : Prop :=
    forall text, top_version text = snd ce -> bind (wrap_rt (yload text)) eval_top = Ok (fst ce).
  Definition res_ok (r : dict * str) : Prop :=
    forall pl, Forall piece_ok pl -> aggregate_version H (map snd pl) = snd r -> merge_all (map fst pl) = Ok (fst r).
  Definition item_ok (oc : item) : Prop :=
    match i_top oc with Some ce => top_ok ce | None => True end /\
    oc_ok (i_files oc) /\
    match i_result oc with Some r => res_ok r | None => True end.

  Lemma item_ok_empty : item_ok empty_item.
  Proof. repeat split. apply oc_ok_nil. Qed.

  Lemma process_top_spec oc : item_ok oc ->
    match process_top oc with
    | Ok te => spec_top = Ok (fst te)
    | Err e => spec_top = Err e
    end.
  Proof.
    intros (Ht & _ & _). unfold Target.process_top, Target.spec_top.
    assert (G : match
        bind (wrap_rt (render_path C render_o t (top_path C))) (fun text =>
          match match i_top oc with Some ce => if str_eqb (snd ce) (top_version text) then Some ce else None | None => None end with
          | Some ce => Ok ce
          | None => bind (wrap_rt (yload text)) (fun data => bind (eval_top data) (fun fl => Ok (fl, top_version text)))
          end)
      with
      | Ok te => bind (wrap_rt (render_path C render_o t (top_path C))) (fun text => bind (wrap_rt (yload text)) eval_top) = Ok (fst te)
      | Err e => bind (wrap_rt (render_path C render_o t (top_path C))) (fun text => bind (wrap_rt (yload text)) eval_top) = Err e
      end).
    { destruct (wrap_rt (render_path C render_o t (top_path C))) as [text|x]; cbn [bind]; [|reflexivity].
      destruct (i_top oc) as [ce|].
      + destruct (str_eqb (snd ce) (top_version text)) eqn:Ev.
        * apply str_eqb_eq in Ev. cbn [fst]. apply Ht. now symmetry.
        * destruct (wrap_rt (yload text)) as [d|x]; cbn [bind]; [|reflexivity].
          destruct (eval_top d) as [fl|x]; cbn [bind]; reflexivity.
      + destruct (wrap_rt (yload text)) as [d|x]; cbn [bind]; [|reflexivity].
        destruct (eval_top d) as [fl|x]; cbn [bind]; reflexivity. }
    destruct (fs_kind t (top_path C)) eqn:Ek; try reflexivity; exact G.
  Qed.

  Definition spec_result : res dict :=
    if empty_raises V && empty_pieces_case V C H render_o yload matches t then Err ValueError else get_data_spec.

  Definition result_data (r : res (dict * str * option item)) : res dict :=
    match r with Ok (d, _, _) => Ok d | Err e => Err e end.

  Lemma merge_all_nil : merge_all [] = Ok [].
  Proof. reflexivity. Qed.

  Definition spec_full : res (dict * str) :=
    if empty_raises V && empty_pieces_case V C H render_o yload matches t then Err ValueError else get_full_spec.
  Definition result_full (r : res (dict * str * option item)) : res (dict * str) :=
    match r with Ok (d, v, _) => Ok (d, v) | Err e => Err e end.

  (* data AND version of compile_data, for any usable old cache item *)
  Theorem compile_full oc : item_ok oc -> result_full (compile oc) = spec_full.
  Proof.
    intros Hok. pose proof (process_top_spec oc Hok) as Pt. destruct Hok as (_ & Hoc & Hres).
    unfold Target.compile, spec_full, Target.get_full_spec, Target.empty_pieces_case, Target.spec_pieces.
    destruct (process_top oc) as [[fl tv]|x]; cbn [bind fst snd] in *; rewrite Pt; cbn [bind]; [|now rewrite andb_false_r].
    assert (Fin : forall pl nc (P : Forall piece_ok pl),
      result_full
        (match i_result oc with
         | Some (rd, rv) =>
             if str_eqb rv (aggregate_version H (map snd pl)) then Ok (rd, rv, None)
             else bind (merge_all (map fst pl)) (fun d =>
                    Ok (d, aggregate_version H (map snd pl),
                        Some {| i_top := Some (fl, tv); i_files := nc; i_result := Some (d, aggregate_version H (map snd pl)) |}))
         | None =>
             bind (merge_all (map fst pl)) (fun d =>
               Ok (d, aggregate_version H (map snd pl),
                   Some {| i_top := Some (fl, tv); i_files := nc; i_result := Some (d, aggregate_version H (map snd pl)) |}))
         end) = bind (merge_all (map fst pl)) (fun d => Ok (d, aggregate_version H (map snd pl)))).
    { intros pl nc P. destruct (i_result oc) as [[rd rv]|].
      - destruct (str_eqb rv (aggregate_version H (map snd pl))) eqn:Ev.
        + apply str_eqb_eq in Ev. cbn [result_full]. rewrite (Hres pl P (eq_sym Ev)). cbn [bind fst]. now rewrite Ev.
        + destruct (merge_all (map fst pl)); reflexivity.
      - destruct (merge_all (map fst pl)); reflexivity. }
    destruct fl as [[|x r]|].
    - cbn [bind fst snd]. rewrite andb_false_r. apply (Fin [] [] (Forall_nil _)).
    - pose proof (pfiles_rel (i_files oc) Hoc (fuel_for t) (initial_parents V) (map name_of_top_elem (x :: r)) [] nc_ok_nil) as R.
      destruct (pfiles (fuel_for t) (i_files oc) (initial_parents V) (map name_of_top_elem (x :: r)) []) as [[pl nc]|e]; cbn [bind fst snd].
      + destruct R as (E1 & _ & P). rewrite E1.
        destruct pl as [|q pl']; cbn [map].
        * destruct (empty_raises V); cbn [andb bind result_full]; [reflexivity|]. apply (Fin [] nc (Forall_nil _)).
        * rewrite andb_false_r. cbn [bind]. apply (Fin (q :: pl') nc P).
      + rewrite R. now rewrite andb_false_r.
    - cbn [bind fst snd]. rewrite andb_false_r. apply (Fin [] [] (Forall_nil _)).
  Qed.

  Lemma spec_full_data : match spec_full with Ok dv => Ok (fst dv) | Err e => Err e end = spec_result.
  Proof.
    unfold spec_full, spec_result, Target.get_full_spec, Target.get_data_spec.
    destruct (empty_raises V && empty_pieces_case V C H render_o yload matches t); [reflexivity|].
    destruct spec_pieces as [ps|e]; cbn [bind]; [|reflexivity]. destruct (merge_all (map fst ps)); reflexivity.
  Qed.

  Theorem compile_spec oc : item_ok oc -> result_data (compile oc) = spec_result.
  Proof.
    intros Hok. pose proof (process_top_spec oc Hok) as Pt. destruct Hok as (_ & Hoc & Hres).
    unfold Target.compile, spec_result, Target.get_data_spec, Target.empty_pieces_case, Target.spec_pieces.
    destruct (process_top oc) as [[fl tv]|x]; cbn [bind fst snd] in *; rewrite Pt; cbn [bind]; [|now rewrite andb_false_r].
    assert (Fin : forall pl nc (P : Forall piece_ok pl),
      result_data
        (match i_result oc with
         | Some (rd, rv) =>
             if str_eqb rv (aggregate_version H (map snd pl)) then Ok (rd, rv, None)
             else bind (merge_all (map fst pl)) (fun d =>
                    Ok (d, aggregate_version H (map snd pl),
                        Some {| i_top := Some (fl, tv); i_files := nc; i_result := Some (d, aggregate_version H (map snd pl)) |}))
         | None =>
             bind (merge_all (map fst pl)) (fun d =>
               Ok (d, aggregate_version H (map snd pl),
                   Some {| i_top := Some (fl, tv); i_files := nc; i_result := Some (d, aggregate_version H (map snd pl)) |}))
         end) = merge_all (map fst pl)).
    { intros pl nc P. destruct (i_result oc) as [[rd rv]|].
      - destruct (str_eqb rv (aggregate_version H (map snd pl))) eqn:Ev.
        + apply str_eqb_eq in Ev. cbn [result_data]. symmetry. apply (Hres pl P). now symmetry.
        + destruct (merge_all (map fst pl)); reflexivity.
      - destruct (merge_all (map fst pl)); reflexivity. }
    destruct fl as [[|x r]|].
    - cbn [bind fst snd]. rewrite andb_false_r. apply (Fin [] [] (Forall_nil _)).
    - pose proof (pfiles_rel (i_files oc) Hoc (fuel_for t) (initial_parents V) (map name_of_top_elem (x :: r)) [] nc_ok_nil) as R.
      destruct (pfiles (fuel_for t) (i_files oc) (initial_parents V) (map name_of_top_elem (x :: r)) []) as [[pl nc]|e]; cbn [bind fst snd].
      + destruct R as (E1 & _ & P). rewrite E1.
        destruct pl as [|q pl']; cbn [map].
        * destruct (empty_raises V); cbn [andb bind result_data]; [reflexivity|]. apply (Fin [] nc (Forall_nil _)).
        * rewrite andb_false_r. cbn [bind]. apply (Fin (q :: pl') nc P).
      + rewrite R. now rewrite andb_false_r.
    - cbn [bind fst snd]. rewrite andb_false_r. apply (Fin [] [] (Forall_nil _)).
  Qed.
End Compile.

(* ------------------------------------------------------------------ termination *)
Lemma filter_split_length {A} (f : A -> bool) l :
  length l = length (filter f l) + length (filter (fun x => negb (f x)) l).
Proof. induction l as [|x r IH]; cbn [filter length]; [reflexivity|]. destruct (f x); cbn [negb length]; lia. Qed.

Lemma NoDup_filter' {A} (f : A -> bool) l : NoDup l -> NoDup (filter f l).
Proof.
  induction 1 as [|x l Hx Hl IH]; cbn [filter]; [constructor|].
  destruct (f x); [constructor; [|assumption] | assumption]. intros Hin. apply filter_In in Hin. tauto.
Qed.

Lemma NoDup_map_inj_on {A B} (g : A -> B) l :
  (forall x y, In x l -> In y l -> g x = g y -> x = y) -> NoDup l -> NoDup (map g l).
Proof.
  intros Hinj Hn. induction Hn as [|x l Hx Hl IH]; cbn [map]; [constructor|].
  constructor.
  - intros Hin. apply in_map_iff in Hin as [y [Ey Hy]]. apply Hx.
    rewrite (Hinj x y); [assumption | now left | now right | now symmetry].
  - apply IH. intros a b Ha Hb. apply Hinj; now right.
Qed.

Lemma fs_kind_in t p : fs_kind t p <> NoEnt -> In p (map fst t).
Proof.
  unfold fs_kind. destruct (find (fun e => name_eqb p (fst e)) t) as [e|] eqn:Ef; [|congruence].
  intros _. apply find_some in Ef as [Hin Hp]. apply name_eqb_eq in Hp. subst p. now apply in_map.
Qed.

Lemma NoDup_app_tail {A} (l1 l2 : list A) : NoDup (l1 ++ l2) -> NoDup l2.
Proof. induction l1 as [|x r IH]; cbn [app]; [auto|]. intros Hn. inversion Hn; subst. auto. Qed.

Lemma NoDup_app_snoc {A} (l : list A) x : NoDup l -> ~ In x l -> NoDup (l ++ [x]).
Proof.
  induction 1 as [|y l Hy Hl IH]; intros Hx; cbn [app]; [constructor; [tauto | constructor]|].
  constructor.
  - intros Hin. apply in_app_or in Hin as [Hin|[<-|[]]]; [contradiction|]. apply Hx. now left.
  - apply IH. intros Hin. apply Hx. now right.
Qed.

Section Terminates.
  Variable V : variants.
  Variable C : config.
  Variable H : str -> str.
  Variable render_o : str -> res str.
  Variable yload : str -> res val.
  Variable t : fstree.
  Notation resolve := (resolve C t).
  Notation expand_spec := (expand_spec V C H render_o yload t).

  Definition yaml_path (n : name) : path := removelast n ++ [last n [] ++ suffix C].
  Definition init_path (n : name) : path := n ++ [s_init ++ suffix C].
  Definition by_yaml (n : name) : bool := match fs_kind t (yaml_path n) with File _ | Unreadable => true | _ => false end.
  Definition resolvable (n : name) : Prop := exists rn p, resolve n = Ok (rn, p).

  Lemma resolvable_cases n : resolvable n ->
    n <> [] /\ (if by_yaml n then In (yaml_path n) (map fst t) else In (init_path n) (map fst t)).
  Proof.
    intros (rn & p & E). unfold Target.resolve in E.
    destruct (forallb (seg_ok) n && negb (is_nil n)) eqn:Eok; [|discriminate].
    apply andb_true_iff in Eok as [_ Enn]. split; [destruct n; [discriminate | discriminate]|].
    unfold by_yaml. fold (yaml_path n) in E. fold (init_path n) in E.
    destruct (fs_kind t (yaml_path n)) eqn:Ey; cbv beta iota; try discriminate;
      try (apply fs_kind_in; congruence);
      (apply fs_kind_in; destruct (fs_kind t (init_path n)); discriminate).
  Qed.

  Lemma yaml_path_inj a b : a <> [] -> b <> [] -> yaml_path a = yaml_path b -> a = b.
  Proof.
    intros Ha Hb E. unfold yaml_path in E. apply app_inj_tail in E as [E1 E2].
    apply app_inv_tail in E2. pose proof (app_removelast_last [] Ha) as Xa. pose proof (app_removelast_last [] Hb) as Xb.
    etransitivity; [exact Xa|]. etransitivity; [|symmetry; exact Xb]. f_equal; [exact E1 | f_equal; exact E2].
  Qed.
  Lemma init_path_inj a b : init_path a = init_path b -> a = b.
  Proof. unfold init_path. intros E. now apply app_inj_tail in E as [E1 _]. Qed.

  (* pairwise different resolvable names: at most two per entry of the tree *)
  Lemma resolvable_bound l : NoDup l -> Forall resolvable l -> length l <= 2 * length t.
  Proof.
    intros Hn Hr. rewrite (filter_split_length by_yaml l).
    assert (B1 : length (filter by_yaml l) <= length t).
    { rewrite <- (map_length yaml_path), <- (map_length fst t). apply NoDup_incl_length.
      - apply NoDup_map_inj_on; [|now apply NoDup_filter'].
        intros x y Hx Hy. apply filter_In in Hx as [Hx _]. apply filter_In in Hy as [Hy _].
        rewrite Forall_forall in Hr. apply yaml_path_inj; [apply (resolvable_cases x) | apply (resolvable_cases y)]; auto.
      - intros p Hp. apply in_map_iff in Hp as [n [<- Hin]]. apply filter_In in Hin as [Hin Hy].
        rewrite Forall_forall in Hr. destruct (resolvable_cases n (Hr _ Hin)) as [_ Hc]. now rewrite Hy in Hc. }
    assert (B2 : length (filter (fun x => negb (by_yaml x)) l) <= length t).
    { rewrite <- (map_length init_path), <- (map_length fst t). apply NoDup_incl_length.
      - apply NoDup_map_inj_on; [|now apply NoDup_filter']. intros x y _ _. apply init_path_inj.
      - intros p Hp. apply in_map_iff in Hp as [n [<- Hin]]. apply filter_In in Hin as [Hin Hy].
        rewrite Forall_forall in Hr. destruct (resolvable_cases n (Hr _ Hin)) as [_ Hc].
        destruct (by_yaml n); [discriminate | assumption]. }
    lia.
  Qed.

  Definition noof {A} (r : res A) : Prop := r <> Err OutOfFuel.
  Ltac carry X := let Eq := fresh "Eq" in intros Eq; apply X; injection Eq as ->; reflexivity.
  Definition pinv (parents : list name) : Prop :=
    NoDup parents /\ exists pre rest, parents = pre ++ rest /\ length pre <= 1 /\ Forall resolvable rest.

  Lemma pinv_bound parents : pinv parents -> length parents <= 2 * length t + 1.
  Proof.
    intros (Hnd & pre & rest & -> & Hp & Hres). rewrite app_length.
    pose proof (resolvable_bound rest (NoDup_app_tail _ _ Hnd) Hres). lia.
  Qed.
  Lemma pinv_snoc parents n : pinv parents -> ~ In n parents -> resolvable n -> pinv (parents ++ [n]).
  Proof.
    intros (Hnd & pre & rest & -> & Hp & Hres) Hn Hr. split; [now apply NoDup_app_snoc|].
    exists pre, (rest ++ [n]). split; [now rewrite app_assoc|]. split; [assumption|].
    apply Forall_app. split; [assumption | constructor; [assumption | constructor]].
  Qed.

  Lemma wrap_rt_noof {A B} (r : res A) (f : A -> res B) : (forall a, noof (f a)) -> noof (bind (wrap_rt r) f).
  Proof. intros Hf. destruct r; cbn [wrap_rt bind]; [apply Hf | discriminate]. Qed.

  Lemma map_res_resolve_rel_noof rn items : noof (map_res (resolve_rel rn) items).
  Proof.
    induction items as [|x r IH]; cbn [map_res]; [discriminate|].
    assert (R : forall y, resolve_rel rn x = Err y -> y <> OutOfFuel).
    { unfold resolve_rel. intros y. destruct (negb (truthy x)); [congruence|].
      destruct x; try congruence. destruct s as [|c s']; [congruence|]. destruct (c =? DOT)%N; [|congruence].
      assert (S : forall inc par z, strip_dots inc par = Err z -> z = RuntimeError).
      { induction inc as [|h r0 IHs]; intros par z; cbn [strip_dots]; [congruence|]. destruct h; [|congruence].
        destruct par; [congruence | apply IHs]. }
      destruct (strip_dots (split_dots (c :: s')) rn) as [[a b]|z] eqn:Es; cbn [bind fst snd].
      - destruct a; congruence.
      - apply S in Es. congruence. }
    destruct (resolve_rel rn x) as [n|y] eqn:E; cbn [bind].
    - destruct (map_res (resolve_rel rn) r); cbn [bind]; [discriminate | exact IH].
    - intros Eq. injection Eq as ->. now apply (R OutOfFuel).
  Qed.

  Lemma resolve_noof n : noof (resolve n).
  Proof.
    unfold Target.resolve. destruct (forallb seg_ok n && negb (is_nil n)); [|discriminate].
    destruct (fs_kind t (removelast n ++ [last n [] ++ suffix C])); try discriminate;
      destruct (fs_kind t (n ++ [s_init ++ suffix C])); discriminate.
  Qed.

  Lemma resolve_all_noof fl : Forall noof fl -> noof (resolve_all C t fl).
  Proof.
    induction 1 as [|rn r Hrn Hr IH]; cbn [resolve_all]; [discriminate|].
    destruct rn as [n|x]; cbn [bind]; [|carry Hrn].
    pose proof (resolve_noof n) as Rn. destruct (resolve n) as [q|x]; cbn [bind]; [|carry Rn].
    destruct (resolve_all C t r); cbn [bind]; [discriminate | carry IH].
  Qed.

  Lemma expand_noof : forall fuel parents fl, pinv parents -> Forall noof fl ->
    length parents + fuel >= 2 * length t + 2 -> noof (expand_spec fuel parents fl).
  Proof.
    induction fuel as [|f IH]; intros parents fl Hpi Hfl Hlen.
    - exfalso. pose proof (pinv_bound parents Hpi). lia.
    - cbn [Target.expand_spec].
      pose proof (resolve_all_noof fl Hfl) as Ra.
      destruct (resolve_all C t fl) as [qs|x] eqn:Er; cbn [bind]; [|carry Ra].
      assert (Hq : Forall (fun q => resolvable (fst (fst q))) qs).
      { clear -Er. revert qs Er. induction fl as [|rn r IHf]; intros qs Er; cbn [resolve_all] in Er.
        - injection Er as <-. constructor.
        - destruct rn as [n|x]; cbn [bind] in Er; [|discriminate].
          destruct (resolve n) as [[rn' p]|x] eqn:En; cbn [bind] in Er; [|discriminate].
          destruct (resolve_all C t r) as [r'|x]; cbn [bind] in Er; [|discriminate].
          injection Er as <-. constructor; [now exists rn', p | now apply IHf]. }
      clear Er Ra. induction Hq as [|[[n rn] p] qs' Hq1 _ IHq]; cbn [sfile_list]; [discriminate|].
      assert (S1 : noof (sfile V C H render_o yload t (expand_spec f) parents (n, rn, p))).
      { unfold Target.sfile. destruct (existsb (name_eqb n) parents) eqn:Ex; [discriminate|].
        unfold Target.spec_load.
        destruct (render_path C render_o t p) as [text|x]; cbn [wrap_rt bind]; [|discriminate].
        destruct (yload text) as [d|x] eqn:Ey; cbn [wrap_rt bind]; [|discriminate].
        - destruct d; try discriminate. cbn [bind]. destruct (split_spec d) as [[b inc] a]. cbn [bind].
          assert (M : noof (match inc with
                            | Some iv => if truthy iv then
                                bind (iter_val iv) (fun items => bind (map_res (resolve_rel rn) items) (fun names =>
                                  expand_spec f (parents ++ [n]) (map Ok names))) else Ok []
                            | None => Ok [] end)).
          { destruct inc as [iv|]; [|discriminate]. destruct (truthy iv); [|discriminate].
            destruct (iter_val iv) as [items|x] eqn:Ei; cbn [bind].
            - pose proof (map_res_resolve_rel_noof rn items) as Mr.
              destruct (map_res (resolve_rel rn) items) as [names|x]; cbn [bind]; [|carry Mr].
              apply IH.
              + apply pinv_snoc; [assumption| |exact Hq1]. intros Hin.
                assert (existsb (name_eqb n) parents = true); [|congruence].
                apply existsb_exists. exists n. split; [assumption | apply name_eqb_refl].
              + apply Forall_forall. intros r Hr. apply in_map_iff in Hr as [x [<- _]]. discriminate.
              + rewrite app_length. cbn [length] in *. lia.
            - destruct iv; cbn in Ei; congruence. }
          destruct (match inc with Some iv => _ | None => _ end); cbn [bind]; [discriminate | carry M]. }
      destruct (sfile V C H render_o yload t (expand_spec f) parents (n, rn, p)); cbn [bind]; [|carry S1].
      destruct (sfile_list (sfile V C H render_o yload t (expand_spec f)) parents qs'); cbn [bind]; [discriminate | carry IHq].
  Qed.
End Terminates.

(* ------------------------------------------------------------------ relative includes, continued *)
Lemma split_dots_head c s : (c =? DOT)%N = false -> exists h tl, split_dots (c :: s) = (c :: h) :: tl.
Proof.
  intros Ec. cbn [split_dots]. rewrite Ec. destruct (split_dots s) as [|h tl] eqn:E; [now apply split_dots_nonempty in E|].
  now exists h, tl.
Qed.

(* k+1 leading dots followed by a name: k levels above the directory of the including file *)
Theorem resolve_rel_dots k c s rn : (c =? DOT)%N = false ->
  resolve_rel rn (VStr (dots (S k) (c :: s))) =
    match up (S k) rn with
    | Some d => Ok (d ++ split_dots (c :: s))
    | None => Err RuntimeError
    end.
Proof.
  intros Ec. unfold resolve_rel. cbn [dots truthy is_nil negb]. rewrite N.eqb_refl.
  change (DOT :: dots k (c :: s)) with (dots (S k) (c :: s)). rewrite split_dots_dots.
  destruct (split_dots_head c s Ec) as (h & tl & Eh).
  rewrite strip_dots_lead by (rewrite Eh; intros r' E; discriminate).
  destruct (up (S k) rn) as [d|]; cbn [bind fst snd]; [|reflexivity]. now rewrite Eh.
Qed.

(* nothing but dots is always refused *)
Theorem resolve_rel_only_dots k rn : resolve_rel rn (VStr (dots (S k) [])) = Err RuntimeError.
Proof.
  unfold resolve_rel. cbn [dots truthy is_nil negb]. rewrite N.eqb_refl.
  change (DOT :: dots k []) with (dots (S k) []). rewrite split_dots_dots. cbn [split_dots].
  change (repeat [] (S k) ++ [[]]) with (repeat (@nil N) (S k) ++ [[]] ++ []).
  rewrite app_assoc. change (repeat [] (S k) ++ [[]]) with (repeat (@nil N) (S k) ++ repeat [] 1).
  rewrite <- repeat_app. rewrite strip_dots_lead by (intros r' E; discriminate).
  destruct (up (S k + 1) rn); reflexivity.
Qed.

Lemma removelast_snoc {A} (l : list A) x : removelast (l ++ [x]) = l.
Proof. apply removelast_last. Qed.

(* the name used for include resolution, minus its last segment, is the directory that holds the file *)
Theorem resolve_directory C t n rn p : resolve C t n = Ok (rn, p) -> removelast rn = removelast p.
Proof.
  unfold resolve. destruct (forallb (seg_ok) n && negb (is_nil n)); [|discriminate].
  destruct (fs_kind t (removelast n ++ [last n [] ++ suffix C])); try discriminate;
    try (intros E; injection E as <- <-; now rewrite removelast_snoc);
    (destruct (fs_kind t (n ++ [s_init ++ suffix C])); try discriminate; intros E; injection E as <- <-; now rewrite !removelast_snoc).
Qed.

Lemma up_S k rn : rn <> [] -> up (S k) rn = up k (removelast rn).
Proof. destruct rn; [congruence | reflexivity]. Qed.
