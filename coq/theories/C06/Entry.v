(* C06: case/observation types, run_model, the executable checker [holds], sx entry point. *)
From Coq Require Import String.
From Coq Require Import List NArith ZArith Bool Arith.
From VF Require Import Base.Sx FileH.Str FileH.Unquote FileH.Handler FileH.Spec FileH.Codec.
Import ListNotations.
Open Scope N_scope.

Record case := {
  k_tftp : bool;
  k_old2f : bool;               (* variant before commit da63d9a *)
  k_cfg : config;
  k_tpre : str; k_tsuf : str;   (* lookup_value_transform = add_prefix tpre, add_suffix tsuf *)
  k_ttable : option (list (str * bool * str));
                                (* Some t: the chain may return non-str values; it is an oracle given as a table
                                   raw value -> (true, tagged result "int:12", "list:['a', 'b']", "s:text")
                                   or (false, _) when the chain raises for that value *)
  k_fs : list fs_row;           (* find_system table *)
  k_gdraise : list str;         (* ids for which get_data raises an Exception subclass *)
  k_gdraise_base : list str;    (* ids for which get_data raises a BaseException subclass *)
  k_gdempty : list str;         (* ids whose data is the empty tree {} *)
  k_files : list str;           (* regular files that exist *)
  k_uri : str
}.

(* what the template saw: sorted context keys (without globals), id, data tag, request_info.uri *)
Definition tcobs := (list str * option str * option str * str)%type.
(* h_served: which file was served (its path), for a content result *)
Record hobs := { h_calls : list call; h_class : N; h_tc : option tcobs; h_served : option str }.
Record pobs := { p_norm : str; p_ctx : ctx; p_handle : option hobs }.
Record obs := { o_init : bool; o_ctx : ctx; o_can : bool; o_handle : option hobs; o_parity : option pobs;
                o_decoded : str (* unquote of the path part; correspondence only *) }.

Definition class_of (r : result) : N :=
  match r with RNotFound => 0 | RForbidden => 1 | RError => 2 | RContent _ _ => 3 end.

Definition K_DATA := bytes_of_string "data".
Definition K_ID := bytes_of_string "id".
Definition K_RI := bytes_of_string "request_info".
Definition keys_of (tc : tcontext) : list str :=
  (match t_data tc with Some _ => [K_DATA] | None => [] end) ++
  (match t_id tc with Some _ => [K_ID] | None => [] end) ++ [K_RI].

(* Every value that reaches the data source or the template is compared as a tagged string
   "<type name>:<repr>" ("s:<text>" for str), so that 12 and "12" differ. *)
Definition TAG_S : str := bytes_of_string "s:".
Definition TAG_MISSING : str := bytes_of_string "?no-oracle-answer".
Fixpoint assoc_str (t : list (str * bool * str)) (v : str) : option (bool * str) :=
  match t with
  | [] => None
  | (a, ok, b) :: r => if eqb_str v a then Some (ok, b) else assoc_str r v
  end.
Definition transform_of (k : case) (v : str) : option str :=
  match k_ttable k with
  | None => Some (TAG_S ++ k_tpre k ++ v ++ k_tsuf k)
  | Some t => match assoc_str t v with
              | Some (true, b) => Some b
              | Some (false, _) => None
              | None => Some TAG_MISSING
              end
  end.
Definition fs_of (k : case) (p : str) : fsr :=
  if existsb (eqb_str p) (k_files k) then FsOpened [] else FsENOENT.

Definition run_handle (k : case) (r : rp) (x : ctx) (req_uri : str) : hobs :=
  let '(log, opened, res) := handle false (transform_of k) (table_find_system (k_fs k))
                               (table_get_data (k_gdraise k) (k_gdraise_base k) (k_gdempty k)) (fs_of k) (k_cfg k) r x in
  {| h_calls := log; h_class := class_of res;
     h_tc := match res with
             | RContent _ (Some tc) => Some (keys_of tc, t_id tc, t_data tc, req_uri)
             | _ => None
             end;
     h_served := match res, opened with RContent _ _, p :: _ => Some p | _, _ => None end |}.

(* The context object that prepare_context returns is opaque in the public API (it is only handed back to can_handle and
   handle).  Observed is the decision (can_handle) - the extracted lookup value shows in the data-source calls, the extra
   path in which file is served. *)
Definition proj_ctx (x : ctx) : ctx := {| matches := matches x; raw_value := None; extra_path := None |}.

Definition handle_if (k : case) (r : rp) (x : ctx) (req_uri : str) : option hobs :=
  if matches x then Some (run_handle k r x req_uri) else None.

Definition obs_fail (k : case) : obs :=
  {| o_init := false; o_ctx := no_match; o_can := false; o_handle := None; o_parity := None;
     o_decoded := uri_path (k_uri k) |}.

Definition run_model (k : case) : obs :=
  match handler_init (k_tftp k) (k_cfg k) with
  | Exc _ => obs_fail k
  | Ok r =>
      let u := if k_tftp k then rewrite_filename (k_old2f k) (k_uri k) else k_uri k in
      let x := prepare_context (k_cfg k) r u in
      {| o_init := true; o_ctx := proj_ctx x; o_can := matches x; o_handle := handle_if k r x u;
         o_parity :=
           if k_tftp k then
             match handler_init false (k_cfg k) with
             | Exc _ => None
             | Ok rh =>
                 let nf := norm_name (k_uri k) in
                 let xh := http_prepare (k_cfg k) rh nf in
                 Some {| p_norm := nf; p_ctx := proj_ctx xh; p_handle := handle_if k rh xh nf |}
             end
           else None;
         o_decoded := uri_path (k_uri k) |}
  end.

(* ---- equality tests ---- *)
Definition tcobs_eqb (a b : tcobs) : bool :=
  let '(ka, ia, da, ua) := a in let '(kb, ib, db, ub) := b in
  list_eqb eqb_str ka kb && opt_str_eqb ia ib && opt_str_eqb da db && eqb_str ua ub.
Definition hobs_eqb (a b : hobs) : bool :=
  list_eqb call_eqb (h_calls a) (h_calls b) && (h_class a =? h_class b) &&
  opt_str_eqb (h_served a) (h_served b) &&
  match h_tc a, h_tc b with
  | None, None => true
  | Some x, Some y => tcobs_eqb x y
  | _, _ => false
  end.
Definition ohobs_eqb (a b : option hobs) : bool :=
  match a, b with None, None => true | Some x, Some y => hobs_eqb x y | _, _ => false end.

Definition is_ok {A} (r : res A) : bool := match r with Ok _ => true | Exc _ => false end.

(* failed clauses of the property on observation o ([] = holds) *)
Definition holds (k : case) (o : obs) : list string :=
  match handler_init (k_tftp k) (k_cfg k) with
  | Exc _ => if o_init o then ["init_accepts"%string] else []
  | Ok r =>
      if negb (o_init o) then ["init_accepts"%string] else
      let eff := if k_tftp k then norm_name (k_uri k) else k_uri k in
      let sx := spec_ctx (k_cfg k) r eff in
      (if ctx_eqb (o_ctx o) (proj_ctx sx) then [] else ["match_spec"%string]) ++
      (if Bool.eqb (o_can o) (matches (o_ctx o)) then [] else ["can_handle"%string]) ++
      (if ohobs_eqb (o_handle o) (handle_if k r sx eff) then [] else ["lookup_exact"%string]) ++
      (if k_tftp k then
         match o_parity o with
         | None => ["tftp_http_parity"%string]
         | Some p =>
             if eqb_str (p_norm p) (norm_name (k_uri k)) && ctx_eqb (o_ctx o) (p_ctx p)
                && ohobs_eqb (o_handle o) (p_handle p)
             then [] else ["tftp_http_parity"%string]
         end
       else [])
  end.

Definition valid (k : case) : Prop := k_old2f k = false.
(* [valid] as a boolean (C06.Props.C06_validb_valid): the only hypothesis of C06_holds is the current variant *)
Definition validb (k : case) : bool := negb (k_old2f k).

(* ---- sx ---- *)
Definition sxTc (t : option tcobs) : sx :=
  match t with
  | None => L []
  | Some (ks, i, d, u) => L [L (map sxStr ks); sxOpt i; sxOpt d; sxStr u]
  end.
Definition asTc (x : sx) : option (option tcobs) :=
  match x with
  | L [] => Some None
  | L [L ks; i; d; u] =>
      obind (omap asStr ks) (fun ks => obind (asOpt i) (fun i => obind (asOpt d) (fun d =>
      obind (asStr u) (fun u => Some (Some (ks, i, d, u))))))
  | _ => None
  end.
Definition sxH (h : hobs) : sx :=
  L [L (map sxCall (h_calls h)); sxN (h_class h); sxTc (h_tc h); sxOpt (h_served h)].
Definition asH (x : sx) : option hobs :=
  match x with
  | L [L cs; cl; tc; sv] =>
      obind (omap asCall cs) (fun cs => obind (asN cl) (fun cl => obind (asTc tc) (fun tc =>
      obind (asOpt sv) (fun sv => Some {| h_calls := cs; h_class := cl; h_tc := tc; h_served := sv |}))))
  | _ => None
  end.
Definition sxOH (h : option hobs) : sx := match h with None => L [] | Some h => L [sxH h] end.
Definition asOH (x : sx) : option (option hobs) :=
  match x with
  | L [] => Some None
  | L [y] => obind (asH y) (fun h => Some (Some h))
  | _ => None
  end.
Definition sxP (p : option pobs) : sx :=
  match p with
  | None => L []
  | Some p => L [sxStr (p_norm p); sxCtx (p_ctx p); sxOH (p_handle p)]
  end.
Definition asP (x : sx) : option (option pobs) :=
  match x with
  | L [] => Some None
  | L [n; cx; h] =>
      obind (asStr n) (fun n => obind (asCtx cx) (fun cx => obind (asOH h) (fun h =>
      Some (Some {| p_norm := n; p_ctx := cx; p_handle := h |}))))
  | _ => None
  end.
Definition sxObs (o : obs) : sx :=
  L [sxBool (o_init o); sxCtx (o_ctx o); sxBool (o_can o); sxOH (o_handle o); sxP (o_parity o);
     sxStr (o_decoded o)].
Definition asObs (x : sx) : option obs :=
  match x with
  | L [i; cx; cn; h; p; d] =>
      obind (asBool i) (fun i => obind (asCtx cx) (fun cx => obind (asBool cn) (fun cn =>
      obind (asOH h) (fun h => obind (asP p) (fun p => obind (asStr d) (fun d =>
      Some {| o_init := i; o_ctx := cx; o_can := cn; o_handle := h; o_parity := p; o_decoded := d |}))))))
  | _ => None
  end.

Definition decode_pair (x : sx) : option (str * bool * str) :=
  match x with
  | L [a; ok; b] => obind (asStr a) (fun a => obind (asBool ok) (fun ok => obind (asStr b) (fun b => Some (a, ok, b))))
  | _ => None
  end.
(* () = string chain (prefix/suffix), ((raw tagged) ...) wrapped in a one-element list = oracle table *)
Definition decode_ttable (x : sx) : option (option (list (str * bool * str))) :=
  match x with
  | L [] => Some None
  | L [L rows] => obind (omap decode_pair rows) (fun rows => Some (Some rows))
  | _ => None
  end.

Definition decode (x : sx) : option (case * obs) :=
  match x with
  | L [tf; o2; cfg; B tpre; B tsuf; ttb; L fst; L gdr; L gdb; L gde; L files; B uri; io] =>
      obind (asBool tf) (fun tf => obind (asBool o2) (fun o2 => obind (decode_config cfg) (fun cfg =>
      obind (decode_ttable ttb) (fun ttb =>
      obind (omap decode_fs_row fst) (fun fst => obind (omap asStr gdr) (fun gdr => obind (omap asStr gdb) (fun gdb => obind (omap asStr gde) (fun gde =>
      obind (omap asB files) (fun files => obind (asObs io) (fun io =>
      Some ({| k_tftp := tf; k_old2f := o2; k_cfg := cfg; k_tpre := tpre; k_tsuf := tsuf; k_ttable := ttb;
               k_fs := fst; k_gdraise := gdr; k_gdraise_base := gdb; k_gdempty := gde; k_files := files; k_uri := uri |},
            io)))))))))))
  | _ => None
  end.

Definition entry (x : sx) : sx :=
  match decode x with
  | None => sxS "bad-case"
  | Some (k, io) =>
      let m := run_model k in
      (* 6th item: the lookup value the matching rule extracts (the harness asks the real transformation chain for
         exactly that value when the chain is an oracle table) *)
      let eff := if k_tftp k then norm_name (k_uri k) else k_uri k in
      let raws := match handler_init (k_tftp k) (k_cfg k) with
                  | Ok r => match raw_value (spec_ctx (k_cfg k) r eff) with Some v => [v] | None => [] end
                  | Exc _ => []
                  end in
      L [ sxObs m; L (map sxS (holds k m)); L (map sxS (holds k io)); L []; sxBool (validb k); L (map sxStr raws) ]
  end.
