(* Strings as lists of code points, with the few Python str operations the file
   request handler uses: ==, startswith, endswith, `in`, split/join on one
   character, find, slicing.  Definitions only; lemmas are in StrProofs.v. *)
From Coq Require Import List NArith Bool Arith.
Import ListNotations.
Open Scope N_scope.

Definition str := list N.

Fixpoint eqb_str (a b : str) : bool :=
  match a, b with
  | [], [] => true
  | x :: a', y :: b' => (x =? y) && eqb_str a' b'
  | _, _ => false
  end.

Fixpoint starts_with (p s : str) : bool :=
  match p with
  | [] => true
  | x :: p' => match s with [] => false | y :: s' => (x =? y) && starts_with p' s' end
  end.

(* s.endswith(p); rev_append is the linear-time reversal (List.rev is quadratic) *)
Definition ends_with (p s : str) : bool := starts_with (rev_append p []) (rev_append s []).

Definition is_nil {A} (l : list A) : bool := match l with [] => true | _ => false end.

(* index of the first occurrence of p in s (str.find); p = "" is found at 0 *)
Fixpoint find_sub (p s : str) : option nat :=
  if starts_with p s then Some 0%nat
  else match s with
       | [] => None
       | _ :: r => option_map S (find_sub p r)
       end.

Definition contains (p s : str) : bool :=
  match find_sub p s with Some _ => true | None => false end.

Definition mem_N (c : N) (s : str) : bool := existsb (N.eqb c) s.

(* s.split(c) for a one-character separator *)
Fixpoint split_on (c : N) (s : str) : list str :=
  match s with
  | [] => [[]]
  | x :: r =>
      if x =? c then [] :: split_on c r
      else match split_on c r with
           | seg :: segs => (x :: seg) :: segs
           | [] => [[x]]
           end
  end.

(* c.join(segs) *)
Fixpoint join (c : N) (segs : list str) : str :=
  match segs with
  | [] => []
  | a :: r => match r with [] => a | _ => a ++ c :: join c r end
  end.

(* s.partition(c)[0] *)
Fixpoint take_until (c : N) (s : str) : str :=
  match s with
  | [] => []
  | x :: r => if x =? c then [] else x :: take_until c r
  end.

Definition list_str_eqb (a b : list str) : bool :=
  (length a =? length b)%nat && forallb (fun p => eqb_str (fst p) (snd p)) (combine a b).

(* characters used below *)
Definition SL : N := 47.      (* / *)
Definition DOT : N := 46.     (* . *)
Definition PCT : N := 37.     (* % *)
Definition QM : N := 63.      (* ? *)
