(* Model of the request port of vinegar/tftp/server.py:
   TftpServer._process_request / _process_read_request / _process_write_request /
   _process_invalid_request, with the catch-all of TftpServer._run.
   Every primitive that can raise in Python is modelled with its exception:
   struct.unpack_from on short data (struct.error), Opcode(n) (ValueError),
   decode_read_request (ValueError), the constructor of _TftpReadRequest
   (ValueError for a mode that is neither netascii nor octet).
   Request handlers are abstracted to predicates on the decoded filename
   (can_handle); handler code that raises is outside this model.
   Fault dimension: socket.sendto of a reply fails with OSError when the requester's address
   cannot be sent to (source port 0: Linux delivers such datagrams but sendto() to port 0 is
   EINVAL); the attempt is recorded, the exception travels to the catch-all of _run.
   The serve loop TftpServer._run is modelled over a list of incoming datagrams (recvfrom
   truncates to MAX_REQUEST_PACKET_SIZE = 512 bytes).
   Definitions only. *)
From Coq Require Import String.
From Coq Require Import List NArith ZArith Bool.
From VF Require Import Base.Sx Tftp.Codec Tftp.NegSpec Tftp.Transfer.
Import ListNotations.
Open Scope N_scope.

(* what the port does: datagrams sent from the server socket to the requester, transfers started *)
Inductive action :=
| ASendError (code : N)  (* sendto(error_packet(code, ...), requester) was called *)
| AStart (fn : str) (m : mode) (opts : list (str * str)) (handler_index : nat)
| ALogExc                (* logger.exception in the catch-all of _run *)
| ABad (raw : str)       (* observation only: a datagram that is no well-formed ERROR for the requester *)
| ADead.                 (* observation only: the server did not answer the liveness probe that followed *)

Inductive exn := StructError | ValueError | OSError.
(* an exception carries what had been done before it was raised *)
Inductive res (A : Type) := Ok (a : A) | Exc (e : exn) (done : list action).
Arguments Ok {A}. Arguments Exc {A}.
Definition bind {A B} (r : res A) (f : A -> res B) : res B :=
  match r with Ok a => f a | Exc e done => Exc e done end.

(* struct.unpack_from("!H", data) *)
Definition unpack_u16 (d : str) : res N :=
  match d with hi :: lo :: _ => Ok (u16 hi lo) | _ => Exc StructError [] end.

Inductive opcode := OpRRQ | OpWRQ | OpDATA | OpACK | OpERROR | OpOACK.
(* Opcode(n): the enum constructor raises ValueError for a value that is no member *)
Definition opcode_of (n : N) : res opcode :=
  if n =? 1 then Ok OpRRQ else if n =? 2 then Ok OpWRQ else if n =? 3 then Ok OpDATA
  else if n =? 4 then Ok OpACK else if n =? 5 then Ok OpERROR else if n =? 6 then Ok OpOACK
  else Exc ValueError [].

(* protocol.decode_read_request: every failure is a ValueError (Opcode.from_bytes converts
   struct.error, TransferMode.from_str and the shape checks raise ValueError) *)
Definition decode_read_request (d : str) : res (str * mode * list (str * str)) :=
  match decode_rrq d with Some r => Ok r | None => Exc ValueError [] end.

(* request handlers as far as the port is concerned: can_handle(filename, context) *)
Inductive handler := HConst (b : bool) | HPrefix (p : str) | HExact (s : str).
Fixpoint starts_with (p s : str) : bool :=
  match p, s with
  | [], _ => true
  | x :: p', y :: s' => (x =? y) && starts_with p' s'
  | _ :: _, [] => false
  end.
Definition can_handle (h : handler) (fn : str) : bool :=
  match h with HConst b => b | HPrefix p => starts_with p fn | HExact s => str_eqb s fn end.

(* self._socket.sendto(error_packet(code, ...), req_addr): the call is made; it raises OSError
   when the requester's address cannot be sent to *)
Definition send_reply (sendable : bool) (code : N) : res (list action) :=
  if sendable then Ok [ASendError code] else Exc OSError [ASendError code].

(* _TftpReadRequest.__init__ (runs in the request-port thread):
   - raises ValueError for any mode but netascii and octet;
   - validates blksize / timeout with _REGEXP_POSITIVE_INT.fullmatch and only then calls int().
   int() is modelled pessimistically: it raises ValueError on everything but a non-empty string
   of ASCII digits (Python accepts more: surrounding white space, '_', a sign, other digits). *)
Definition regexp_positive_int (s : str) : bool :=
  match s with c :: r => (49 <=? c) && (c <=? 57) && forallb is_digit r | [] => false end.
Definition py_int (s : str) : res N :=
  match s with
  | [] => Exc ValueError []
  | _ => if forallb is_digit s then Ok (digits_value s) else Exc ValueError []
  end.
Definition ctor_option (o : list (str * str)) (name : str) : res unit :=
  match dict_get (lower_keys o) name with
  | Some s => if regexp_positive_int s then bind (py_int s) (fun _ => Ok tt) else Ok tt
  | None => Ok tt
  end.
Definition start_transfer (fn : str) (m : mode) (o : list (str * str)) (i : nat) : res (list action) :=
  match m with
  | Mail => Exc ValueError []
  | _ => bind (ctor_option o (lit "blksize")) (fun _ =>
         bind (ctor_option o (lit "timeout")) (fun _ => Ok [AStart fn m o i]))
  end.

(* for request_handler in self._request_handlers: ... return *)
Fixpoint handler_loop (sendable : bool) (hs : list handler) (i : nat) (fn : str) (m : mode) (o : list (str * str))
  : res (list action) :=
  match hs with
  | [] => send_reply sendable 1                   (* FILE_NOT_FOUND *)
  | h :: r => if can_handle h fn then start_transfer fn m o i else handler_loop sendable r (S i) fn m o
  end.

Definition process_read_request (sendable : bool) (hs : list handler) (d : str) : res (list action) :=
  match decode_read_request d with
  | Exc ValueError _ => send_reply sendable 4     (* except ValueError: ILLEGAL_OPERATION *)
  | Exc e done => Exc e done
  | Ok (fn, m, o) =>
      match m with
      | Mail => send_reply sendable 4
      | _ => handler_loop sendable hs O fn m o
      end
  end.

Definition process_request (sendable : bool) (hs : list handler) (d : str) : res (list action) :=
  if (List.length d <? 2)%nat then Ok [] else
  bind (unpack_u16 d) (fun n =>
  match opcode_of n with
  | Exc ValueError _ => Ok []                     (* except ValueError: unknown opcode ignored *)
  | Exc e done => Exc e done
  | Ok OpRRQ => process_read_request sendable hs d
  | Ok OpWRQ => send_reply sendable 2             (* ACCESS_VIOLATION *)
  | Ok _ => send_reply sendable 4                 (* ILLEGAL_OPERATION *)
  end).

(* one iteration of TftpServer._run: `except Exception: logger.exception(...)`, then the loop goes on *)
Definition serve_one (sendable : bool) (hs : list handler) (d : str) : list action :=
  match process_request sendable hs d with Ok a => a | Exc _ done => done ++ [ALogExc] end.

(* TftpServer._run over the datagrams that arrive: (requester can be replied to, datagram).
   [break_on_oserror] is NOT what the code does; it is the behaviour of a loop that treats an
   OSError from anywhere in the iteration as a dead server socket. *)
Definition MAX_REQUEST_PACKET_SIZE : nat := 512.
Fixpoint run_loop (break_on_oserror : bool) (hs : list handler) (reqs : list (bool * str)) : list (list action) :=
  match reqs with
  | [] => []
  | (sendable, d) :: r =>
      let d' := firstn MAX_REQUEST_PACKET_SIZE d in
      match process_request sendable hs d' with
      | Ok a => a :: run_loop break_on_oserror hs r
      | Exc OSError done => if break_on_oserror then [done ++ [ALogExc]]
                            else (done ++ [ALogExc]) :: run_loop break_on_oserror hs r
      | Exc _ done => (done ++ [ALogExc]) :: run_loop break_on_oserror hs r
      end
  end.

(* ---------- specification of the port (property C09, first sentence) ---------- *)
Fixpoint first_accepting (hs : list handler) (i : nat) (fn : str) : option nat :=
  match hs with
  | [] => None
  | h :: r => if can_handle h fn then Some i else first_accepting r (S i) fn
  end.

Definition port_spec (hs : list handler) (d : str) : list action :=
  match d with
  | hi :: lo :: _ =>
      let op := u16 hi lo in
      if op =? 1 then
        match decode_rrq d with
        | None => [ASendError 4]
        | Some (fn, Mail, _) => [ASendError 4]
        | Some (fn, m, o) => match first_accepting hs O fn with
                             | Some i => [AStart fn m o i]
                             | None => [ASendError 1]
                             end
        end
      else if op =? 2 then [ASendError 2]
      else if (3 <=? op) && (op <=? 6) then [ASendError 4]
      else []
  | _ => []
  end.

(* executable checker for an observed reaction *)
Definition mode_num (m : mode) : N := match m with Netascii => 1 | Octet => 2 | Mail => 3 end.
Fixpoint opts_eqb (a b : list (str * str)) : bool :=
  match a, b with
  | [], [] => true
  | (k, x) :: a', (k', x') :: b' => str_eqb k k' && str_eqb x x' && opts_eqb a' b'
  | _, _ => false
  end.
Definition action_eqb (a b : action) : bool :=
  match a, b with
  | ASendError c, ASendError c' => c =? c'
  | AStart f m o i, AStart f' m' o' i' => str_eqb f f' && (mode_num m =? mode_num m') && opts_eqb o o' && Nat.eqb i i'
  | ALogExc, ALogExc => true
  | ABad r, ABad r' => str_eqb r r'
  | ADead, ADead => true
  | _, _ => false
  end.
Fixpoint actions_eqb (a b : list action) : bool :=
  match a, b with
  | [], [] => true
  | x :: a', y :: b' => action_eqb x y && actions_eqb a' b'
  | _, _ => false
  end.

Definition is_log (a : action) : bool := match a with ALogExc => true | _ => false end.
Definition is_send (a : action) : bool := match a with ASendError _ => true | _ => false end.

(* The property: at most one reaction as specified, the reply (if any) sent, no exception logged,
   the server keeps serving.  When the reply cannot be sent (sendable = false) the specified
   reaction is still that the one reply is attempted; an exception logged directly after that
   attempt is reported under a clause of its own, any other logged exception as
   internal_error_path. *)
Definition is_dead (a : action) : bool := match a with ADead => true | _ => false end.
Definition port_holds (sendable : bool) (hs : list handler) (d : str) (obs : list action) : list string :=
  let spec := port_spec hs d in
  let seen := filter (fun a => negb (is_dead a)) obs in           (* without the liveness verdict *)
  let core := filter (fun a => negb (is_log a)) seen in           (* ... and without the log records *)
  let unsendable_shape :=
    negb sendable && existsb is_send spec && actions_eqb seen (spec ++ [ALogExc]) in
  (if existsb is_log obs
   then if unsendable_shape then ["C09:port_reply_unsendable_logged"%string]
        else ["C09:internal_error_path"%string]
   else []) ++
  (if existsb is_dead obs then ["C09:port_stops_serving"%string] else []) ++
  (if (2 <=? List.length core)%nat then ["C09:port_more_than_one_reaction"%string] else []) ++
  (if actions_eqb core spec then [] else ["C09:port_reaction"%string]).
