(* General facts about the matcher parser: consumed input never grows, the fuel of [parse] is
   sufficient, results are monotone in the fuel, and the only failures are ParseErr unless the
   compile oracle raises something else. *)
From Coq Require Import String.
From Coq Require Import List NArith Bool Arith Lia.
From VF Require Import Matcher.Model.
Import ListNotations.

Lemma bind_ok {A B} (r : res A) (f : A -> res B) x :
  bind r f = Ok x -> exists a, r = Ok a /\ f a = Ok x.
Proof. destruct r as [a|e]; cbn; [eauto|discriminate]. Qed.

Lemma bind_er {A B} (r : res A) (f : A -> res B) e :
  bind r f = Er e -> r = Er e \/ exists a, r = Ok a /\ f a = Er e.
Proof. destruct r as [a|e']; cbn; [eauto|]. intros [= ->]. now left. Qed.

(* ---------- small string facts ---------- *)
Lemma starts_inv k : forall s r, starts k s = Some r -> s = k ++ r.
Proof.
  induction k as [|c k IH]; intros [|d s] r; cbn; try congruence.
  destruct (c =? d)%N eqn:E; [|congruence]. apply N.eqb_eq in E as ->. intros H. f_equal. now apply IH.
Qed.

Lemma starts_app k r : starts k (k ++ r) = Some r.
Proof. induction k as [|c k IH]; cbn; [reflexivity|]. now rewrite N.eqb_refl. Qed.

Lemma skip_ws_len s : forall prev pv r, skip_ws prev s = (pv, r) -> (length r <= length s)%nat.
Proof.
  induction s as [|c s IH]; intros prev pv r; cbn.
  - intros [= <- <-]. cbn. lia.
  - destruct (is_space c).
    + intros H. apply IH in H. lia.
    + intros [= <- <-]. cbn. lia.
Qed.

Lemma find_kw_inv ks : forall s k r, find_kw ks s = Some (k, r) -> s = kw_str k ++ r /\ boundary_after r = true.
Proof.
  induction ks as [|k0 ks IH]; intros s k r; cbn [find_kw]; [discriminate|].
  destruct (starts (kw_str k0) s) as [r0|] eqn:E.
  - destruct (boundary_after r0) eqn:Eb.
    + intros [= <- <-]. split; [now apply starts_inv|exact Eb].
    + apply IH.
  - apply IH.
Qed.

Lemma kw_len k : (2 <= length (kw_str k))%nat.
Proof. destruct k; cbn; lia. Qed.

Lemma peek_kw_len ks prev s k r : peek_kw ks prev s = PSome k r -> (length r + 2 <= length s)%nat.
Proof.
  unfold peek_kw. destruct (find_kw ks s) as [[k' r']|] eqn:E; [|discriminate].
  destruct (prev_ok prev); [|discriminate]. intros [= <- <-].
  apply find_kw_inv in E as [-> _]. rewrite app_length. pose proof (kw_len k'). lia.
Qed.

Lemma lex_quoted_len q : forall s v t, lex_quoted q s = Some (v, t) -> (length t < length s)%nat.
Proof.
  fix IH 1. intros [|c r] v t; cbn [lex_quoted]; [discriminate|].
  destruct (c =? BS)%N.
  - destruct r as [|d r']; [discriminate|].
    destruct ((d =? q) || (d =? BS))%N; [|discriminate].
    destruct (lex_quoted q r') as [[v' t']|] eqn:E; [|discriminate].
    intros [= <- <-]. apply IH in E. cbn. lia.
  - destruct (c =? q)%N.
    + intros [= <- <-]. cbn. lia.
    + destruct (lex_quoted q r) as [[v' t']|] eqn:E; [|discriminate].
      intros [= <- <-]. apply IH in E. cbn. lia.
Qed.

Lemma lex_unquoted_len : forall s p t, lex_unquoted s = (p, t) -> (length t <= length s)%nat.
Proof.
  induction s as [|c r IH]; intros p t; cbn [lex_unquoted].
  - intros [= <- <-]. cbn. lia.
  - destruct (reserved c).
    + intros [= <- <-]. cbn. lia.
    + destruct (lex_unquoted r) as [p' t'] eqn:E. intros [= <- <-]. specialize (IH _ _ eq_refl). cbn. lia.
Qed.

Lemma lex_pattern_len s p l t : lex_pattern s = Ok (p, l, t) -> (length t <= length s)%nat.
Proof.
  unfold lex_pattern. destruct s as [|c r]; [discriminate|].
  destruct (is_quote c).
  - destruct (lex_quoted c r) as [[v t']|] eqn:E; [|discriminate].
    intros [= <- <- <-]. apply lex_quoted_len in E. cbn. lia.
  - destruct (lex_unquoted (c :: r)) as [p' t'] eqn:E.
    destruct (rev p'); [discriminate|]. intros [= <- <- <-]. now apply lex_unquoted_len in E.
Qed.

Lemma lex_key_len s k t : lex_key s = Ok (k, t) -> (length t <= length s)%nat.
Proof.
  unfold lex_key. destruct s as [|c r]; [discriminate|].
  destruct (is_quote c).
  - destruct (lex_quoted c r) as [[v t']|] eqn:E; [|discriminate].
    destruct v; [discriminate|]. intros [= <- <-]. apply lex_quoted_len in E. cbn. lia.
  - destruct (lex_unquoted (c :: r)) as [p' t'] eqn:E.
    destruct p'; [discriminate|]. intros [= <- <-]. now apply lex_unquoted_len in E.
Qed.

Lemma expect_len c s r : expect c s = Ok r -> (length r < length s)%nat.
Proof.
  unfold expect. destruct s as [|d t]; [discriminate|]. destruct (d =? c)%N; [|discriminate].
  intros [= <-]. cbn. lia.
Qed.

Lemma first_prefix_len ps : forall s info r, first_prefix ps s = Some (info, r) -> (length r <= length s)%nat.
Proof.
  induction ps as [|[p i] ps IH]; intros s info r; cbn [first_prefix]; [discriminate|].
  destruct (starts p s) as [r0|] eqn:E.
  - intros [= <- <-]. apply starts_inv in E as ->. rewrite app_length. lia.
  - apply IH.
Qed.

Section Facts.
  Variable V : variants.
  Variable compile : atom -> cres.

  Lemma compile_qualified_ok a b : compile_qualified V compile a = Ok b -> b = a.
  Proof. unfold compile_qualified. destruct (compile a); try discriminate.
    - now intros [= <-].
    - destruct (overflow_escapes V); discriminate. Qed.
  Lemma compile_unqualified_ok a b : compile_unqualified compile a = Ok b -> b = a.
  Proof. unfold compile_unqualified. destruct (compile a); try discriminate. now intros [= <-]. Qed.

  Lemma simple_len s a l r : simple V compile s = Ok (a, l, r) -> (length r <= length s)%nat.
  Proof.
    unfold simple. destruct (first_prefix prefixes s) as [[[[isdata ty] opts] r0]|] eqn:Ep.
    - apply first_prefix_len in Ep. intros H.
      apply bind_ok in H as ([cs r2] & H1 & H).
      assert (L2 : (length r2 <= length r0)%nat).
      { destruct opts.
        - destruct r0 as [|c r'].
          + apply bind_ok in H1 as (x & Hx & _). discriminate.
          + destruct (c =? 105)%N; apply bind_ok in H1 as (x & Hx & [= _ <-]); apply expect_len in Hx; cbn in *; lia.
        - injection H1 as _ <-. lia. }
      destruct isdata.
      + apply bind_ok in H as ([k r3] & Hk & H). apply lex_key_len in Hk.
        apply bind_ok in H as (r4 & H4 & H). apply expect_len in H4.
        apply bind_ok in H as ([[p l'] r5] & H5 & H). apply lex_pattern_len in H5.
        apply bind_ok in H as (a' & _ & [= _ _ <-]). lia.
      + apply bind_ok in H as ([[p l'] r5] & H5 & H). apply lex_pattern_len in H5.
        apply bind_ok in H as (a' & _ & [= _ _ <-]). lia.
    - destruct s as [|c s']; [discriminate|]. destruct (c =? AT)%N; [discriminate|].
      intros H. apply bind_ok in H as ([[p l'] r5] & H5 & H). apply lex_pattern_len in H5.
      destruct (negb (bare_keyword_atom V) && negb (is_quote c) && is_kw_text p); [discriminate|].
      apply bind_ok in H as (a' & _ & [= _ _ <-]). exact H5.
  Qed.

  (* ---------- a generic sub-parser with the length property ---------- *)
  Definition shrinks (sub : parser) : Prop :=
    forall prev s e pv r, sub prev s = Ok (e, pv, r) -> (length r <= length s)%nat.
  Definition no_raise {A} (r : res A) : Prop := match r with Er (Raise _) => False | _ => True end.

  Section Loop.
    Variables (k : kw) (sub : parser) (mk : expr -> expr -> expr).
    Hypothesis Hsub : shrinks sub.

    Lemma loop_len g : forall left prev s e pv r,
      loop k sub mk g left prev s = Ok (e, pv, r) -> (length r <= length s)%nat.
    Proof.
      induction g as [|g IH]; intros left prev s e pv r; cbn [loop]; [discriminate|].
      destruct s as [|c s']; [intros [= <- <- <-]; cbn; lia|].
      destruct (peek_kw [k] prev (c :: s')) as [| |k' r0] eqn:Ep; [discriminate|intros [= <- <- <-]; lia|].
      apply peek_kw_len in Ep.
      destruct (skip_ws (last_of prev (kw_str k)) r0) as [pv1 r1] eqn:E1. apply skip_ws_len in E1.
      intros H. apply bind_ok in H as ([[e2 pv2] r2] & H2 & H). apply Hsub in H2.
      destruct (skip_ws pv2 r2) as [pv3 r3] eqn:E3. apply skip_ws_len in E3.
      apply IH in H. lia.
    Qed.

    Lemma compound_shrinks g : shrinks (compound k sub mk g).
    Proof.
      intros prev s e pv r. unfold compound.
      destruct (skip_ws prev s) as [pv0 r0] eqn:E0. apply skip_ws_len in E0.
      intros H. apply bind_ok in H as ([[e2 pv2] r2] & H2 & H). apply Hsub in H2.
      destruct (skip_ws pv2 r2) as [pv3 r3] eqn:E3. apply skip_ws_len in E3.
      apply loop_len in H. lia.
    Qed.

    Lemma loop_noof n g : (forall prev s, (length s < n)%nat -> sub prev s <> Er OutOfFuel) ->
      forall left prev s, (length s < g)%nat -> (length s <= n)%nat ->
      loop k sub mk g left prev s <> Er OutOfFuel.
    Proof.
      intros Hn. induction g as [|g IH]; intros left prev s Hg Hle; [lia|]. cbn [loop].
      destruct s as [|c s']; [discriminate|].
      destruct (peek_kw [k] prev (c :: s')) as [| |k' r0] eqn:Ep; [discriminate|discriminate|].
      apply peek_kw_len in Ep.
      destruct (skip_ws (last_of prev (kw_str k)) r0) as [pv1 r1] eqn:E1. apply skip_ws_len in E1.
      destruct (sub pv1 r1) as [[[e2 pv2] r2]|x] eqn:E2.
      - cbn [bind]. apply Hsub in E2.
        destruct (skip_ws pv2 r2) as [pv3 r3] eqn:E3. apply skip_ws_len in E3.
        apply IH; lia.
      - cbn [bind]. intros [= ->]. apply (Hn pv1 r1); [lia|exact E2].
    Qed.

    Lemma compound_noof n g : (forall prev s, (length s < n)%nat -> sub prev s <> Er OutOfFuel) ->
      forall prev s, (length s < g)%nat -> (length s < n)%nat ->
      compound k sub mk g prev s <> Er OutOfFuel.
    Proof.
      intros Hn prev s Hg Hle. unfold compound.
      destruct (skip_ws prev s) as [pv0 r0] eqn:E0. apply skip_ws_len in E0.
      destruct (sub pv0 r0) as [[[e2 pv2] r2]|x] eqn:E2.
      - cbn [bind]. apply Hsub in E2.
        destruct (skip_ws pv2 r2) as [pv3 r3] eqn:E3. apply skip_ws_len in E3.
        apply (loop_noof n); [exact Hn|lia|lia].
      - cbn [bind]. intros [= ->]. apply (Hn pv0 r0); [lia|exact E2].
    Qed.

    Lemma loop_no_raise g : (forall prev s, no_raise (sub prev s)) ->
      forall left prev s, no_raise (loop k sub mk g left prev s).
    Proof.
      intros Hn. induction g as [|g IH]; intros left prev s; cbn [loop]; [exact I|].
      destruct s as [|c s']; [exact I|].
      destruct (peek_kw [k] prev (c :: s')) as [| |k' r0]; [exact I|exact I|].
      destruct (skip_ws (last_of prev (kw_str k)) r0) as [pv1 r1].
      specialize (Hn pv1 r1). destruct (sub pv1 r1) as [[[e2 pv2] r2]|x]; cbn [bind].
      - destruct (skip_ws pv2 r2) as [pv3 r3]. apply IH.
      - exact Hn.
    Qed.

    Lemma compound_no_raise g : (forall prev s, no_raise (sub prev s)) ->
      forall prev s, no_raise (compound k sub mk g prev s).
    Proof.
      intros Hn prev s. unfold compound. destruct (skip_ws prev s) as [pv0 r0].
      pose proof (Hn pv0 r0) as H0. destruct (sub pv0 r0) as [[[e2 pv2] r2]|x]; cbn [bind]; [|exact H0].
      destruct (skip_ws pv2 r2) as [pv3 r3]. now apply loop_no_raise.
    Qed.
  End Loop.

  (* ---------- monotonicity of the loop in its fuel and in its sub-parser ---------- *)
  Definition below (p q : parser) : Prop :=
    forall prev s, p prev s <> Er OutOfFuel -> q prev s = p prev s.

  Lemma loop_mono k mk sub sub' : below sub sub' ->
    forall g g' left prev s, (g <= g')%nat -> loop k sub mk g left prev s <> Er OutOfFuel ->
    loop k sub' mk g' left prev s = loop k sub mk g left prev s.
  Proof.
    intros Hb. induction g as [|g IH]; intros g' left prev s Hg; cbn [loop]; [congruence|].
    destruct g' as [|g']; [lia|]. cbn [loop].
    destruct s as [|c s']; [reflexivity|].
    destruct (peek_kw [k] prev (c :: s')) as [| |k' r0]; [reflexivity|reflexivity|].
    destruct (skip_ws (last_of prev (kw_str k)) r0) as [pv1 r1].
    destruct (sub pv1 r1) as [[[e2 pv2] r2]|x] eqn:E2.
    - rewrite (Hb pv1 r1) by congruence. rewrite E2. cbn [bind].
      destruct (skip_ws pv2 r2) as [pv3 r3]. apply IH. lia.
    - cbn [bind]. intros Hx. rewrite (Hb pv1 r1) by congruence. rewrite E2. reflexivity.
  Qed.

  Lemma compound_mono k mk sub sub' g g' : below sub sub' -> (g <= g')%nat ->
    below (compound k sub mk g) (compound k sub' mk g').
  Proof.
    intros Hb Hg prev s. unfold compound. destruct (skip_ws prev s) as [pv0 r0].
    destruct (sub pv0 r0) as [[[e2 pv2] r2]|x] eqn:E2.
    - rewrite (Hb pv0 r0) by congruence. rewrite E2. cbn [bind].
      destruct (skip_ws pv2 r2) as [pv3 r3]. now apply loop_mono.
    - cbn [bind]. intros Hx. rewrite (Hb pv0 r0) by congruence. rewrite E2. reflexivity.
  Qed.

  (* ---------- the unary level ---------- *)
  Lemma unary_S f prev s : unary V compile (S f) prev s =
    match s with
    | c :: r =>
        if (c =? LP)%N then
          '(e, _, r') <- or_level V compile f (Some LP) r ;;
          match r' with
          | d :: r'' => if (d =? RP)%N then Ok (e, Some RP, r'') else Er ParseErr
          | [] => Er ParseErr
          end
        else
          match peek_kw all_kws prev s with
          | PErr => Er ParseErr
          | PSome KNot r' =>
              let (pv, r'') := skip_ws (last_of prev (kw_str KNot)) r' in
              '(e, pv', r3) <- unary V compile f pv r'' ;;
              Ok (Not e, pv', r3)
          | PSome _ _ => Er ParseErr
          | PNone => '(a, l, r') <- simple V compile s ;; Ok (Atom a, Some l, r')
          end
    | [] => '(a, l, r') <- simple V compile s ;; Ok (Atom a, Some l, r')
    end.
  Proof. reflexivity. Qed.

  Lemma unary_shrinks f : shrinks (unary V compile f).
  Proof.
    induction f as [|f IH]; intros prev s e pv r; [discriminate|]. rewrite unary_S.
    assert (Hor : shrinks (or_level V compile f)).
    { apply compound_shrinks. apply compound_shrinks. exact IH. }
    destruct s as [|c s'].
    - intros H. apply bind_ok in H as ([[a l] r'] & Hs & [= _ _ <-]). now apply simple_len in Hs.
    - destruct (c =? LP)%N.
      + intros H. apply bind_ok in H as ([[e' pv'] r'] & Ho & H). apply Hor in Ho.
        destruct r' as [|d r'']; [discriminate|]. destruct (d =? RP)%N; [|discriminate].
        injection H as _ _ <-. cbn in *. lia.
      + destruct (peek_kw all_kws prev (c :: s')) as [| |k' r0] eqn:Ep; [discriminate| |].
        * intros H. apply bind_ok in H as ([[a l] r'] & Hs & [= _ _ <-]). now apply simple_len in Hs.
        * apply peek_kw_len in Ep. destruct k'; try discriminate.
          destruct (skip_ws (last_of prev (kw_str KNot)) r0) as [pv1 r1] eqn:E1. apply skip_ws_len in E1.
          intros H. apply bind_ok in H as ([[e' pv'] r'] & Hu & [= _ _ <-]). apply IH in Hu. lia.
  Qed.

  Lemma simple_noof s : simple V compile s <> Er OutOfFuel.
  Proof.
    unfold simple.
    assert (Hq : forall a, compile_qualified V compile a <> Er OutOfFuel).
    { intros a. unfold compile_qualified. destruct (compile a); try discriminate. destruct (overflow_escapes V); discriminate. }
    assert (Hu : forall a, compile_unqualified compile a <> Er OutOfFuel).
    { intros a. unfold compile_unqualified. destruct (compile a); discriminate. }
    assert (Hp : forall s, lex_pattern s <> Er OutOfFuel).
    { intros t. unfold lex_pattern. destruct t as [|c r]; [discriminate|]. destruct (is_quote c).
      - destruct (lex_quoted c r) as [[? ?]|]; discriminate.
      - destruct (lex_unquoted (c :: r)) as [p t']. destruct (rev p); discriminate. }
    assert (Hk : forall s, lex_key s <> Er OutOfFuel).
    { intros t. unfold lex_key. destruct t as [|c r]; [discriminate|]. destruct (is_quote c).
      - destruct (lex_quoted c r) as [[[|? ?] ?]|]; discriminate.
      - destruct (lex_unquoted (c :: r)) as [[|? ?] t']; discriminate. }
    assert (He : forall c s, expect c s <> Er OutOfFuel).
    { intros c t. unfold expect. destruct t as [|d t]; [discriminate|]. destruct (d =? c)%N; discriminate. }
    destruct (first_prefix prefixes s) as [[[[isdata ty] opts] r0]|].
    - intros H. apply bind_er in H as [H|([cs r2] & _ & H)].
      + destruct opts; [|discriminate].
        destruct r0 as [|c r']; [|destruct (c =? 105)%N]; apply bind_er in H as [H|(x & _ & H)];
          try discriminate; now apply He in H.
      + destruct isdata.
        * apply bind_er in H as [H|([k r3] & _ & H)]; [now apply Hk in H|].
          apply bind_er in H as [H|(r4 & _ & H)]; [now apply He in H|].
          apply bind_er in H as [H|([[p l] r5] & _ & H)]; [now apply Hp in H|].
          apply bind_er in H as [H|(a & _ & H)]; [now apply Hq in H|discriminate].
        * apply bind_er in H as [H|([[p l] r5] & _ & H)]; [now apply Hp in H|].
          apply bind_er in H as [H|(a & _ & H)]; [now apply Hq in H|discriminate].
    - destruct s as [|c s']; [discriminate|]. destruct (c =? AT)%N; [discriminate|].
      intros H. apply bind_er in H as [H|([[p l] r5] & _ & H)]; [now apply Hp in H|].
      destruct (negb (bare_keyword_atom V) && negb (is_quote c) && is_kw_text p); [discriminate|].
      apply bind_er in H as [H|(a & _ & H)]; [now apply Hu in H|discriminate].
  Qed.

  Lemma unary_noof f : forall prev s, (length s < f)%nat -> unary V compile f prev s <> Er OutOfFuel.
  Proof.
    induction f as [|f IH]; intros prev s Hf; [lia|]. rewrite unary_S.
    assert (Hor : forall prev s, (length s < f)%nat -> or_level V compile f prev s <> Er OutOfFuel).
    { intros pv t Ht. apply (compound_noof _ _ _ (compound_shrinks _ _ _ (unary_shrinks f) f) f); [|exact Ht|exact Ht].
      intros pv' t' Ht'. apply (compound_noof _ _ _ (unary_shrinks f) f); [|exact Ht'|exact Ht'].
      intros pv'' t'' Ht''. now apply IH. }
    destruct s as [|c s'].
    - intros H. apply bind_er in H as [H|([[a l] r'] & _ & H)]; [now apply simple_noof in H|discriminate].
    - destruct (c =? LP)%N.
      + intros H. apply bind_er in H as [H|([[e' pv'] r'] & _ & H)].
        * apply Hor in H; [exact H|cbn in Hf; lia].
        * destruct r' as [|d r'']; [discriminate|]. destruct (d =? RP)%N; discriminate.
      + destruct (peek_kw all_kws prev (c :: s')) as [| |k' r0] eqn:Ep; [discriminate| |].
        * intros H. apply bind_er in H as [H|([[a l] r'] & _ & H)]; [now apply simple_noof in H|discriminate].
        * apply peek_kw_len in Ep. destruct k'; try discriminate.
          destruct (skip_ws (last_of prev (kw_str KNot)) r0) as [pv1 r1] eqn:E1. apply skip_ws_len in E1.
          intros H. apply bind_er in H as [H|([[e' pv'] r'] & _ & H)]; [|discriminate].
          apply IH in H; [exact H|cbn in *; lia].
  Qed.

  Theorem parse_noof s : parse V compile s <> Er OutOfFuel.
  Proof.
    unfold parse, fuel_for. intros H.
    apply bind_er in H as [H|([[e pv] r] & _ & H)]; [|destruct r; discriminate].
    revert H. apply (compound_noof _ _ _ (compound_shrinks _ _ _ (unary_shrinks _) _) (S (S (length s)))); [|lia|lia].
    intros pv t Ht. apply (compound_noof _ _ _ (unary_shrinks _) (S (S (length s)))); [|lia|lia].
    intros pv' t' Ht'. now apply unary_noof.
  Qed.

  (* ---------- monotone in the fuel ---------- *)
  Lemma unary_mono f : forall f', (f <= f')%nat -> below (unary V compile f) (unary V compile f').
  Proof.
    induction f as [|f IH]; intros f' Hf prev s; [cbn; congruence|].
    destruct f' as [|f']; [lia|]. rewrite !unary_S.
    assert (Hu : below (unary V compile f) (unary V compile f')) by (apply IH; lia).
    assert (Hor : below (or_level V compile f) (or_level V compile f')).
    { apply compound_mono; [|lia]. apply compound_mono; [exact Hu|lia]. }
    destruct s as [|c s']; [reflexivity|].
    destruct (c =? LP)%N.
    - destruct (or_level V compile f (Some LP) s') as [[[e pv] r]|x] eqn:E.
      + rewrite (Hor (Some LP) s') by congruence. now rewrite E.
      + cbn [bind]. intros Hx. rewrite (Hor (Some LP) s') by (rewrite E; intro HH; inversion HH; subst; now apply Hx). now rewrite E.
    - destruct (peek_kw all_kws prev (c :: s')) as [| |k' r0]; [reflexivity|reflexivity|].
      destruct k'; try reflexivity.
      destruct (skip_ws (last_of prev (kw_str KNot)) r0) as [pv1 r1].
      destruct (unary V compile f pv1 r1) as [[[e pv] r]|x] eqn:E.
      + rewrite (Hu pv1 r1) by congruence. now rewrite E.
      + cbn [bind]. intros Hx. rewrite (Hu pv1 r1) by (rewrite E; intro HH; inversion HH; subst; now apply Hx). now rewrite E.
  Qed.

  Lemma or_level_mono f f' : (f <= f')%nat -> below (or_level V compile f) (or_level V compile f').
  Proof. intros Hf. apply compound_mono; [|exact Hf]. apply compound_mono; [|exact Hf]. now apply unary_mono. Qed.
  Lemma and_level_mono f f' : (f <= f')%nat -> below (and_level V compile f) (and_level V compile f').
  Proof. intros Hf. apply compound_mono; [|exact Hf]. now apply unary_mono. Qed.

  (* ---------- only ParseErr ---------- *)
  Hypothesis Hno_overflow : overflow_escapes V = false.
  Hypothesis Hother : forall a t, compile a <> COther t.
  Hypothesis Hglob : forall a, a_type a = TGlob -> compile a = COk.

  Lemma simple_no_raise s : no_raise (simple V compile s).
  Proof.
    unfold simple.
    assert (Hq : forall a, no_raise (compile_qualified V compile a)).
    { intros a. unfold compile_qualified. destruct (compile a) eqn:E; cbn; auto.
      - rewrite Hno_overflow. exact I. - now apply Hother in E. }
    assert (Hp : forall s, no_raise (lex_pattern s)).
    { intros t. unfold lex_pattern. destruct t as [|c r]; [exact I|]. destruct (is_quote c).
      - destruct (lex_quoted c r) as [[? ?]|]; exact I.
      - destruct (lex_unquoted (c :: r)) as [p t']. destruct (rev p); exact I. }
    assert (Hk : forall s, no_raise (lex_key s)).
    { intros t. unfold lex_key. destruct t as [|c r]; [exact I|]. destruct (is_quote c).
      - destruct (lex_quoted c r) as [[[|? ?] ?]|]; exact I.
      - destruct (lex_unquoted (c :: r)) as [[|? ?] t']; exact I. }
    assert (He : forall c s, no_raise (expect c s)).
    { intros c t. unfold expect. destruct t as [|d t]; [exact I|]. destruct (d =? c)%N; exact I. }
    destruct (first_prefix prefixes s) as [[[[isdata ty] opts] r0]|].
    - match goal with |- no_raise (bind ?r _) => assert (H0 : no_raise r) end.
      { destruct opts; [|exact I]. destruct r0 as [|c r']; [exact I|].
        destruct (c =? 105)%N.
        - pose proof (He (if isdata then COLON else AT) r') as H. destruct (expect (if isdata then COLON else AT) r'); [exact I|exact H].
        - pose proof (He (if isdata then COLON else AT) (c :: r')) as H. destruct (expect (if isdata then COLON else AT) (c :: r')); [exact I|exact H]. }
      match goal with |- no_raise (bind ?r _) => destruct r as [[cs r2]|x]; [|exact H0] end. cbn [bind].
      destruct isdata.
      + pose proof (Hk r2) as H. destruct (lex_key r2) as [[k r3]|x]; [|exact H]. cbn [bind].
        pose proof (He AT r3) as H4. destruct (expect AT r3) as [r4|x]; [|exact H4]. cbn [bind].
        pose proof (Hp r4) as H5. destruct (lex_pattern r4) as [[[p l] r5]|x]; [|exact H5]. cbn [bind].
        match goal with |- no_raise (bind (compile_qualified V compile ?a) _) =>
          pose proof (Hq a) as H6; destruct (compile_qualified V compile a); [exact I|exact H6] end.
      + pose proof (Hp r2) as H5. destruct (lex_pattern r2) as [[[p l] r5]|x]; [|exact H5]. cbn [bind].
        match goal with |- no_raise (bind (compile_qualified V compile ?a) _) =>
          pose proof (Hq a) as H6; destruct (compile_qualified V compile a); [exact I|exact H6] end.
    - destruct s as [|c s']; [exact I|]. destruct (c =? AT)%N; [exact I|].
      pose proof (Hp (c :: s')) as H5. destruct (lex_pattern (c :: s')) as [[[p l] r5]|x]; [|exact H5]. cbn [bind].
      destruct (negb (bare_keyword_atom V) && negb (is_quote c) && is_kw_text p); [exact I|].
      unfold compile_unqualified. rewrite Hglob by reflexivity. exact I.
  Qed.

  Lemma unary_no_raise f : forall prev s, no_raise (unary V compile f prev s).
  Proof.
    induction f as [|f IH]; intros prev s; [exact I|]. rewrite unary_S.
    assert (Hor : forall prev s, no_raise (or_level V compile f prev s)).
    { apply compound_no_raise. apply compound_no_raise. exact IH. }
    assert (Hs : forall s, no_raise ('(a, l, r') <- simple V compile s ;; Ok (Atom a, Some l, r'))).
    { intros t. pose proof (simple_no_raise t) as H. destruct (simple V compile t) as [[[a l] r']|x]; [exact I|exact H]. }
    destruct s as [|c s']; [apply Hs|].
    destruct (c =? LP)%N.
    - pose proof (Hor (Some LP) s') as H. destruct (or_level V compile f (Some LP) s') as [[[e pv] r]|x]; [|exact H].
      cbn [bind]. destruct r as [|d r'']; [exact I|]. destruct (d =? RP)%N; exact I.
    - destruct (peek_kw all_kws prev (c :: s')) as [| |k' r0]; [exact I|apply Hs|].
      destruct k'; try exact I.
      destruct (skip_ws (last_of prev (kw_str KNot)) r0) as [pv1 r1].
      pose proof (IH pv1 r1) as H. destruct (unary V compile f pv1 r1) as [[[e pv] r]|x]; [exact I|exact H].
  Qed.

  (* the parser's only failure is ParseError *)
  Theorem parse_errors s : (exists e, parse V compile s = Ok e) \/ parse V compile s = Er ParseErr.
  Proof.
    pose proof (parse_noof s) as Hn.
    assert (Hr : no_raise (parse V compile s)).
    { unfold parse.
      pose proof (compound_no_raise KOr _ Or (fuel_for s)
                    (compound_no_raise KAnd _ And (fuel_for s) (unary_no_raise (fuel_for s))) None s) as H.
      fold (and_level V compile (fuel_for s)) in H. fold (or_level V compile (fuel_for s)) in H.
      destruct (or_level V compile (fuel_for s) None s) as [[[e pv] r]|x]; [|exact H].
      cbn [bind]. destruct r; exact I. }
    destruct (parse V compile s) as [e|[|t|]]; [left; eauto|right; reflexivity|contradiction|now elim Hn].
  Qed.
End Facts.
