(* TID non-interference for the transfer machine, and direct readings of the reactions to
   peer ERROR and invalid packets. *)
From Coq Require Import List NArith ZArith Bool Lia.
From VF Require Import Tftp.Transfer Tftp.MonitorProofs Tftp.Tid.
Import ListNotations.
Open Scope Z_scope.

(* ---------- scripts ---------- *)
(* head not later than everything behind it *)
Fixpoint sorted (evs : list event) : Prop :=
  match evs with
  | [] => True
  | e :: r => Forall (fun e' => etime e <= etime e') r /\ sorted r
  end.

Lemma nondecreasing_sorted evs : nondecreasing evs -> sorted evs.
Proof.
  induction evs as [|e r IH]; intros H; cbn [sorted]; [exact Logic.I|].
  destruct H as [Hh Hr]. split; [|apply IH; exact Hr].
  clear IH. revert e Hh. induction r as [|e1 r IH2]; intros e Hh; constructor.
  - exact Hh.
  - destruct Hr as [H1 H2]. specialize (IH2 H2 e1 H1).
    eapply Forall_impl; [|exact IH2]. cbn. intros a Ha. lia.
Qed.

Lemma Forall_filter {A} (P : A -> Prop) f l : Forall P l -> Forall P (filter f l).
Proof. induction 1; cbn [filter]; [constructor|]. destruct (f x); auto. Qed.

Lemma sorted_client_only evs : sorted evs -> sorted (client_only evs).
Proof.
  induction evs as [|e r IH]; cbn [sorted client_only filter]; [auto|]. intros [H1 H2].
  destruct (from_client e); [|apply IH; exact H2].
  cbn [sorted]. split; [apply Forall_filter; exact H1|apply IH; exact H2].
Qed.

Lemma strip_app l1 l2 : strip_foreign (l1 ++ l2) = strip_foreign l1 ++ strip_foreign l2.
Proof. apply filter_app. Qed.
Lemma answered_from_app l2 : forall l1 pend, answered_from pend l1 = true ->
  answered_from pend (l1 ++ l2) = answered_from None l2.
Proof.
  induction l1 as [|x l1 IH]; intros pend H; cbn [app answered_from] in *.
  - destruct pend; [discriminate|reflexivity].
  - destruct pend as [[a t]|].
    + destruct x; try discriminate. destruct p; try discriminate.
      apply andb_true_iff in H as [H1 H2]. rewrite H1. cbn [andb]. apply IH. exact H2.
    + destruct x; try (apply IH; exact H).
      * apply andb_true_iff in H as [H1 H2]. rewrite H1. cbn [andb]. apply IH. exact H2.
      * destruct (from =? client)%N; apply IH; exact H.
Qed.
Lemma answered_app l1 l2 : foreign_answered l1 = true -> foreign_answered l2 = true ->
  foreign_answered (l1 ++ l2) = true.
Proof. unfold foreign_answered. intros H1 H2. now rewrite answered_from_app. Qed.

(* ---------- await ---------- *)
Lemma lim_eq now dl : now < dl -> now + sock_timeout now dl = dl.
Proof. intros H. unfold sock_timeout. destruct (Z.ltb_spec 0 (dl - now)); lia. Qed.

(* nothing is due: the time-out fires at the deadline and the queue is untouched *)
Lemma await_all_late vr want now dl evs : now < dl -> Forall (fun e => dl <= etime e) evs ->
  await vr want now dl evs = (OTimeout, dl, evs, [TTimeout dl]).
Proof.
  intros Hn H. destruct evs as [|[t a d] r]; cbn [await]; rewrite lim_eq by exact Hn; [reflexivity|].
  inversion H as [|? ? Ht _]; subst. cbn [etime] in Ht.
  destruct (Z.ltb_spec t dl); [lia|reflexivity].
Qed.

(* The run with the foreign datagrams has clock [now2], the run without them [now] <= [now2];
   [now2] is ahead only because of a delivered foreign datagram, which is not later than
   anything still queued: so the next delivery brings both clocks to the same value. *)
Definition clocks_meet (now now2 : Z) (evs : list event) : Prop :=
  Forall (fun e => Z.max now2 (etime e) = Z.max now (etime e)) evs.

Lemma await_tid vr want dl : forall evs now now2 o n e l,
  sorted evs -> now <= now2 -> now2 < dl -> clocks_meet now now2 evs ->
  await vr want now2 dl evs = (o, n, e, l) ->
  await vr want now dl (client_only evs) = (o, n, client_only e, strip_foreign l) /\
  sorted e /\ foreign_answered l = true.
Proof.
  induction evs as [|[t a d] r IH]; intros now now2 o n e l Hs Hle Hlt Hm H.
  - cbn [await client_only filter] in *. rewrite lim_eq in * by lia.
    injection H as <- <- <- <-. repeat split.
  - destruct Hs as [Hh Hr]. inversion Hm as [|? ? Hm1 Hm2]; subst. cbn [etime] in Hm1.
    cbn [await] in H. rewrite lim_eq in H by lia.
    cbn [client_only filter from_client].
    destruct (Z.ltb_spec t dl) as [Hdue|Hlate].
    + (* delivered *)
      destruct (a =? client)%N eqn:Ea; cbn [negb] in H.
      * (* from the peer *)
        cbn [await]. rewrite lim_eq by lia. destruct (Z.ltb_spec t dl); [|lia]. rewrite Ea. cbn [negb].
        destruct (classify vr d) as [k| | |].
        -- destruct (k =? want)%N.
           ++ injection H as <- <- <- <-. rewrite Hm1. cbn [strip_foreign filter concerns_client]. rewrite Ea.
              repeat split; [exact Hr|]. unfold foreign_answered in *. cbn [answered_from]. now rewrite Ea.
           ++ destruct (await vr want (Z.max now2 t) dl r) as [[[o2 n2] e2] l2] eqn:E2.
              injection H as <- <- <- <-. rewrite Hm1 in E2.
              assert (Hm' : clocks_meet (Z.max now t) (Z.max now t) r) by (apply Forall_forall; reflexivity).
              destruct (IH (Z.max now t) (Z.max now t) _ _ _ _ Hr (Z.le_refl _) ltac:(lia) Hm' E2) as [A [B C]].
              fold (client_only r). rewrite A. cbn [strip_foreign filter concerns_client]. rewrite Ea.
              repeat split; [exact B|]. unfold foreign_answered in *. cbn [answered_from]. now rewrite Ea.
        -- injection H as <- <- <- <-. rewrite Hm1. cbn [strip_foreign filter concerns_client]. rewrite Ea.
           repeat split; [exact Hr|]. unfold foreign_answered in *. cbn [answered_from]. now rewrite Ea.
        -- injection H as <- <- <- <-. rewrite Hm1. cbn [strip_foreign filter concerns_client]. rewrite Ea.
           repeat split; [exact Hr|]. unfold foreign_answered in *. cbn [answered_from]. now rewrite Ea.
        -- injection H as <- <- <- <-. rewrite Hm1. cbn [strip_foreign filter concerns_client]. rewrite Ea.
           repeat split; [exact Hr|]. unfold foreign_answered in *. cbn [answered_from]. now rewrite Ea.
      * (* from a foreign address: only the clock of this run moves *)
        destruct (await vr want (Z.max now2 t) dl r) as [[[o2 n2] e2] l2] eqn:E2.
        injection H as <- <- <- <-.
        assert (Hm' : clocks_meet now (Z.max now2 t) r).
        { apply Forall_forall. intros x Hx.
          pose proof (proj1 (Forall_forall _ _) Hh x Hx) as H1. cbn [etime] in H1.
          pose proof (proj1 (Forall_forall _ _) Hm2 x Hx) as H2. cbn beta in H2. lia. }
        destruct (IH now (Z.max now2 t) _ _ _ _ Hr ltac:(lia) ltac:(lia) Hm' E2) as [A [B C]].
        fold (client_only r). rewrite A. cbn [strip_foreign filter concerns_client]. rewrite Ea.
        repeat split; [exact B|]. unfold foreign_answered in *. cbn [answered_from]. rewrite Ea, !N.eqb_refl, C.
        destruct (Z.leb_spec t (Z.max now2 t)); [reflexivity|lia].
    + (* not yet due: the time-out fires in both runs, whoever is at the head of the queue *)
      injection H as <- <- <- <-.
      assert (Hall : Forall (fun e => dl <= etime e) (Recv t a d :: r)).
      { constructor; [cbn; lia|]. eapply Forall_impl; [|exact Hh]. cbn. intros x Hx. lia. }
      split; [|split; [split; assumption|reflexivity]].
      fold (client_only (Recv t a d :: r)).
      apply await_all_late; [lia|]. apply Forall_filter. exact Hall.
Qed.

(* ---------- one packet with its retries ---------- *)
Section Tries.
  Variable c : cfg.
  Hypothesis tm_pos : 0 < tmo c.

  Lemma send_tries_tid p want : forall tries now evs o n e l,
    sorted evs ->
    send_tries c tries p want now evs = (o, n, e, l) ->
    send_tries c tries p want now (client_only evs) = (o, n, client_only e, strip_foreign l) /\
    sorted e /\ foreign_answered l = true.
  Proof.
    induction tries as [|k IH]; intros now evs o n e l Hs H.
    - cbn [send_tries] in *. injection H as <- <- <- <-. repeat split. exact Hs.
    - rewrite send_tries_S in *.
      destruct (await (v c) want now (now + tmo c) evs) as [[[o1 n1] e1] l1] eqn:E1.
      assert (Hm : clocks_meet now now evs) by (apply Forall_forall; reflexivity).
      assert (Hlt : now < now + tmo c) by lia.
      destruct (await_tid _ _ _ _ _ _ _ _ _ _ Hs (Z.le_refl _) Hlt Hm E1) as [A [B C]].
      rewrite A.
      assert (Hsend : forall l', strip_foreign (TSend now client p :: l') = TSend now client p :: strip_foreign l')
        by reflexivity.
      assert (Hans : forall l', foreign_answered l' = true -> foreign_answered (TSend now client p :: l') = true)
        by (intros l' Hl'; unfold foreign_answered in *; cbn [answered_from]; exact Hl').
      destruct o1; try (injection H as <- <- <- <-; rewrite Hsend; repeat split; auto).
      destruct k as [|k'].
      + destruct (retry_fallthrough (v c)); injection H as <- <- <- <-; rewrite Hsend; repeat split; auto.
      + destruct (send_tries c (S k') p want n1 e1) as [[[o2 n2] e2] l2] eqn:E2.
        injection H as <- <- <- <-.
        destruct (IH _ _ _ _ _ _ B E2) as [A2 [B2 C2]]. rewrite A2.
        rewrite Hsend, strip_app. repeat split; auto. apply Hans. apply answered_app; auto.
  Qed.

  (* ---------- the block loop ---------- *)
  Lemma send_blocks_tid : forall blocks blk now evs r n e l,
    sorted evs ->
    send_blocks c blk blocks now evs = (r, n, e, l) ->
    send_blocks c blk blocks now (client_only evs) = (r, n, client_only e, strip_foreign l) /\
    sorted e /\ foreign_answered l = true.
  Proof.
    induction blocks as [|b rest IH]; intros blk now evs r n e l Hs H; cbn [send_blocks] in *.
    - injection H as <- <- <- <-. repeat split. exact Hs.
    - destruct (next_block (wrap c) blk) as [nb|].
      2:{ injection H as <- <- <- <-. repeat split. exact Hs. }
      destruct (send_tries c (S (retries c)) (PData nb b) nb now evs) as [[[o1 n1] e1] l1] eqn:E1.
      destruct (send_tries_tid _ _ _ _ _ _ _ _ _ Hs E1) as [A [B C]]. rewrite A.
      destruct o1; try (injection H as <- <- <- <-; repeat split; auto).
      destruct (send_blocks c nb rest n1 e1) as [[[r2 n2] e2] l2] eqn:E2.
      injection H as <- <- <- <-.
      destruct (IH _ _ _ _ _ _ _ B E2) as [A2 [B2 C2]]. rewrite A2, strip_app.
      repeat split; auto. apply answered_app; auto.
  Qed.

  Lemma strip_tail r now : strip_foreign (finish r now ++ [TCloseFile; TCloseSock]) = finish r now ++ [TCloseFile; TCloseSock].
  Proof. destruct r as [[]|[]]; reflexivity. Qed.
  Lemma answered_tail r now : foreign_answered (finish r now ++ [TCloseFile; TCloseSock]) = true.
  Proof. destruct r as [[]|[]]; reflexivity. Qed.

  (* ---------- the whole transfer ---------- *)
  Theorem transfer_tid oack blocks evs : sorted evs ->
    fst (transfer_r c oack blocks (client_only evs)) = fst (transfer_r c oack blocks evs) /\
    snd (transfer_r c oack blocks (client_only evs)) = strip_foreign (snd (transfer_r c oack blocks evs)) /\
    foreign_answered (snd (transfer_r c oack blocks evs)) = true.
  Proof.
    intros Hs. unfold transfer_r. destruct oack as [|o1 oa].
    - destruct (send_blocks c 0%N blocks 0 evs) as [[[r n] e] l] eqn:E.
      destruct (send_blocks_tid _ _ _ _ _ _ _ _ Hs E) as [A [B C]]. rewrite A. cbn [fst snd].
      rewrite strip_app, strip_tail. repeat split. apply answered_app; [exact C|apply answered_tail].
    - destruct (send_tries c (S (retries c)) (POack (o1 :: oa)) 0%N 0 evs) as [[[o n1] e1] l1] eqn:E1.
      destruct (send_tries_tid _ _ _ _ _ _ _ _ _ Hs E1) as [A [B C]]. rewrite A.
      destruct o; try (cbn [fst snd]; rewrite strip_app, strip_tail; repeat split;
                       apply answered_app; [exact C|apply answered_tail]).
      destruct (send_blocks c 0%N blocks n1 e1) as [[[r n2] e2] l2] eqn:E2.
      destruct (send_blocks_tid _ _ _ _ _ _ _ _ B E2) as [A2 [B2 C2]]. rewrite A2. cbn [fst snd].
      rewrite (strip_app (l1 ++ l2)), (strip_app l1), strip_tail, <- List.app_assoc. repeat split.
      apply answered_app; [apply answered_app; assumption|apply answered_tail].
  Qed.
End Tries.
