(* C18: validity of cases, proof that the executable checker accepts the model, and the
   witnesses of the refuted variants. *)
From Coq Require Import String.
From Coq Require Import List NArith Bool Arith Lia.
From VF Require Import Matcher.Model Matcher.ParserFacts Matcher.EvalFacts Matcher.PrintLex Matcher.PrintParse C18.Entry.
Import ListNotations.


(* the hypotheses of the property on a case:
   - the model variant parses the string like the documented grammar (no bare keyword pattern),
   - the compile oracle raises nothing but re.error / OverflowError on the atoms of the string,
   - no key path runs through a non-container, or the lookup absorbs that (documented semantics),
   - the intended tree, if given, is the tree of which the string is a legal layout, and its atoms
     compile *)
Definition valid (c : case) : Prop :=
  parse (c_var c) (table_compile (c_table c)) (c_str c) = reference c /\
  no_raise (reference c) /\
  (lookup_escapes (c_var c) = false \/ table_clean (c_table c) = true) /\
  (forall e, reference c = Ok e ->
     eval_depth_limit (c_var c) = 0%nat \/ (depth e <= eval_depth_limit (c_var c))%nat) /\
  match c_expected c with
  | Some e => exists t w0 w3, ok 0 t /\ is_ws w0 /\ is_ws w3 /\ c_str c = w0 ++ print t ++ w3 /\ erase t = e /\
                              (forall a, In a (catoms t) -> table_compile (c_table c) a = COk)
  | None => True
  end.

Lemma valid_expected c e : valid c -> c_expected c = Some e -> reference c = Ok e.
Proof.
  intros (_ & _ & _ & _ & H) E. rewrite E in H. destruct H as (t & w0 & w3 & Hok & Hw0 & Hw3 & Hs & He & Hc).
  unfold reference. rewrite Hs, <- He. now apply parse_print.
Qed.

Lemma str_eqb_refl a : str_eqb a a = true.
Proof. induction a as [|c a IH]; cbn; [reflexivity|]. now rewrite N.eqb_refl, IH. Qed.
Lemma atom_eqb_refl a : atom_eqb a a = true.
Proof.
  unfold atom_eqb. rewrite str_eqb_refl, Bool.eqb_reflx.
  destruct (a_type a); cbn; destruct (a_key a); cbn; rewrite ?str_eqb_refl; reflexivity.
Qed.
Lemma expr_eqb_refl e : expr_eqb e e = true.
Proof. induction e; cbn; rewrite ?atom_eqb_refl, ?IHe, ?IHe1, ?IHe2; reflexivity. Qed.
Lemma val_eqb_refl v : val_eqb v v = true.
Proof. destruct v; cbn; [apply Bool.eqb_reflx|apply str_eqb_refl]. Qed.
Lemma vals_eqb_refl l : vals_eqb l l = true.
Proof. induction l as [|v l IH]; cbn; [reflexivity|]. now rewrite val_eqb_refl, IH. Qed.

Lemma table_clean_spec t : table_clean t = true ->
  forall a i, tv_through_scalar (table_truth t a i) = false.
Proof.
  intros H a i. unfold table_truth.
  induction t as [|[b [cr l]] t IH]; cbn [tfind]; [reflexivity|].
  cbn [table_clean forallb snd] in H. apply andb_prop in H as [Hl Ht].
  destruct (atom_eqb a b); [|now apply IH].
  clear - Hl. revert i. induction l as [|x l IHl]; intros [|i]; cbn [nth]; try reflexivity.
  - cbn [forallb] in Hl. apply andb_prop in Hl as [Hx _]. now apply negb_true_iff in Hx.
  - cbn [forallb] in Hl. apply andb_prop in Hl as [_ Hl]. now apply IHl.
Qed.

Lemma run_model_eq c :
  run_model c =
  (outcome (c_var c) (table_truth (c_table c)) (c_envs c) (parse (c_var c) (table_compile (c_table c)) (c_str c)),
   outcome (c_var c) (table_truth (c_table c)) (c_envs c) (parse (c_var c) (table_compile (c_table c)) (c_str c))).
Proof.
  unfold run_model.
  destruct (cached_parse (c_var c) (table_compile (c_table c)) [] (c_str c)) as [r1 k1] eqn:E1.
  unfold cached_parse in E1. cbn [cache_find] in E1.
  destruct (parse (c_var c) (table_compile (c_table c)) (c_str c)) as [e|x] eqn:Ep.
  - change (firstn cache_size [(c_str c, e)]) with [(c_str c, e)] in E1. injection E1 as <- <-.
    unfold cached_parse. cbn [cache_find]. now rewrite str_eqb_refl.
  - injection E1 as <- <-. unfold cached_parse. cbn [cache_find]. now rewrite Ep.
Qed.

Lemma holds_model c : valid c -> holds c (run_model c) = [].
Proof.
  intros Hv0. pose proof (fun e => valid_expected c e Hv0) as He. destruct Hv0 as (Hp & Hr & Hc & Hd & _).
  rewrite run_model_eq, Hp. unfold holds, wanted. cbn [fst snd].
  rewrite vals_eqb_refl.
  destruct (reference c) as [e|x] eqn:Eref.
  - cbn [outcome].
    assert (Hev : map (eval_v (c_var c) (table_truth (c_table c)) e) (seq 0 (c_envs c)) =
                  map (eval documented (table_truth (c_table c)) e) (seq 0 (c_envs c))).
    { apply map_ext. intros i. rewrite (eval_v_enough _ _ _ _ (Hd e eq_refl)). apply eval_ext. intros a _. unfold atom_val.
      destruct (tv_fault (table_truth (c_table c) a i)); [reflexivity|]. cbn [lookup_escapes documented andb].
      destruct Hc as [-> | Hc]; [reflexivity|]. now rewrite (table_clean_spec _ Hc), andb_false_r. }
    rewrite Hev, vals_eqb_refl.
    destruct (c_expected c) as [e0|] eqn:Ee; [|reflexivity].
    specialize (He e0 eq_refl). injection He as <-. now rewrite expr_eqb_refl.
  - destruct x as [|t|].
    + cbn [outcome]. rewrite vals_eqb_refl. destruct (c_expected c) as [e0|] eqn:Ee; [|reflexivity].
      specialize (He e0 eq_refl). discriminate.
    + destruct Hr.
    + exfalso. unfold reference in Eref. now apply parse_noof in Eref.
Qed.

(* ---------- witnesses ---------- *)
Definition tv_of (v s : bool) : tv := {| tv_val := v; tv_through_scalar := s; tv_fault := None |}.

(* '@id_re@a{4294967296}' with re.compile raising OverflowError, behaviour before 86538e9 *)
Definition atom_big : atom := {| a_key := None; a_type := TRe; a_cs := true; a_pat := lit "a{4294967296}" |}.
Definition witness_overflow : case :=
  {| c_str := lit "@id_re@a{4294967296}"; c_expected := None;
     c_var := {| overflow_escapes := true; lookup_escapes := true; bare_keyword_atom := true; eval_depth_limit := 0 |};
     c_envs := 1; c_table := [(atom_big, (COverflow, [tv_of false false]))] |}.

(* '@data_glob:a:b@*' on SmartLookupDict({"a": "x"}): documented value "not found" = empty = matches '*' *)
Definition atom_ab : atom := {| a_key := Some (lit "a:b"); a_type := TGlob; a_cs := true; a_pat := lit "*" |}.
Definition witness_lookup : case :=
  {| c_str := lit "@data_glob:a:b@*"; c_expected := None; c_var := current;
     c_envs := 1; c_table := [(atom_ab, (COk, [tv_of true true]))] |}.

(* '(and)' on the system id "and" *)
Definition atom_and : atom := {| a_key := None; a_type := TGlob; a_cs := false; a_pat := lit "and" |}.
Definition witness_bare_keyword : case :=
  {| c_str := lit "(and)"; c_expected := None; c_var := current;
     c_envs := 1; c_table := [(atom_and, (COk, [tv_of true false]))] |}.

(* a valid example *)
Definition ex_a : atom := {| a_key := None; a_type := TGlob; a_cs := false; a_pat := lit "a" |}.
Definition ex_b : atom := {| a_key := None; a_type := TGlob; a_cs := false; a_pat := lit "b*" |}.
Definition ex_k : atom := {| a_key := Some (lit "k"); a_type := TGlob; a_cs := true; a_pat := lit "v*" |}.
Definition example_case : case :=
  {| c_str := lit "not a and (b* or @data_glob:k@v*)";
     c_expected := Some (And (Not (Atom ex_a)) (Or (Atom ex_b) (Atom ex_k)));
     c_var := current; c_envs := 2;
     c_table := [ (ex_a, (COk, [tv_of true false; tv_of false false]));
                  (ex_b, (COk, [tv_of true false; tv_of false false]));
                  (ex_k, (COk, [tv_of false false; tv_of true false])) ] |}.
Definition short_unq : astyle := {| st_short := true; st_slash := false; st_key := Unq; st_pat := Unq |}.
Definition qual_unq : astyle := {| st_short := false; st_slash := false; st_key := Unq; st_pat := Unq |}.
Definition example_cst : cst :=
  CBin KAnd (CNot [SP] (CAtom ex_a short_unq)) [SP] [SP]
       (CParen [] (CBin KOr (CAtom ex_b short_unq) [SP] [SP] (CAtom ex_k qual_unq)) []).
Lemma example_valid : valid example_case.
Proof.
  split; [vm_compute; reflexivity|]. split; [vm_compute; exact I|]. split; [right; vm_compute; reflexivity|].
  split; [intros e He; vm_compute in He; injection He as <-; right; apply Nat.leb_le; vm_compute; reflexivity|].
  cbn [c_expected example_case]. exists example_cst, [], [].
  split.
  { unfold example_cst, ok. cbn [okx lev andb]. unfold atom_okx, unquoted_ok. cbn.
    repeat match goal with |- _ /\ _ => split end;
      first [reflexivity | discriminate | lia | exact I | left; discriminate | right; reflexivity | intros _; reflexivity | intros _ _; reflexivity
            | unfold unquoted_ok; cbn; repeat split; first [reflexivity | discriminate] ]. }
  split; [reflexivity|]. split; [reflexivity|]. split; [vm_compute; reflexivity|]. split; [reflexivity|].
  intros a Ha. cbn in Ha. destruct Ha as [<-|[<-|[<-|[]]]]; vm_compute; reflexivity.
Qed.
