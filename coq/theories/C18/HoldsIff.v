(* the executable checker says exactly what the property clauses say *)
From Coq Require Import String.
From Coq Require Import List NArith Bool Arith Lia.
From VF Require Import Matcher.Model Matcher.ParserFacts Matcher.EvalFacts Matcher.PrintLex Matcher.PrintParse
  Matcher.ParseSound C18.Entry C18.HoldsProof.
Import ListNotations.

Lemma ostr_eqb_eq a b : ostr_eqb a b = true <-> a = b.
Proof.
  destruct a as [x|], b as [y|]; cbn; try (split; congruence).
  rewrite str_eqb_eq. split; [intros ->; reflexivity|intros [= ->]; reflexivity].
Qed.
Lemma atype_eqb_eq a b : atype_eqb a b = true <-> a = b.
Proof. destruct a, b; cbn; split; congruence. Qed.
Lemma atom_eqb_eq a b : atom_eqb a b = true <-> a = b.
Proof.
  unfold atom_eqb. rewrite !andb_true_iff, ostr_eqb_eq, atype_eqb_eq, Bool.eqb_true_iff, str_eqb_eq.
  destruct a, b; cbn. split; [intros [[[-> ->] ->] ->]; reflexivity|intros [= -> -> -> ->]; auto].
Qed.
Lemma expr_eqb_eq a : forall b, expr_eqb a b = true <-> a = b.
Proof.
  induction a as [x|x IH|x1 IH1 x2 IH2|x1 IH1 x2 IH2]; intros [y|y|y1 y2|y1 y2]; cbn; try (split; congruence).
  - rewrite atom_eqb_eq. split; [intros ->; reflexivity|intros [= ->]; reflexivity].
  - rewrite IH. split; [intros ->; reflexivity|intros [= ->]; reflexivity].
  - rewrite andb_true_iff, IH1, IH2. split; [intros [-> ->]; reflexivity|intros [= -> ->]; auto].
  - rewrite andb_true_iff, IH1, IH2. split; [intros [-> ->]; reflexivity|intros [= -> ->]; auto].
Qed.
Lemma val_eqb_eq a b : val_eqb a b = true <-> a = b.
Proof.
  destruct a as [x|x], b as [y|y]; cbn; try (split; congruence).
  - rewrite Bool.eqb_true_iff. split; [intros ->; reflexivity|intros [= ->]; reflexivity].
  - rewrite str_eqb_eq. split; [intros ->; reflexivity|intros [= ->]; reflexivity].
Qed.
Lemma vals_eqb_eq a : forall b, vals_eqb a b = true <-> a = b.
Proof.
  induction a as [|x a IH]; intros [|y b]; cbn; try (split; congruence).
  rewrite andb_true_iff, val_eqb_eq, IH. split; [intros [-> ->]; reflexivity|intros [= -> ->]; auto].
Qed.

Theorem holds_iff c o :
  holds c o = [] <->
  (match c_expected c with Some e => reference c = Ok e | None => True end) /\
  fst o = wanted c /\ snd o = fst o.
Proof.
  unfold holds.
  assert (H1 : (match c_expected c with
                | Some e => match reference c with
                            | Ok e' => if expr_eqb e e' then [] else ["printed_expression_parses_to_its_tree"%string]
                            | Er _ => ["printed_expression_parses_to_its_tree"%string]
                            end
                | None => []
                end = []) <-> match c_expected c with Some e => reference c = Ok e | None => True end).
  { destruct (c_expected c) as [e|]; [|tauto].
    destruct (reference c) as [e'|x]; [|split; discriminate].
    destruct (expr_eqb e e') eqn:E.
    - apply expr_eqb_eq in E as ->. tauto.
    - split; [discriminate|]. intros [= ->]. rewrite (proj2 (expr_eqb_eq e e) eq_refl) in E. discriminate. }
  assert (H2 : (if vals_eqb (fst o) (wanted c) then []
                else match reference c with
                     | Ok _ => if all_recursion_error (fst o) then ["legal_expression_raised_RecursionError"%string]
                               else ["value_equals_documented_semantics"%string]
                     | Er _ => ["rejected_with_ValueError"%string]
                     end) = [] <-> fst o = wanted c).
  { destruct (vals_eqb (fst o) (wanted c)) eqn:E.
    - apply vals_eqb_eq in E. tauto.
    - split.
      + destruct (reference c); [destruct (all_recursion_error (fst o))|]; discriminate.
      + intros Heq. rewrite (proj2 (vals_eqb_eq _ _) Heq) in E. discriminate. }
  assert (H3 : (if vals_eqb (snd o) (fst o) then [] else ["cache_transparent"%string]) = [] <-> snd o = fst o).
  { destruct (vals_eqb (snd o) (fst o)) eqn:E.
    - apply vals_eqb_eq in E. tauto.
    - split; [discriminate|]. intros Heq. rewrite (proj2 (vals_eqb_eq _ _) Heq) in E. discriminate. }
  rewrite <- H1, <- H2, <- H3. split.
  - intros H. apply app_eq_nil in H as [Ha H]. apply app_eq_nil in H as [Hb Hc]. auto.
  - intros (-> & -> & ->). reflexivity.
Qed.

(* ---------- validb: the hypotheses of C18_holds, decided from the case ---------- *)
Lemma err_eqb_eq a b : err_eqb a b = true -> a = b.
Proof. destruct a, b; cbn; try congruence. intros H. apply str_eqb_eq in H. now subst. Qed.
Lemma res_eqb_eq a b : res_eqb a b = true -> a = b.
Proof.
  destruct a as [x|x], b as [y|y]; cbn; try congruence.
  - intros H. apply expr_eqb_eq in H. now subst.
  - intros H. apply err_eqb_eq in H. now subst.
Qed.

Lemma validb_valid c : validb c = true -> valid c.
Proof.
  unfold validb, valid. intros H.
  apply andb_prop in H as [H H4]. apply andb_prop in H as [H H5]. apply andb_prop in H as [H H3].
  apply andb_prop in H as [H1 H2].
  split; [now apply res_eqb_eq|]. split.
  { destruct (reference c) as [e|[|t|]]; cbn; auto. discriminate. }
  split.
  { apply orb_prop in H3 as [H3|H3]; [left; now apply negb_true_iff in H3|now right]. }
  split.
  { intros e Ee. rewrite Ee in H5. apply orb_prop in H5 as [H5|H5];
      [left; now apply Nat.eqb_eq in H5|right; now apply Nat.leb_le in H5]. }
  destruct (c_expected c) as [e|]; [|exact I].
  destruct (reference c) as [e'|x] eqn:Er; [|discriminate].
  apply expr_eqb_eq in H4. subst e'. unfold reference in Er.
  destruct (parse_sound documented (table_compile (c_table c)) eq_refl _ _ Er) as (t & w0 & w3 & H).
  exists t, w0, w3. tauto.
Qed.
