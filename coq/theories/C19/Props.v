(* C19 - Shared components are linearizable under every thread interleaving.
   PARTIAL: the lock protocol and the bookkeeping of the four components are modelled and proved for any
   number of threads, calls and schedules; CPython's atomicity of single statements, GIL release points
   inside C calls and SQLite's own locking are outside the model and only exercised by the scheduled
   runs of the correspondence.
   Property theorems only; each is closed by a lemma from the proof files. *)
From Coq Require Import String.
From Coq Require Import List NArith Bool Arith Lia.
From VF Require Import PyVal.Val Merge.Merge Yaml.Target Yaml.Cache Yaml.Validity Yaml.HistoryProofs.
From VF Require Import Conc.YamlReal.
From VF Require Import Conc.Machine Conc.Lin Conc.MachineProofs Conc.LinProofs Conc.Theorems Conc.RealTime Conc.Instances
  Conc.InstanceProofs C19.Entry C19.Proofs.
Import ListNotations.
Local Open Scope nat_scope.

(* ---- lock_linearizable (GENERIC): any object/world/local state, any calls whose program is ONE critical
   section  acquire; accesses...; release, any number of threads and calls, any schedule, any environment
   events: (1) calls never overlap, (2) no deadlock, (3) the results equal those of a sequential execution
   of the same calls (accepted by the `search` decision procedure with any sufficient fuel). ---- *)
Theorem C19_lock_linearizable :
  forall (O W LS Call Res E : Type) (begin : Call -> LS) (prog : Call -> list (mstep O W LS)) (ret : LS -> Res)
         (env : E -> W -> W) (res_eqb : Res -> Res -> bool),
  (forall r, res_eqb r r = true) ->
  forall body : Call -> list (LS -> O -> W -> LS * O),
  (forall c, prog c = cs_prog O W LS (body c)) ->
  forall ls0 o w (calls : list (list Call)) (sch : list (choice E)),
    let s0 := init O W LS Call Res ls0 o w calls in
    let s := run O W LS Call Res E begin prog ret env s0 sch in
    (forall i j s', tstep O W LS Call Res begin prog ret s i = Some s' -> lock s = Some j -> i = j) /\
    (all_done O W LS Call Res s = false -> exists i, tstep O W LS Call Res begin prog ret s i <> None) /\
    (all_done O W LS Call Res s = true -> forall fuel, length sch < fuel ->
       search O W LS Call Res E begin prog ret env res_eqb fuel s0 (LinProofs.envs_of E sch) (results O W LS Call Res s) = true).
Proof. exact lock_linearizable. Qed.
Print Assumptions C19_lock_linearizable.

(* ---- the real-time variant: every call carries the calls that had RETURNED when it was INVOKED; the
   instrumented machine (RealTime.v) lets a call's first access check that they are complete and its last
   access count the call as complete; a call placed before a predecessor yields None.  The instrumented
   programs are again single critical sections, so for any base component, threads, calls, stamps and
   schedule: the results of a complete run are accepted by the search over the instrumented machine, i.e.
   by a sequential witness order in which no call precedes a call that had returned before its invocation
   (the lock-acquisition order is such an order whenever the recorded invocation/response events bracket
   the critical sections: then no result is None). ---- *)
Theorem C19_lock_linearizable_real_time :
  forall (O W LS Call Res E : Type) (begin : Call -> LS) (body : Call -> list (LS -> O -> W -> LS * O))
         (ret : LS -> Res) (env : E -> W -> W) (res_eqb : Res -> Res -> bool),
  (forall r, res_eqb r r = true) ->
  forall ls0 o w (calls : list (list (rcall Call))) (sch : list (choice E)),
    let s0 := init (robj O) W (rls LS) (rcall Call) (option Res) ls0 o w calls in
    let s := run (robj O) W (rls LS) (rcall Call) (option Res) E (rbegin _ _ begin) (rprog _ _ _ _ body) (rret _ _ ret) env s0 sch in
    (forall i j s', tstep _ _ _ _ _ (rbegin _ _ begin) (rprog _ _ _ _ body) (rret _ _ ret) s i = Some s' -> lock s = Some j -> i = j) /\
    (all_done _ _ _ _ _ s = false -> exists i, tstep _ _ _ _ _ (rbegin _ _ begin) (rprog _ _ _ _ body) (rret _ _ ret) s i <> None) /\
    (all_done _ _ _ _ _ s = true -> forall fuel, length sch < fuel ->
       search (robj O) W (rls LS) (rcall Call) (option Res) E (rbegin _ _ begin) (rprog _ _ _ _ body) (rret _ _ ret) env
              (opt_eqb res_eqb) fuel s0 (LinProofs.envs_of E sch) (results _ _ _ _ _ s) = true).
Proof.
  intros O W LS Call Res E begin body ret env res_eqb Hrefl ls0 o w calls sch.
  exact (lock_linearizable (robj O) W (rls LS) (rcall Call) (option Res) E (rbegin _ _ begin) (rprog _ _ _ _ body)
           (rret _ _ ret) env (opt_eqb res_eqb) (opt_eqb_refl res_eqb Hrefl) (rbody _ _ _ _ body) (rprog_cs _ _ _ _ body)
           ls0 o w calls sch).
Qed.
Print Assumptions C19_lock_linearizable_real_time.

(* what the instrumentation rejects: thread 1's get(1) was invoked after thread 0's set(1,1) had returned
   and saw nothing -- sequentially consistent (get before set), but not in real-time order *)
Example C19_real_time_is_stronger :
  let calls := [[CSet 1 1]; [CGet 1]] in
  let st : stamps := [[ [] ]; [ [(0, 0)] ]] in
  let sch : list (choice unit) := [T 0; T 0; T 0; T 1; T 1; T 1] in
  c_search 2 calls sch [[ [5] ]; [ [0] ]] = true /\ cr_search 2 calls st sch [[ [5] ]; [ [0] ]] = false /\
  cr_search 2 calls st sch [[ [5] ]; [ [1; 1] ]] = true.
Proof. vm_compute. repeat split; reflexivity. Qed.

(* ---- failing operations.  An operation whose inner step raises (parse error / unreadable file, sqlite
   error, raising backing cache, unparsable YAML file) is an ordinary call of the model: its result is the
   exception code [8], the component's state is what the code leaves behind (unchanged; for the text file
   the cleared snapshot, which makes the next call re-read).  lock_linearizable therefore covers runs
   with failing calls: the results of ALL calls -- the later ones on the same object from the same and from
   other threads included -- equal those of a sequential execution, nothing deadlocks, and the lock is
   released on every exit path: ---- *)
Theorem C19_lock_released_on_every_exit_path :
  forall (O W LS Call Res E : Type) (begin : Call -> LS) (prog : Call -> list (mstep O W LS)) (ret : LS -> Res)
         (env : E -> W -> W) (body : Call -> list (LS -> O -> W -> LS * O)),
  (forall c, prog c = cs_prog O W LS (body c)) ->
  forall ls0 o w (calls : list (list Call)) (sch : list (choice E)),
    let s := run O W LS Call Res E begin prog ret env (init O W LS Call Res ls0 o w calls) sch in
    ((forall t, In t (threads s) -> pcl t = []) -> lock s = None) /\
    (all_done O W LS Call Res s = true -> lock s = None).
Proof.
  intros O W LS Call Res E begin prog ret env body Hcs ls0 o w calls sch s.
  assert (HI : Inv O W LS Call Res s).
  { apply (inv_run O W LS Call Res E begin prog ret env body Hcs). apply inv_init. }
  split; [apply lock_free_between_calls | apply lock_free_when_done]; exact HI.
Qed.
Print Assumptions C19_lock_released_on_every_exit_path.

(* what a failing operation leaves behind in each component *)
Theorem C19_failing_ops_leave_object_usable :
  (forall c k, lru_exec (CFail k) c = (c, [8])) /\
  (forall l s, store_exec (SFail s) l = (l, [8])) /\
  (* text file: the read hits an unparsable / missing file: the call answers [8] (as seen from its world)
     and nothing is remembered, so that the snapshot invariant holds again and the next call re-reads *)
  (forall contents bad ce l o w, bad w = true -> (ce && opt_nat_eqb (statv l) (fver o) = false) ->
     t_read contents bad ce l o w =
       ({| tc := tc l; statv := statv l; tres := at_world (tc l) w [8] |}, {| fver := None; parsed := [] |})) /\
  (* yaml: a call that read an unparsable file version answers [8] and stores nothing *)
  (forall table l o w, rd_bad table (reads l) = true ->
     y_set table l o w = (l, o) /\ yret table l = [8]).
Proof.
  repeat split.
  - intros contents bad ce l o w Hb Hc. unfold t_read. rewrite Hc, Hb. reflexivity.
  - unfold y_set. rewrite H. reflexivity.
  - unfold yret. rewrite H. reflexivity.
Qed.
Print Assumptions C19_failing_ops_leave_object_usable.

(* ---- instances: SynchronizedCache(LRUCache), TextFileSource, DataStore are single critical sections ---- *)
Theorem C19_instances_are_critical_sections :
  (forall c, cache_prog true c = cs_prog lru unit (ccall * R) (cache_body c)) /\
  (forall contents bad ce c, text_prog contents bad ce true c = cs_prog tobj nat tls (text_body contents bad ce c)) /\
  (forall c, store_prog c = cs_prog store unit (scall * R) (store_body c)).
Proof. exact (conj cache_prog_cs (conj text_prog_cs store_prog_cs)). Qed.
Print Assumptions C19_instances_are_critical_sections.

(* the small LRU specification: size bound and read-your-write *)
Theorem C19_lru_spec : forall c, 1 <= cap c ->
  (forall k v, alookup k (items (lru_set c k v)) = Some v) /\
  (forall call, length (items c) <= cap c ->
     cap (fst (lru_exec call c)) = cap c /\ length (items (fst (lru_exec call c))) <= cap c) /\
  (* an update of a key that is already cached evicts nothing and touches no other key (with and without
     mark_on_update) *)
  (forall k v x k', length (items c) <= cap c -> alookup k (items c) = Some x -> k' <> k ->
     alookup k' (items (lru_set c k v)) = alookup k' (items c) /\
     alookup k' (items (lru_set_nomark c k v)) = alookup k' (items c)).
Proof.
  intros c Hc. split; [intros; apply lru_read_your_write; exact Hc|].
  split; [intros; apply lru_size_bounded; auto|]. intros; eapply lru_update_keeps_others; eauto.
Qed.
Print Assumptions C19_lru_spec.

(* TextFileSource: a call whose stat sees file state w1 and whose read sees w2 >= w1 (an edit in between is
   allowed) answers exactly as for ONE file state wr, w1 <= wr <= w2, and leaves a consistent snapshot *)
Theorem C19_text_call_spec : forall contents bad ce c l o w l1 o1 l2 o2,
  t_inv contents bad o -> tc l = c -> stat_faulted c = false ->
  t_stat ce l o w = (l1, o1) -> t_read contents bad ce l1 o1 w = (l2, o2) ->
  tres l2 = at_world c w (if bad w then [8] else text_answer c (contents w)) /\ t_inv contents bad o2.
Proof. exact text_call_spec. Qed.
Print Assumptions C19_text_call_spec.

(* the path is switched between the call's stat and its read: the call re-reads and answers for the file
   state it read *)
Theorem C19_text_call_edit_between : forall contents bad ce c l o w1 w2 l1 o1 l2 o2,
  tc l = c -> stat_faulted c = false -> fver o <> Some (S w1) ->
  t_stat ce l o w1 = (l1, o1) -> t_read contents bad ce l1 o1 w2 = (l2, o2) ->
  tres l2 = at_world c w2 (if bad w2 then [8] else text_answer c (contents w2)).
Proof. exact text_call_edit_between. Qed.
Print Assumptions C19_text_call_edit_between.

(* a call whose os.stat FAILS transiently while the file is readable does not fail: it re-reads -- unless the
   previous reload was itself triggered by such a failure (every failure yields the same string) *)
Theorem C19_text_call_stat_fault : forall contents bad c l o w1 w2 l1 o1 l2 o2,
  tc l = c -> stat_faulted c = true -> fver o <> Some 0 ->
  t_stat true l o w1 = (l1, o1) -> t_read contents bad true l1 o1 w2 = (l2, o2) ->
  tres l2 = at_world c w2 (if bad w2 then [8] else text_answer c (contents w2)) /\ t_inv contents bad o2.
Proof. exact text_call_stat_fault. Qed.
Print Assumptions C19_text_call_stat_fault.

(* ---- yaml_concurrent: get-item (locked); compile (unlocked, reading the files one by one while they
   may change); set-item (locked) -- any threads, calls, schedule, file changes: every cache item is a
   correct result for the versions its call read, every call returns get_data_spec of the versions IT
   read, and (fe12c42) one version per file. ---- *)
Theorem C19_yaml_concurrent : forall table tree once w0 calls sch,
  let s := run (option yitem) (list nat) yls unit R nat yls_begin (yaml_prog table tree once) (yret table) bump
               (init (option yitem) (list nat) yls unit R (yls_begin tt) None w0 calls) sch in
  cache_valid table (obj s) /\
  forall t, In t (threads s) -> Forall (Ry table tree once (in_run w0 sch)) (res t).
Proof. exact yaml_concurrent. Qed.
Print Assumptions C19_yaml_concurrent.

(* hence, with at most one file change during the run, every answer of the fixed code is get_data_spec
   of a file state that was present during the run: a sequential answer *)
Theorem C19_yaml_answers_are_sequential : forall table tree w0 calls sch,
  length (yenvs sch) <= 1 ->
  let s := run (option yitem) (list nat) yls unit R nat yls_begin (yaml_prog table tree true) (yret table) bump
               (init (option yitem) (list nat) yls unit R (yls_begin tt) None w0 calls) sch in
  forall t, In t (threads s) -> forall r, In r (res t) ->
    In r (map (fun w => yans table (snapshot_of tree w)) (worlds_of w0 (yenvs sch))).
Proof. exact yaml_results_in_specs. Qed.
Print Assumptions C19_yaml_answers_are_sequential.

(* ---- the same over the REAL compile_data model of C12 (Yaml/Target.v) and any cache honouring C12's
   three-clause contract: threads of get_data calls, each call = get-item (locked); compile_data on the
   snapshot the call assembled (unlocked); set-item (locked).  For any faithful calls with ANY snapshots
   and any schedule: the cache stays content-valid in C12's state-independent sense and every call
   returns spec_full_of_call of the snapshot it read.  Premises = those of C12 (hash injective and free of
   "|" and "+", well-formed yaml values, current variants). ---- *)
Theorem C19_yaml_concurrent_real : forall V C H yload mo,
  tag_after V = true -> rerender V = false ->
  (forall text v, yload text = Ok v -> wf v = true) ->
  (forall a b, H a = H b -> a = b) -> (forall s, ~ In BAR (H s)) -> (forall s, ~ In PLUS (H s)) -> (forall s, H s <> []) ->
  forall (S : Type) (cget : str -> S -> option item * S) (cset : str -> item -> S -> S) (stored : S -> str -> item -> Prop),
  (forall k st it st', cget k st = (Some it, st') -> stored st k it) ->
  (forall k st o st' k' it, cget k st = (o, st') -> stored st' k' it -> stored st k' it) ->
  (forall k v st k' it, stored (cset k v st) k' it -> (k' = k /\ it = v) \/ stored st k' it) ->
  forall st0 (calls : list (list call)) (sch : list (choice unit)),
  HistoryProofs.cache_valid V C H yload mo S stored st0 -> Forall (Forall (faithful mo)) calls ->
  let s := run S unit YamlReal.rls call (call * Val.res (dict * str)) unit r_begin (r_prog V C H yload S cget cset)
               r_ret r_env (init S unit YamlReal.rls call (call * Val.res (dict * str)) (r_begin k0) st0 tt calls) sch in
  HistoryProofs.cache_valid V C H yload mo S stored (obj s) /\
  forall t, In t (threads s) -> Forall (fun r => snd r = spec_full_of_call V C H yload (fst r)) (Machine.res t).
Proof. exact yaml_real_concurrent. Qed.
Print Assumptions C19_yaml_concurrent_real.

(* the LRU cache of YamlTargetSource (any size; 0 = NullCache) honours the contract (C12_lru_honours_contract) *)
Theorem C19_yaml_concurrent_real_lru : forall V C H yload mo,
  tag_after V = true -> rerender V = false ->
  (forall text v, yload text = Ok v -> wf v = true) ->
  (forall a b, H a = H b -> a = b) -> (forall s, ~ In BAR (H s)) -> (forall s, ~ In PLUS (H s)) -> (forall s, H s <> []) ->
  forall capacity (calls : list (list call)) (sch : list (choice unit)), Forall (Forall (faithful mo)) calls ->
  let s := run (Cache.lru item) unit YamlReal.rls call (call * Val.res (dict * str)) unit r_begin
               (r_prog V C H yload (Cache.lru item) (Cache.cache_get capacity) (Cache.lru_set capacity)) r_ret r_env
               (init (Cache.lru item) unit YamlReal.rls call (call * Val.res (dict * str)) (r_begin k0) [] tt calls) sch in
  forall t, In t (threads s) -> Forall (fun r => snd r = spec_full_of_call V C H yload (fst r)) (Machine.res t).
Proof.
  intros V C H yload mo Ht Hr Hy Hi Hb Hp Hn capacity calls sch Hf s.
  apply (yaml_real_concurrent V C H yload mo Ht Hr Hy Hi Hb Hp Hn (Cache.lru item) (Cache.cache_get capacity) (Cache.lru_set capacity) lru_stored
           (lru_get_sound' capacity) (lru_get_keeps' capacity) (lru_set_keeps' capacity) [] calls sch); [|exact Hf].
  intros k it [].
Qed.
Print Assumptions C19_yaml_concurrent_real_lru.

(* with a single file change, versions that agree per file and stem from the state before or after the
   change form exactly one of the two states: the call's answer is a sequential answer *)
Theorem C19_one_change_consistent : forall w0 g rd,
  agree rd ->
  (forall f v, In (f, v) rd -> v = nth f w0 0 \/ v = nth f (bump g w0) 0) ->
  (forall f v, In (f, v) rd -> v = nth f w0 0) \/ (forall f v, In (f, v) rd -> v = nth f (bump g w0) 0).
Proof. exact one_change_consistent. Qed.
Print Assumptions C19_one_change_consistent.

(* the checker applied to the implementation accepts the model (lock-protected components) *)
Theorem C19_holds : forall c, valid c -> holds c (run_model c) = [].
Proof. exact holds_model. Qed.
Print Assumptions C19_holds.

(* the hypotheses of C19_holds as a boolean, computed by the driver for every evaluated run *)
Theorem C19_validb_valid : forall c, validb c = true -> valid c.
Proof. exact validb_valid. Qed.
Print Assumptions C19_validb_valid.

Theorem C19_covered_cases : forall c, validb c = true -> holds c (run_model c) = [].
Proof. intros c H. apply holds_model. apply validb_valid. exact H. Qed.
Print Assumptions C19_covered_cases.

(* ---- D15, the code before fe12c42: a tree reaching one file twice, one edit between the two reads ---- *)
Definition d15_table : list (list ydata) := [ [ [(1, 1); (2, 1)]; [(1, 2)] ]; [ [(3, 1)] ] ].
Definition d15_sch : list (choice nat) := [T 0; T 0; T 0; T 0; T 0; Ev 0; T 0; T 0; T 0; T 0].
Theorem C19_refuted_D15_file_read_twice :
  let o := results _ _ _ _ _ (y_run d15_table [0; 1; 0] false (y_init [0; 0] [1]) d15_sch) in
  o = [[ [1; 2; 2; 1; 3; 1] ]] /\ y_check d15_table [0; 1; 0] [0; 0] d15_sch false o = false /\
  y_check d15_table [0; 1; 0] [0; 0] d15_sch false
    (results _ _ _ _ _ (y_run d15_table [0; 1; 0] true (y_init [0; 0] [1]) d15_sch)) = true.
Proof. vm_compute. repeat split; reflexivity. Qed.

(* ---- without the locks ---- *)
(* LRUCache shared without SynchronizedCache: __getitem__ finds the key, another thread's insert evicts
   it, move_to_end raises KeyError *)
Definition nolock_cache_calls := [[CSet 1 1; CGet 1]; [CSet 2 2]].
Definition nolock_cache_sch : list (choice unit) := [T 0; T 0; T 0; T 0; T 1; T 1; T 1; T 0].
Theorem C19_refuted_unsynchronized_lru :
  let o := results _ _ _ _ _ (c_run false (c_init 1 nolock_cache_calls) nolock_cache_sch) in
  o = [[ [5]; [4] ]; [ [5] ]] /\
  search lru unit (ccall * R) ccall R unit c_begin (cache_prog true) c_ret c_env r_eqb 60
         (c_init 1 nolock_cache_calls) [] o = false.
Proof. vm_compute. split; reflexivity. Qed.

(* TextFileSource.get_data without `with self._lock`: the other thread's reload clears the snapshot
   between this thread's reload and its look-up *)
Definition nolock_text_calls := [[TGet 1]; [TGet 1]].
Definition nolock_text_sch : list (choice nat) := [T 0; T 0; T 0; Ev 1; T 1; T 1; T 0; T 1; T 1].
Theorem C19_refuted_text_without_lock :
  let o := results _ _ _ _ _ (t_run [[(1, 10)]; [(1, 11)]] [] true false (t_init nolock_text_calls) nolock_text_sch) in
  o = [[ [0] ]; [ [1; 11] ]] /\
  t_search [[(1, 10)]; [(1, 11)]] [] true nolock_text_calls nolock_text_sch o = false.
Proof. vm_compute. split; reflexivity. Qed.

(* a release switched to a broken state and rolled back (state 0 -> state 1, unparsable -> state 0 again with
   the SAME version): the failed reload forgets the remembered version, so the call after the roll-back re-reads;
   keeping the version (seed C19-r9s3) would serve the cleared snapshot for good *)
Example C19_rollback_after_failed_reload :
  let c := Text [[(1, 10)]; []] [false; true] true [[TGet 1; TGet 1; TGet 1]] [[ []; []; [] ]]
                [T 0; T 0; T 0; T 0; Ev 1; T 0; T 0; T 0; T 0; Ev 0; T 0; T 0; T 0; T 0] in
  valid c /\ run_model c = [[ [1; 10]; [8]; [1; 10] ]].
Proof. vm_compute. repeat split; reflexivity. Qed.

(* non-vacuity: concrete valid cases *)
Example C19_nonvacuous_text :
  let c := Text [[(1, 10); (2, 20)]; [(1, 11)]] [] true [[TGet 1; TGet 2]; [TFind 20]; [TGetAt 1 1]]
                [[ []; [] ]; [ [] ]; [ [(0, 1); (1, 0)] ]]
                [T 0; T 1; T 0; Ev 1; T 0; T 0; T 1; T 1; T 1; T 1; T 0; T 0; T 0; T 0; T 2; T 2; T 2; T 2] in
  valid c /\ run_model c = [[ [1; 11]; [0] ]; [ [0] ]; [ [1; 11] ]].
Proof. vm_compute. repeat split; reflexivity. Qed.

Example C19_nonvacuous_cache :
  let c := Cache 2 [[CSet 1 1; CGet 1]; [CSet 2 2; CSet 3 3; CLen]] [[ []; [] ]; [ []; []; [(0, 1)] ]]
                 [T 0; T 1; T 0; T 0; T 1; T 1; T 1; T 1; T 1; T 1; T 0; T 0; T 0; T 1; T 1; T 1] in
  valid c /\ run_model c = [[ [5]; [0] ]; [ [5]; [5]; [3; 2] ]].
Proof. vm_compute. repeat split; reflexivity. Qed.
