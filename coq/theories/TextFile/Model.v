(* Model of vinegar/data_source/text_file.py (TextFileSource).
   Definitions only; proofs are in TextFile/Proofs.v.

   External behaviour enters through the record [oracle] (regex engine, the
   transformation chains, the hash behind version_for_str); the file system is
   the pair (stat version, file state) that the history of a case edits. *)
From Coq Require Import String.
From Coq Require Import List NArith ZArith Bool Arith.
Import ListNotations.
Open Scope N_scope.

Definition str := list N.
Definition str_eqb (a b : str) : bool := if list_eq_dec N.eq_dec a b then true else false.

(* ---- Python values that can come out of a transformation chain ---- *)
Inductive val := VNone | VStr (s : str) | VInt (z : Z) | VList (l : list str).
Definition val_eq_dec : forall a b : val, {a = b} + {a <> b}.
Proof.
  decide equality.
  - apply (list_eq_dec N.eq_dec).
  - apply Z.eq_dec.
  - apply (list_eq_dec (list_eq_dec N.eq_dec)).
Defined.
Definition val_eqb (a b : val) : bool := if val_eq_dec a b then true else false.
Definition is_none (v : val) : bool := match v with VNone => true | _ => false end.
(* hash(value) raises TypeError exactly for lists *)
Definition hashable (v : val) : bool := match v with VList _ => false | _ => true end.

(* ---- exceptions: classes as numbers (the harness maps class names) ---- *)
Definition err := N.
Definition EValue : err := 1.          (* ValueError *)
Definition ETypeErr : err := 2.        (* TypeError *)
Definition EFileNotFound : err := 3.   (* FileNotFoundError *)
Definition EUnicode : err := 4.        (* UnicodeDecodeError *)
Definition EAttribute : err := 5.      (* AttributeError *)
Inductive res (A : Type) := Ok (a : A) | Exc (e : err).
Arguments Ok {A} a.
Arguments Exc {A} e.

(* ---- oracles ---- *)
Record oracle := {
  o_ignored : str -> bool;                       (* regular_expression_ignore.fullmatch(line) is not None *)
  o_match : str -> option (list (option str));   (* regular_expression.fullmatch(line): None, or the values of
                                                    match.group(source) for system_id and then every variable *)
  o_xform : nat -> option str -> res val;        (* config["_transform_func"](value): 0 = system_id, i+1 = i-th variable *)
  o_hash : str -> str                            (* version_for_str *)
}.

(* ---- configuration ---- *)
Inductive action := AError | AIgnore | AWarn.
Record vcfg := { vkey : str; tnone : bool; unone : bool }.   (* key, transform_none_value, use_none_value *)
Record cfg := {
  cache : bool; ffm : bool; mis : action; dup : action; has_ign : bool;
  sid : vcfg; vars : list vcfg }.

(* linear-time reversal (List.rev is quadratic when extracted) *)
Definition rv (l : str) : str := rev_append l [].

(* ---- reading the file: newline="" keeps "\n", "\r", "\r\n" as line ends ---- *)
Fixpoint raw_lines (s : str) (cur : str) : list str :=      (* cur: reversed current line *)
  match s with
  | [] => match cur with [] => [] | _ => [rv cur] end
  | c :: r =>
      if c =? 10 then rv (c :: cur) :: raw_lines r []
      else if c =? 13 then
        match r with
        | d :: r' => if d =? 10 then rv (d :: c :: cur) :: raw_lines r' []
                     else rv (c :: cur) :: raw_lines r []
        | [] => rv (c :: cur) :: raw_lines r []
        end
      else raw_lines r (c :: cur)
  end.
(* while line.endswith("\r") or line.endswith("\n"): line = line[:-1] *)
Fixpoint drop_eol_rev (l : str) : str :=
  match l with
  | c :: r => if (c =? 10) || (c =? 13) then drop_eol_rev r else l
  | [] => []
  end.
Definition strip_eol (l : str) : str := rv (drop_eol_rev (rv l)).
Definition file_lines (s : str) : list str := map strip_eol (raw_lines s []).

(* ---- _process_variable ---- *)
Definition process_variable (O : oracle) (i : nat) (vc : vcfg) (g : option str) (optional : bool) : res val :=
  let after := fun r : res val =>
    match r with
    | Exc e => Exc e
    | Ok v => if is_none v && negb optional then Exc EValue else Ok v
    end in
  match g with
  | None =>
      if negb optional && negb (tnone vc) then Exc EValue
      else if negb (tnone vc) then Ok VNone
      else after (o_xform O i None)
  | Some _ => after (o_xform O i g)
  end.

(* ---- the data tree of one system: ordered dicts ---- *)
Inductive tree := Leaf (v : val) | Node (kids : list (str * tree)).
Definition kids := list (str * tree).
Fixpoint klookup (k : str) (l : kids) : option tree :=
  match l with
  | [] => None
  | (k', t) :: r => if str_eqb k k' then Some t else klookup k r
  end.
(* d[k] = t : an existing key keeps its position *)
Fixpoint kset (k : str) (t : tree) (l : kids) : kids :=
  match l with
  | [] => [(k, t)]
  | (k', t') :: r => if str_eqb k k' then (k, t) :: r else (k', t') :: kset k t r
  end.
(* key.split(":") *)
Fixpoint split_colon (s : str) (cur : str) : list str :=
  match s with
  | [] => [rv cur]
  | c :: r => if c =? 58 then rv cur :: split_colon r [] else split_colon r (c :: cur)
  end.
(* for kc in comps[:-1]: target = target.setdefault(kc, {});  target[comps[-1]] = value.
   Item assignment on a str/int/None/list value raises TypeError, .setdefault on one AttributeError. *)
Fixpoint insert (path : list str) (v : val) (l : kids) : res kids :=
  match path with
  | [] => Ok l
  | k :: rest =>
      match rest with
      | [] => Ok (kset k (Leaf v) l)
      | _ :: _ =>
          match klookup k l with
          | None => match insert rest v [] with
                    | Ok sub => Ok (kset k (Node sub) l)
                    | Exc e => Exc e
                    end
          | Some (Node sub) => match insert rest v sub with
                               | Ok sub' => Ok (kset k (Node sub') l)
                               | Exc e => Exc e
                               end
          | Some (Leaf _) =>            (* target is now a str/int/None/list *)
              match rest with
              | [_] => Exc ETypeErr       (* target[last] = value *)
              | _ => Exc EAttribute       (* target.setdefault(next, {}) *)
              end
          end
      end
  end.

(* the loop over self._variables_config.items() for one line:
   result = (data, [(key, value)] in the order they are added to an index) *)
Definition ents := list (str * val).
Fixpoint line_vars (O : oracle) (i : nat) (vs : list vcfg) (gs : list (option str))
                   (k : kids) (es : ents) : res (kids * ents) :=
  match vs with
  | [] => Ok (k, es)
  | vc :: vr =>
      match process_variable O i vc (hd None gs) true with
      | Exc e => Exc e
      | Ok v =>
          if is_none v && negb (unone vc) then line_vars O (S i) vr (tl gs) k es
          else match insert (split_colon (vkey vc) []) v k with
               | Exc e => Exc e
               | Ok k' => line_vars O (S i) vr (tl gs) k' (es ++ [(vkey vc, v)])
               end
      end
  end.

(* what one line means, independent of the lines before it *)
Inductive lev :=
| LSkip                                     (* ignored, or mismatch with action ignore/warn *)
| LErr (e : err)                            (* the line makes the parse raise *)
| LSys (id : val) (body : res (kids * ents)).
Definition line_event (O : oracle) (c : cfg) (l : str) : lev :=
  if has_ign c && o_ignored O l then LSkip else
  match o_match O l with
  | None => match mis c with AError => LErr EValue | _ => LSkip end
  | Some gs =>
      match process_variable O 0 (sid c) (hd None gs) false with
      | Exc e => LErr e
      | Ok id => if hashable id then LSys id (line_vars O 1 (vars c) (tl gs) [] [])
                 else LErr ETypeErr          (* `system_id in self._system_data` *)
      end
  end.

(* ---- parsed snapshot ----
   The two index dicts of the code map (key, value) resp. key to a list that
   grows by append; here each is the log of appended entries and a dict lookup
   is the filter of the log by the dict key (same lists, same order). *)
Record sysrec := { s_id : val; s_kids : kids; s_ver : str }.
Record ient := { e_key : str; e_val : val; e_sys : val }.
Record pstate := { sdata : list sysrec; kvlog : list ient; nhlog : list ient }.
Definition empty : pstate := {| sdata := []; kvlog := []; nhlog := [] |}.
Definition ids (st : pstate) : list val := map s_id (sdata st).
Definition memv (id : val) (l : list val) : bool := existsb (val_eqb id) l.
Definition index_ents (h : bool) (id : val) (es : ents) : list ient :=
  map (fun kv => {| e_key := fst kv; e_val := snd kv; e_sys := id |})
      (filter (fun kv => Bool.eqb (hashable (snd kv)) h) es).

Definition step (O : oracle) (c : cfg) (st : pstate) (l : str) : res pstate :=
  match line_event O c l with
  | LSkip => Ok st
  | LErr e => Exc e
  | LSys id body =>
      if memv id (ids st) then
        match dup c with AError => Exc EValue | _ => Ok st end
      else
        match body with
        | Exc e => Exc e
        | Ok (k, es) =>
            Ok {| sdata := sdata st ++ [{| s_id := id; s_kids := k; s_ver := o_hash O l |}];
                  kvlog := kvlog st ++ index_ents true id es;
                  nhlog := nhlog st ++ index_ents false id es |}
        end
  end.
Fixpoint parse_lines (O : oracle) (c : cfg) (ls : list str) (st : pstate) : res pstate :=
  match ls with
  | [] => Ok st
  | l :: r => match step O c st l with Exc e => Exc e | Ok st' => parse_lines O c r st' end
  end.

(* ---- the file as the source sees it ---- *)
Inductive fstate := FMissing | FBad | FText (s : str)    (* FBad: not valid UTF-8 *)
                  | FFail (e : err).                      (* open() or a read raises e (injected I/O fault) *)
Definition load (O : oracle) (c : cfg) (f : fstate) : res pstate :=
  match f with
  | FMissing => Exc EFileNotFound
  | FBad => Exc EUnicode
  | FFail e => Exc e
  | FText s => parse_lines O c (file_lines s) empty
  end.

(* ---- TextFileSource ---- *)
Record source := { fver : option N; st : pstate }.     (* fver = None is _file_version == "" *)
Definition fresh : source := {| fver := None; st := empty |}.
Definition reparse (O : oracle) (c : cfg) (v : N) (f : fstate) : source * option err :=
  match load O c f with
  | Exc e => (fresh, Some e)       (* the partial snapshot is never read: fver = None forces a new parse *)
  | Ok s => ({| fver := if cache c then Some v else None; st := s |}, None)
  end.
Definition update (O : oracle) (c : cfg) (fs : N * fstate) (src : source) : source * option err :=
  if cache c then
    match fver src with
    | Some v' => if v' =? fst fs then (src, None) else reparse O c (fst fs) (snd fs)
    | None => reparse O c (fst fs) (snd fs)
    end
  else reparse O c (fst fs) (snd fs).

Definition pick (first : bool) (l : list val) : option val :=
  match l with
  | [] => None
  | x :: r => match r with [] => Some x | _ :: _ => if first then Some x else None end
  end.
Definition ent_matches (key : str) (v : val) (e : ient) : bool := str_eqb (e_key e) key && val_eqb (e_val e) v.
Definition find_in (c : cfg) (s : pstate) (key : str) (v : val) : option val :=
  pick (ffm c) (map e_sys (filter (ent_matches key v) (if hashable v then kvlog s else nhlog s))).
Definition get_in (s : pstate) (id : val) : option sysrec :=
  find (fun r => val_eqb (s_id r) id) (sdata s).

Inductive call := CGet (id : val) | CFind (key : str) (v : val).
Inductive answer := AGet (k : kids) (ver : option str) | AFind (r : option val) | ARaise (e : err).
Definition answer_of (c : cfg) (s : pstate) (cl : call) : answer :=
  match cl with
  | CGet id => if hashable id then
                 match get_in s id with
                 | Some r => AGet (s_kids r) (Some (s_ver r))
                 | None => AGet [] None
                 end
               else ARaise ETypeErr           (* dict.get with a list *)
  | CFind key v => AFind (find_in c s key v)
  end.
Definition do_call (O : oracle) (c : cfg) (fs : N * fstate) (src : source) (cl : call) : source * answer :=
  let (src', e) := update O c fs src in
  match e with
  | Some e => (src', ARaise e)
  | None => (src', answer_of c (st src') cl)
  end.

(* ---- histories ---- *)
(* fault injected into ONE call of the long-lived source: open/read of the file raises e (if the call gets that
   far), or os.stat raises so that version_for_file_path yields the token of that exception class *)
Inductive fault := FIO (e : err) | FStat (tok : N).
Definition faulted (fs : N * fstate) (flt : fault) : N * fstate :=
  match flt with FIO e => (fst fs, FFail e) | FStat tok => (tok, snd fs) end.
Inductive hstep := SEdit (v : N) (f : fstate) | SCall (cl : call) | SCallF (cl : call) (flt : fault).
(* observation: for every call, what the long-lived source answers and what a
   source constructed at that moment answers *)
Fixpoint run (O : oracle) (c : cfg) (fs : N * fstate) (src : source) (h : list hstep) : list (answer * answer) :=
  match h with
  | [] => []
  | SEdit v f :: r => run O c (v, f) src r
  | SCall cl :: r =>
      let (src', a) := do_call O c fs src cl in
      (a, snd (do_call O c fs fresh cl)) :: run O c fs src' r
  | SCallF cl flt :: r =>
      let (src', a) := do_call O c (faulted fs flt) src cl in
      (a, snd (do_call O c fs fresh cl)) :: run O c fs src' r
  end.

(* ---- reference semantics: a fresh parse of the current content ---- *)
(* the systems of a file: for every id the first line that yields it, in file order *)
Fixpoint systems (O : oracle) (c : cfg) (seen : list val) (ls : list str) : list (sysrec * ents) :=
  match ls with
  | [] => []
  | l :: r =>
      match line_event O c l with
      | LSys id (Ok (k, es)) =>
          if memv id seen then systems O c seen r
          else ({| s_id := id; s_kids := k; s_ver := o_hash O l |}, es) :: systems O c (seen ++ [id]) r
      | _ => systems O c seen r
      end
  end.
(* the exception of the first line that raises (per the configured actions) *)
Fixpoint first_error (O : oracle) (c : cfg) (seen : list val) (ls : list str) : option err :=
  match ls with
  | [] => None
  | l :: r =>
      match line_event O c l with
      | LSkip => first_error O c seen r
      | LErr e => Some e
      | LSys id body =>
          if memv id seen then
            match dup c with AError => Some EValue | _ => first_error O c seen r end
          else match body with
               | Exc e => Some e
               | Ok _ => first_error O c (seen ++ [id]) r
               end
      end
  end.
Definition var_matches (key : str) (v : val) (kv : str * val) : bool := str_eqb (fst kv) key && val_eqb (snd kv) v.
(* the ids, in file order, of the systems whose variable [key] has value [v] *)
Definition systems_with (key : str) (v : val) (sys : list (sysrec * ents)) : list val :=
  flat_map (fun se => map (fun _ => s_id (fst se)) (filter (var_matches key v) (snd se))) sys.
Definition spec_answer (O : oracle) (c : cfg) (f : fstate) (cl : call) : answer :=
  match f with
  | FMissing => ARaise EFileNotFound
  | FBad => ARaise EUnicode
  | FFail e => ARaise e
  | FText s =>
      let ls := file_lines s in
      match first_error O c [] ls with
      | Some e => ARaise e
      | None =>
          let sys := systems O c [] ls in
          match cl with
          | CGet id => if hashable id then
                         match find (fun r => val_eqb (s_id r) id) (map fst sys) with
                         | Some r => AGet (s_kids r) (Some (s_ver r))
                         | None => AGet [] None
                         end
                       else ARaise ETypeErr
          | CFind key v => AFind (pick (ffm c) (systems_with key v sys))
          end
      end
  end.
