(* The clauses of C07.Entry.own_clauses hold on every trace of the transfer model. *)
From Coq Require Import String.
From Coq Require Import List NArith ZArith Bool Lia Arith.
From VF Require Import Base.Sx Tftp.Readers Tftp.ReadersProofs Tftp.Codec Tftp.NegSpec Tftp.CodecProofs
  Tftp.Transfer Tftp.Run Tftp.Monitor Tftp.Entries C07.Entry.
Import ListNotations.

Lemma cp_app l1 l2 : client_pkts (l1 ++ l2) = client_pkts l1 ++ client_pkts l2.
Proof. unfold client_pkts. apply flat_map_app. Qed.
Lemma cp_send t p l : client_pkts (TSend t client p :: l) = p :: client_pkts l.
Proof. reflexivity. Qed.

(* ---- packets to the client produced by the parts of the transfer machine ---- *)
Lemma await_cp c want : forall evs now dl,
  client_pkts (snd (await c want now dl evs)) = [].
Proof.
  induction evs as [|[t a d] evs IH]; intros now dl; cbn [await];
    destruct (negb (late_recv (v c)) && (dl <=? now)%Z); try reflexivity.
  destruct (t <? now + sock_timeout now dl)%Z; [|reflexivity].
  destruct (negb (a =? client)%N) eqn:Ea.
  - specialize (IH (Z.max now t + proc c)%Z dl). destruct (await c want (Z.max now t + proc c)%Z dl evs) as [[[o n2] e2] l2].
    cbn [snd] in *. unfold client_pkts in *. cbn [flat_map]. apply negb_true_iff in Ea. rewrite Ea. exact IH.
  - destruct (classify (v c) d); try reflexivity.
    destruct (n =? want)%N; [reflexivity|].
    specialize (IH (Z.max now t + proc c)%Z dl). destruct (await c want (Z.max now t + proc c)%Z dl evs) as [[[o n2] e2] l2].
    cbn [snd] in *. exact IH.
Qed.

Lemma send_tries_cp c p want : forall tries now evs,
  exists k, client_pkts (snd (send_tries c tries p want now evs)) = repeat p k /\ (tries <> O -> k <> O).
Proof.
  induction tries as [|k IH]; intros now evs; cbn [send_tries].
  - exists O. split; [reflexivity|congruence].
  - pose proof (await_cp c want evs now (now + tmo c)%Z) as Ha.
    destruct (await c want now (now + tmo c)%Z evs) as [[[o n1] e1] l1]. cbn [snd] in Ha.
    destruct o; try (exists 1%nat; cbn [snd]; rewrite cp_send, Ha; split; [reflexivity|congruence]).
    destruct k as [|k'].
    + exists 1%nat. destruct (retry_fallthrough (v c)); cbn [snd]; rewrite cp_send, Ha; (split; [reflexivity|congruence]).
    + destruct (IH n1 e1) as [k2 [Hk _]].
      destruct (send_tries c (S k') p want n1 e1) as [[[o2 n2] e2] l2]. cbn [snd] in *.
      exists (S k2). rewrite cp_send, cp_app, Ha, Hk. split; [reflexivity|congruence].
Qed.

Definition is_data (p : pkt) : Prop := match p with PData _ _ => True | _ => False end.
Definition no_data (p : pkt) : Prop := match p with PData _ _ => False | _ => True end.

Lemma new_blocks_same n b rest : forall k,
  new_blocks (Some n) (repeat (PData n b) k ++ rest) = new_blocks (Some n) rest.
Proof. induction k as [|k IH]; [reflexivity|]. cbn [repeat app new_blocks]. now rewrite N.eqb_refl. Qed.

Lemma new_blocks_repeat prev n b k rest : prev <> Some n -> k <> O ->
  new_blocks prev (repeat (PData n b) k ++ rest) = b :: new_blocks (Some n) rest.
Proof.
  intros Hp Hk. destruct k as [|k]; [congruence|]. cbn [repeat app new_blocks].
  destruct prev as [m|].
  - destruct (m =? n)%N eqn:E; [apply N.eqb_eq in E; congruence|]. now rewrite new_blocks_same.
  - now rewrite new_blocks_same.
Qed.

Lemma new_blocks_no_data prev l : Forall no_data l -> new_blocks prev l = [].
Proof. induction 1 as [|p l Hp Hl IH]; [reflexivity|]. destruct p; cbn in Hp |- *; tauto. Qed.

Lemma new_blocks_skip prev l rest : Forall no_data l -> new_blocks prev (l ++ rest) = new_blocks prev rest.
Proof. induction 1 as [|p l Hp Hl IH]; [reflexivity|]. destruct p; cbn in Hp |- *; tauto. Qed.

Lemma new_blocks_data_then_none prev a b : Forall no_data b -> new_blocks prev (a ++ b) = new_blocks prev a.
Proof.
  intros Hb. revert prev. induction a as [|p a IH]; intros prev; cbn [app].
  - rewrite new_blocks_no_data by exact Hb. reflexivity.
  - destruct p; cbn [new_blocks]; auto.
    destruct prev as [m|]; [destruct (m =? blk)%N|]; now rewrite ?IH.
Qed.

Lemma next_block_fresh w blk n : w <> Some 65535%N -> next_block w blk = Some n -> n <> blk.
Proof.
  unfold next_block. intros Hw. destruct (blk =? 65535)%N eqn:E.
  - apply N.eqb_eq in E. subst blk. intros -> ->. congruence.
  - intros H. injection H as <-. lia.
Qed.

(* the DATA packets of the block loop, with retransmissions collapsed, are a prefix of the blocks *)
Lemma send_blocks_data c : wrap c <> Some 65535%N -> forall blocks blk now evs prev,
  prev = None \/ prev = Some blk ->
  exists j, new_blocks prev (client_pkts (snd (send_blocks c blk blocks now evs))) = firstn j blocks /\
            Forall is_data (client_pkts (snd (send_blocks c blk blocks now evs))).
Proof.
  intros Hw. induction blocks as [|b rest IH]; intros blk now evs prev Hprev; cbn [send_blocks].
  - exists O. split; [reflexivity|constructor].
  - destruct (next_block (wrap c) blk) as [n|] eqn:En.
    2:{ exists O. split; [reflexivity|constructor]. }
    pose proof (next_block_fresh _ _ _ Hw En) as Hn.
    assert (Hpn : prev <> Some n) by (destruct Hprev as [->| ->]; congruence).
    destruct (send_tries_cp c (PData n b) n (S (retries c)) now evs) as [k [Hk Hk0]].
    destruct (send_tries c (S (retries c)) (PData n b) n now evs) as [[[o n1] e1] l1]. cbn [snd] in Hk.
    assert (Hd1 : Forall is_data (repeat (PData n b) k)).
    { apply Forall_forall. intros x Hx. apply repeat_spec in Hx. subst x. exact Logic.I. }
    destruct o.
    + destruct (IH n n1 e1 (Some n) (or_intror eq_refl)) as [j [Hj Hd]].
      destruct (send_blocks c n rest n1 e1) as [[[o2 n2] e2] l2]. cbn [snd] in *.
      exists (S j). rewrite cp_app, Hk. split.
      * rewrite new_blocks_repeat by auto. cbn [firstn]. now rewrite Hj.
      * apply Forall_app. split; assumption.
    + exists 1%nat. cbn [snd]. rewrite Hk. split; [|exact Hd1].
      rewrite <- (List.app_nil_r (repeat _ k)). rewrite new_blocks_repeat by auto. reflexivity.
    + exists 1%nat. cbn [snd]. rewrite Hk. split; [|exact Hd1].
      rewrite <- (List.app_nil_r (repeat _ k)). rewrite new_blocks_repeat by auto. reflexivity.
    + exists 1%nat. cbn [snd]. rewrite Hk. split; [|exact Hd1].
      rewrite <- (List.app_nil_r (repeat _ k)). rewrite new_blocks_repeat by auto. reflexivity.
    + exists 1%nat. cbn [snd]. rewrite Hk. split; [|exact Hd1].
      rewrite <- (List.app_nil_r (repeat _ k)). rewrite new_blocks_repeat by auto. reflexivity.
Qed.

Lemma finish_no_data r now : Forall no_data (client_pkts (finish r now ++ [TCloseFile; TCloseSock])).
Proof. destruct r as [[]|[]]; cbn; repeat constructor. Qed.

Lemma finish_not_oack r now : match client_pkts (finish r now ++ [TCloseFile; TCloseSock]) with POack _ :: _ => False | _ => True end.
Proof. destruct r as [[]|[]]; cbn; exact Logic.I. Qed.

(* shape of the packets of a whole transfer *)
Lemma transfer_shape c oack blocks evs : wrap c <> Some 65535%N ->
  (exists j, new_blocks None (client_pkts (transfer c oack blocks evs)) = firstn j blocks) /\
  match oack with
  | [] => match client_pkts (transfer c oack blocks evs) with POack _ :: _ => False | _ => True end
  | _ => exists r, client_pkts (transfer c oack blocks evs) = POack oack :: r
  end.
Proof.
  intros Hw. unfold transfer, transfer_r. destruct oack as [|o1 oack'].
  - destruct (send_blocks_data c Hw blocks 0%N 0%Z evs None (or_introl eq_refl)) as [j [Hj Hd]].
    destruct (send_blocks c 0%N blocks 0%Z evs) as [[[r n] e] l]. cbn [snd] in *.
    rewrite cp_app. split.
    + exists j. rewrite new_blocks_data_then_none by apply finish_no_data. exact Hj.
    + destruct (client_pkts l) as [|p q] eqn:E.
      * cbn [app]. apply finish_not_oack.
      * cbn [app]. inversion Hd as [|? ? Hp _]; subst. destruct p; cbn in Hp; tauto.
  - set (oa := o1 :: oack').
    destruct (send_tries_cp c (POack oa) 0%N (S (retries c)) 0%Z evs) as [k [Hk Hk0]].
    destruct (send_tries c (S (retries c)) (POack oa) 0%N 0%Z evs) as [[[o n1] e1] l1]. cbn [snd] in Hk.
    assert (Hno : Forall no_data (repeat (POack oa) k)).
    { apply Forall_forall. intros x Hx. apply repeat_spec in Hx. subst x. exact Logic.I. }
    destruct k as [|k]; [exfalso; apply Hk0; congruence|].
    destruct o; cbn [snd].
    + destruct (send_blocks_data c Hw blocks 0%N n1 e1 None (or_introl eq_refl)) as [j [Hj Hd]].
      destruct (send_blocks c 0%N blocks n1 e1) as [[[r n2] e2] l2]. cbn [snd] in *.
      rewrite (cp_app (l1 ++ l2)), (cp_app l1), Hk. split.
      * exists j. rewrite <- List.app_assoc. rewrite new_blocks_skip by exact Hno.
        rewrite new_blocks_data_then_none by apply finish_no_data. exact Hj.
      * cbn [repeat app]. eauto.
    + rewrite cp_app, Hk. split; [|cbn [repeat app]; eauto].
      exists O. rewrite new_blocks_skip by exact Hno. apply new_blocks_no_data, finish_no_data.
    + rewrite cp_app, Hk. split; [|cbn [repeat app]; eauto].
      exists O. rewrite new_blocks_skip by exact Hno. apply new_blocks_no_data, finish_no_data.
    + rewrite cp_app, Hk. split; [|cbn [repeat app]; eauto].
      exists O. rewrite new_blocks_skip by exact Hno. apply new_blocks_no_data, finish_no_data.
    + rewrite cp_app, Hk. split; [|cbn [repeat app]; eauto].
      exists O. rewrite new_blocks_skip by exact Hno. apply new_blocks_no_data, finish_no_data.
Qed.

(* ---- framing: a prefix of the blocks that contains a short block is all of them ---- *)
Lemma completed_prefix bs bl : framed bs bl -> forall j,
  completed (N.of_nat bs) (firstn j bl) = true -> firstn j bl = bl.
Proof.
  induction bl as [|b r IH]; intros Hf j Hc; [destruct Hf|].
  destruct j as [|j]; [discriminate|]. cbn [firstn] in *.
  destruct r as [|b' r'].
  - now rewrite firstn_nil.
  - cbn [framed] in Hf. destruct Hf as [Hb Hr].
    destruct j as [|j].
    + cbn [firstn completed] in Hc. apply N.ltb_lt in Hc. lia.
    + f_equal. apply IH; [exact Hr|]. cbn [firstn] in Hc |- *. cbn [completed] in Hc.
      destruct (firstn j r') eqn:E; exact Hc.
Qed.

Lemma total_len_concat bl : total_len bl = N.of_nat (length (concat bl)).
Proof.
  induction bl as [|b r IH]; [reflexivity|]. cbn [total_len concat]. rewrite app_length, IH. lia.
Qed.

(* ---- facts about the specified OACK ---- *)
Lemma spec_oack_nil lim sp : n_oack (spec_negotiated lim sp) = [] <-> accepted_count sp = O.
Proof. destruct sp as [[b|] [t|] [z|]]; cbn; split; intros H; try discriminate; reflexivity. Qed.

Lemma spec_oack_lower lim sp : lower_names (n_oack (spec_negotiated lim sp)) = n_oack (spec_negotiated lim sp).
Proof. destruct sp as [[b|] [t|] [z|]]; reflexivity. Qed.

Lemma spec_oack_matches lim sp : oack_matches (n_oack (spec_negotiated lim sp)) (n_oack (spec_negotiated lim sp)) = true.
Proof.
  unfold oack_matches. rewrite spec_oack_lower, Nat.eqb_refl. cbn [andb].
  destruct sp as [[b|] [t|] [z|]]; cbn [spec_negotiated n_oack s_blksize s_timeout s_tsize opt_pair app forallb fst snd];
    repeat match goal with |- context [dict_get ?d ?k] =>
      let r := eval cbn [dict_get str_eqb lit bytes_of_string map String.list_ascii_of_string Ascii.N_of_ascii
                         Ascii.N_of_digits N.eqb Pos.eqb andb N.add N.mul Pos.add Pos.mul fst snd] in (dict_get d k) in
      change (dict_get d k) with r end;
    cbv beta iota; rewrite ?str_eqb_refl; reflexivity.
Qed.

Lemma spec_names_lower lim sp p : In p (n_oack (spec_negotiated lim sp)) -> lower (fst p) = fst p.
Proof.
  destruct sp as [[b|] [t|] [z|]]; cbn [spec_negotiated n_oack s_blksize s_timeout s_tsize opt_pair app In];
    intros H; repeat (destruct H as [<-|H]; [reflexivity|]); destruct H.
Qed.

Lemma n_bs_pos lim sp : (1 <= max_bs lim)%N -> s_blksize sp = None \/ (exists m, s_blksize sp = Some m /\ (1 <= m)%N) ->
  (1 <= n_bs (spec_negotiated lim sp))%N.
Proof. intros Hm [H|[m [H Hm']]]; cbn [spec_negotiated n_bs]; rewrite H; lia. Qed.

Lemma spec_blksize_pos lim na k opts : (1 <= max_bs lim)%N ->
  let sp := oack_spec lim na k opts in
  s_blksize sp = None \/ (exists m, s_blksize sp = Some m /\ (1 <= m)%N).
Proof.
  intros Hm. cbn [oack_spec s_blksize].
  destruct (requested opts (lit "blksize")) as [s|]; [|now left].
  destruct (canonical_decimal s) as [n|]; [|now left].
  destruct (8 <=? n)%N eqn:E; [|now left]. right. apply N.leb_le in E. eexists. split; [reflexivity|lia].
Qed.

Theorem own_clauses_hold c : valid c -> own_clauses c (run_transfer_case c) = [].
Proof.
  intros [Hnv [Hmax [Hkind Hwrap]]].
  unfold own_clauses. cbv zeta.
  set (sp := spec_of c). set (want := spec_negotiated (t_limits c) sp).
  assert (Hneg : t_neg c = want).
  { unfold t_neg. rewrite Hnv. apply negotiate_is_spec. }
  assert (Hbs : (1 <= n_bs want)%N).
  { apply n_bs_pos; [exact Hmax|]. apply spec_blksize_pos. exact Hmax. }
  unfold run_transfer_case. rewrite Hneg.
  destruct (transfer_shape (t_cfg c) (n_oack want) (t_blocks c) (t_events c) Hwrap) as [[j Hj] Hfirst].
  unfold sent_oack, data_payloads. rewrite Hj.
  revert Hfirst. destruct (n_oack want) as [|o1 oa] eqn:Eo; intros Hfirst.
  - (* nothing accepted: no OACK *)
    apply spec_oack_nil in Eo. rewrite Eo.
    clear Hj. revert Hfirst.
    match goal with |- context [client_pkts ?t] => destruct (client_pkts t) as [|[| | |] q] end;
      intros Hfirst; try reflexivity.
    destruct Hfirst.
  - destruct Hfirst as [r Hr]. rewrite Hr.
    assert (Hcount : (1 <=? accepted_count sp)%nat = true).
    { apply Nat.leb_le. destruct (accepted_count sp) eqn:E; [|lia].
      apply (spec_oack_nil (t_limits c)) in E. fold want in E. congruence. }
    rewrite Hcount. cbn [Bool.eqb app]. rewrite <- Eo.
    (* subset *)
    assert (Hsub : forallb (fun p => existsb (fun q => str_eqb (lower (fst q)) (lower (fst p))) (t_options c)) (n_oack want) = true).
    { apply forallb_forall. intros [name vv] Hin. cbn [fst].
      pose proof (spec_names_lower _ _ _ Hin) as Hl. cbn [fst] in Hl. rewrite Hl.
      assert (Hin' : In (name, vv) (n_oack (negotiate ncurrent (t_limits c) (t_netascii c) (t_kind c) (t_options c)))).
      { rewrite negotiate_is_spec. exact Hin. }
      apply oack_subset_of_request in Hin' as [k0 [v0 [A B]]].
      apply existsb_exists. exists (k0, v0). split; [exact A|]. cbn [fst]. apply str_eqb_eq. exact B. }
    rewrite Hsub. unfold want at 1 2. rewrite spec_oack_matches. cbn [app].
    (* tsize *)
    unfold want at 1. rewrite spec_oack_lower. fold want.
    unfold want at 1. rewrite spec_get_tsize.
    destruct (s_tsize sp) as [sz|] eqn:Ets; cbn [option_map]; [|reflexivity].
    destruct (completed (n_bs want) (firstn j (t_blocks c))) eqn:Ec; [|reflexivity].
    (* the size is known, so the mode is octet and the size is the content length *)
    unfold sp, spec_of, oack_spec in Ets. cbn [s_tsize] in Ets.
    destruct (requested (t_options c) (lit "tsize")) as [s|]; [|discriminate].
    destruct (str_eqb s (lit "0") && negb (t_netascii c)) eqn:E0; [|discriminate].
    apply andb_true_iff in E0 as [_ Ena]. apply negb_true_iff in Ena.
    unfold kind_consistent in Hkind. rewrite Ets in Hkind.
    assert (Hblocks : t_blocks c = split_blocks (N.to_nat (n_bs want)) (t_content c)).
    { unfold t_blocks. rewrite Ena, Hneg. apply octet_blocks_spec. lia. }
    assert (Hfr : framed (N.to_nat (n_bs want)) (t_blocks c)).
    { rewrite Hblocks. apply split_blocks_framed. lia. }
    rewrite <- (N2Nat.id (n_bs want)) in Ec.
    rewrite (completed_prefix _ _ Hfr j Ec).
    rewrite total_len_concat, Hblocks, split_blocks_concat, <- Hkind, str_eqb_refl. reflexivity.
Qed.

(* the announced transfer size equals the total payload of the blocks of the transfer *)
Theorem tsize_is_payload c v : valid c ->
  oack_get (t_neg c) "tsize" = Some v -> v = dec (total_len (t_blocks c)).
Proof.
  intros [Hnv [Hmax [Hkind Hwrap]]] Hv.
  assert (Hneg : t_neg c = spec_negotiated (t_limits c) (spec_of c)).
  { unfold t_neg. rewrite Hnv. apply negotiate_is_spec. }
  assert (Hbs : (1 <= n_bs (t_neg c))%N).
  { rewrite Hneg. apply n_bs_pos; [exact Hmax|]. apply spec_blksize_pos. exact Hmax. }
  unfold oack_get in Hv. rewrite Hneg, spec_get_tsize in Hv.
  destruct (s_tsize (spec_of c)) as [sz|] eqn:Ets; [|discriminate]. injection Hv as <-.
  unfold spec_of, oack_spec in Ets. cbn [s_tsize] in Ets.
  destruct (requested (t_options c) (lit "tsize")) as [s|]; [|discriminate].
  destruct (str_eqb s (lit "0") && negb (t_netascii c)) eqn:E0; [|discriminate].
  apply andb_true_iff in E0 as [_ Ena]. apply negb_true_iff in Ena.
  unfold kind_consistent in Hkind. rewrite Ets in Hkind.
  unfold t_blocks. rewrite Ena. rewrite octet_blocks_spec by lia.
  rewrite total_len_concat, split_blocks_concat. now rewrite Hkind.
Qed.
