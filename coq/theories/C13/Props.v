(* C13 - Data-tree merging and data-source chaining follow the documented algebra.
   Property theorems only; each is closed by a lemma from the proof files. *)
From Coq Require Import String.
From Coq Require Import List NArith ZArith Bool Arith Lia.
From VF Require Import Base.Sx PyVal.Val PyVal.ValProofs PyVal.Codec Merge.Merge Merge.MergeProofs
  C13.Entry C13.EntryProofs.
Import ListNotations.

Definition step_data_of (o : obs) : option dict := match o with OChain _ (Ok (d, _)) _ _ => Some d | _ => None end.

(* ---- merge_lookup_spec ----
   key order: a's keys, then the keys of b that a lacks; the value at each key is a's, b's
   or the combination of both. *)
Theorem C13_merge_key_order : forall ml ms a b m, merge ml ms a b = Ok m ->
  keys m = keys a ++ filter (fun k => negb (has k a)) (keys b).
Proof. exact merge_keys. Qed.
Print Assumptions C13_merge_key_order.

Theorem C13_merge_lookup_spec : forall ml ms a b m,
  hashable_keys a -> hashable_keys b -> merge ml ms a b = Ok m ->
  forall k, match lookup k a, lookup k b with
            | Some x, Some y => exists z, combine ml ms x y = Ok z /\ lookup k m = Some z
            | Some x, None => lookup k m = Some x
            | None, other => lookup k m = other
            end.
Proof. exact merge_lookup. Qed.
Print Assumptions C13_merge_lookup_spec.

(* the combination of two values under a common key: two mappings merge recursively ... *)
Theorem C13_combine_mappings : forall ml ms d1 d2,
  combine ml ms (VDict d1) (VDict d2) = bind (merge ml ms d1 d2) (fun m => Ok (VDict m)).
Proof. exact combine_maps. Qed.
Print Assumptions C13_combine_mappings.

(* ... otherwise: TypeError exactly when the kinds differ and a mapping (or a flagged sequence / set)
   is involved; first list then unseen elements / set union under the flag; else b's value *)
Theorem C13_combine_kinds : forall ml ms x y, is_map x && is_map y = false ->
  combine ml ms x y =
    if clash ml ms x y then Err TypeError
    else if ml && is_seq x then Ok (VList (seq_items x ++ unseen (seq_items x) (seq_items y)))
    else if ms && is_set x then Ok (VSet (set_union (seq_items x) (seq_items y)))
    else Ok y.
Proof. intros. rewrite combine_not_maps by assumption. now rewrite add_unseen_spec. Qed.
Print Assumptions C13_combine_kinds.

(* the merge raises exactly when some common key has clashing values, and then a TypeError *)
Theorem C13_merge_raises_iff : forall ml ms a b,
  (exists e, merge ml ms a b = Err e) <->
  (exists k x y e, In (k, x) a /\ lookup k b = Some y /\ combine ml ms x y = Err e).
Proof.
  intros. split.
  - intros [e E]. apply merge_err in E as (k & x & y & H1 & H2 & H3). now exists k, x, y, e.
  - intros (k & x & y & e & H1 & H2 & H3). destruct (merge ml ms a b) as [m|e'] eqn:E; [|now exists e'].
    destruct (merge_ok_all _ _ _ _ _ E k x y H1 H2) as [z Hz]. congruence.
Qed.
Print Assumptions C13_merge_raises_iff.

Theorem C13_merge_error_is_TypeError : forall ml ms a b e, merge ml ms a b = Err e -> e = TypeError.
Proof. exact merge_err_type. Qed.
Print Assumptions C13_merge_error_is_TypeError.

(* ---- identities, idempotence ---- *)
Theorem C13_merge_identity : forall ml ms a, merge ml ms a [] = Ok a /\ merge ml ms [] a = Ok a.
Proof. intros. split; [apply merge_empty_r | apply merge_empty_l]. Qed.
Print Assumptions C13_merge_identity.

(* with merge_lists a tuple merged with itself becomes a list, hence the side condition *)
Theorem C13_merge_idempotent : forall ml ms a, wf (VDict a) = true ->
  (ml = true -> notuple (VDict a) = true) -> merge ml ms a a = Ok a.
Proof. exact merge_idem. Qed.
Print Assumptions C13_merge_idempotent.

Theorem C13_idempotent_needs_side_condition :
  merge true true [(VStr [97%N], VTuple [VInt 0])] [(VStr [97%N], VTuple [VInt 0])]
  = Ok [(VStr [97%N], VList [VInt 0])].
Proof. vm_compute. reflexivity. Qed.

(* ---- associativity, partial ----
   Proved: when both groupings succeed they have the same key order (a's keys, b's new keys, c's new keys).
   NOT proved: equality of the values and agreement of the two groupings on raising (conjecture: merge is
   associative including the TypeError, for well-formed trees; it needs Python == to be an equivalence on
   all values for the list de-duplication, which this development proves only for hashable values).
   Checked instead: the real merge_data_trees and the model agree with themselves on both groupings for
   every triple of trees up to 2 nodes, and random triples beyond, under all four flag settings (clause
   merge_assoc of the correspondence; no counterexample, in particular none through TypeError). *)
Theorem C13_merge_assoc_partial : forall ml ms a b c ab l bc r,
  hashable_keys a -> hashable_keys b -> hashable_keys c ->
  merge ml ms a b = Ok ab -> merge ml ms ab c = Ok l ->
  merge ml ms b c = Ok bc -> merge ml ms a bc = Ok r ->
  keys l = keys r /\
  keys l = keys a ++ filter (fun k => negb (has k a)) (keys b)
                  ++ filter (fun k => negb (has k a) && negb (has k b)) (keys c).
Proof. exact merge_assoc_keys. Qed.
Print Assumptions C13_merge_assoc_partial.

(* ---- arguments untouched: the model returns its arguments as the after-snapshots;
   the code half is the correspondence's comparison of deep copies ---- *)
Theorem C13_args_unchanged : forall ml ms a b,
  run_model (CMerge ml ms a b) = OMerge (merge ml ms a b) a b.
Proof. reflexivity. Qed.
Print Assumptions C13_args_unchanged.

(* ---- composite source ---- *)
(* get_data is the left fold of chain_step; the source at position j is called with the merged data and
   aggregated version of the sources before it (and is not called once an earlier step failed) *)
Theorem C13_composite_is_fold : forall H ml ms srcs sys pd pv,
  comp_get H ml ms 0 srcs sys pd pv =
    (flat_map (call_at H ml ms 0 sys pd pv srcs) (seq 0 (length srcs)), chain_state H ml ms sys pd pv srcs).
Proof. intros. apply comp_get_fold. Qed.
Print Assumptions C13_composite_is_fold.

(* for sources with fixed answers the data is the fold of the merge and the version the chain of hashes *)
Theorem C13_composite_const_sources : forall H ml ms outs sys pd pv d v,
  chain_state H ml ms sys pd pv (map (fun o => const_source (Ok o) (Ok None)) outs) = Ok (d, v) ->
  fold_left (fun acc nd => bind acc (fun a => merge ml ms a nd)) (map fst outs) (Ok pd) = Ok d /\
  v = chain_version H pv (map snd outs).
Proof. intros. split; [eapply chain_const_data | eapply chain_const_version]; eauto. Qed.
Print Assumptions C13_composite_const_sources.

Theorem C13_find_first_non_none : forall srcs k v log out, comp_find 0 srcs k v = (log, out) ->
  (out = Ok None -> (forall s, In s srcs -> find_system s k v = Ok None) /\ log = seq 0 (length srcs)) /\
  (out <> Ok None ->
     (* an id - or the exception of a source, which is not swallowed - comes from the first source that did not
        answer None; no source after it is asked *)
     exists j s, nth_error srcs j = Some s /\ find_system s k v = out /\
                 (forall j' s', (j' < j)%nat -> nth_error srcs j' = Some s' -> find_system s' k v = Ok None) /\
                 log = seq 0 (S j)).
Proof.
  intros srcs k v log out E. split.
  - intros ->. eapply comp_find_none; eauto.
  - intros Hn. eapply comp_find_answer; eauto.
Qed.
Print Assumptions C13_find_first_non_none.

(* one long-lived composite: it keeps no state, so in a history every call returns what a new composite over
   the sources as they answer at that moment returns (the model of a history is the map of the single call) *)
Theorem C13_composite_is_stateless : forall ml ms ht steps,
  run_model (CHist ml ms ht steps) =
  OHist (map (fun st => match run_model (CChain ml ms ht (st_srcs st) (st_sys st) (st_pd st) (st_pv st) (st_fk st) (st_fv st)) with
                        | OChain g r f fr => (g, r, f, fr)
                        | _ => ([], Err TypeError, [], Ok None)
                        end) steps).
Proof.
  intros. cbn [run_model]. unfold hist_model. f_equal. apply map_ext. intros st. cbn zeta.
  destruct (comp_get (table_H ht) ml ms 0 (map (mk_source ht) (st_srcs st)) (st_sys st) (st_pd st) (st_pv st)) as [g r].
  destruct (comp_find 0 (map (mk_source ht) (st_srcs st)) (st_fk st) (st_fv st)) as [f fr]. reflexivity.
Qed.
Print Assumptions C13_composite_is_stateless.

(* construction from (name, config) descriptions: it succeeds only when every constituent can be created - then no
   fault budget is touched - and otherwise fails at the first constituent that cannot, consuming exactly that one
   failure and attempting nothing after it: a composite never exists with a constituent missing *)
Theorem C13_construction_all_or_nothing : forall fails,
  (fst (construct_once fails) = true -> Forall (fun n => n = 0%nat) fails /\ snd (construct_once fails) = fails) /\
  (fst (construct_once fails) = false ->
     exists pre n post, fails = pre ++ S n :: post /\ Forall (fun m => m = 0%nat) pre /\
                        snd (construct_once fails) = pre ++ n :: post).
Proof.
  induction fails as [|[|n] r IH]; cbn [construct_once].
  - split; [intros _; split; [constructor | reflexivity] | discriminate].
  - destruct (construct_once r) as [ok r'] eqn:E. cbn [fst snd] in *. destruct IH as [I1 I2]. split.
    + intros Hok. destruct (I1 Hok) as [F ->]. split; [constructor; [reflexivity | exact F] | reflexivity].
    + intros Hok. destruct (I2 Hok) as (pre & m & post & -> & F & ->).
      exists (0%nat :: pre), m, post. repeat split. constructor; [reflexivity | exact F].
  - cbn [fst snd]. split; [discriminate|]. intros _. exists [], n, r. repeat split. constructor.
Qed.
Print Assumptions C13_construction_all_or_nothing.

(* the calls on a composite that was built see every configured source, however many attempts the construction took *)
Theorem C13_built_composite_is_complete : forall ml ms ht fails fexc tries steps,
  built (construct fexc tries fails) = true ->
  run_model (CBuild ml ms ht fails fexc tries steps) = OBuild (construct fexc tries fails) (hist_model ml ms ht steps).
Proof. intros. cbn [run_model]. now rewrite H. Qed.
Print Assumptions C13_built_composite_is_complete.

(* a composite used as a constituent of another composite keeps its own merge flags: towards the outer chain it is the
   source whose get_data / find_system are the inner composite's (nothing is flattened) *)
Theorem C13_nested_composite_keeps_its_flags : forall ht ml ms l sys pd pv k v,
  get_data (mk_source ht (SComp ml ms l)) sys pd pv = snd (comp_get (table_H ht) ml ms 0 (map (mk_source ht) l) sys pd pv) /\
  find_system (mk_source ht (SComp ml ms l)) k v = snd (comp_find 0 (map (mk_source ht) l) k v).
Proof. intros. split; reflexivity. Qed.
Print Assumptions C13_nested_composite_keeps_its_flags.

(* with the same preceding version, different constituent versions give a different composite version,
   provided the hash has fixed-length output and does not collide on the strings hashed in the two runs *)
Theorem C13_composite_version_injective : forall (H : str -> str) (hlen : nat),
  (forall s, length (H s) = hlen) ->
  forall pv nvs nvs', length nvs = length nvs' ->
  (forall a b, In a (hashed H pv nvs ++ hashed H pv nvs') -> In b (hashed H pv nvs ++ hashed H pv nvs') ->
               H a = H b -> a = b) ->
  chain_version H pv nvs = chain_version H pv nvs' -> nvs = nvs'.
Proof.
  intros H hlen Hlen pv nvs nvs' Hl Hinj E.
  now destruct (chain_version_inj H hlen Hlen nvs nvs' pv pv Hl eq_refl Hinj E).
Qed.
Print Assumptions C13_composite_version_injective.

(* ---- the executable checker used on the implementation's observations accepts the model ---- *)
Theorem C13_holds : forall c, valid c -> holds c (run_model c) = [].
Proof. exact holds_model. Qed.
Print Assumptions C13_holds.

(* the driver's `covered` flag (5th item of the entry's answer) implies the hypotheses of C13_holds; all of them are
   decidable from the case: well-formed trees for merge cases, agreement of the model's two groupings for
   associativity triples (checked, not proved), nothing for chains, histories and constructions *)
Theorem C13_validb_valid : forall c, validb c = true -> valid c.
Proof.
  intros [ml ms a b | ml ms ht srcs sys pd pv fk fv | ml ms a b c' | ml ms ht steps | ml ms ht fails fexc tries steps];
    cbn [validb valid]; intros H; try exact Logic.I; try exact H.
  all: now apply andb_true_iff in H.
Qed.
Print Assumptions C13_validb_valid.
Theorem C13_covered_cases : forall c, validb c = true -> holds c (run_model c) = [].
Proof. intros c H. apply C13_holds. now apply C13_validb_valid. Qed.
Print Assumptions C13_covered_cases.

(* ---- non-vacuity ---- *)
Definition sa : val := VStr [97%N].
Definition sb : val := VStr [98%N].
Definition sc : val := VStr [99%N].
Definition ex_a : dict := [(sa, VInt 1); (sb, VDict [(sa, VList [VInt 1; VInt 2]); (sb, VSet [VInt 1])])].
Definition ex_b : dict := [(sc, VInt 9); (sb, VDict [(sc, VInt 2); (sa, VList [VInt 2; VInt 3]); (sb, VSet [VInt 2])]); (sa, VInt 5)].

Example C13_nonvacuous_merge :
  valid (CMerge true true ex_a ex_b) /\
  merge true true ex_a ex_b =
    Ok [(sa, VInt 5);
        (sb, VDict [(sa, VList [VInt 1; VInt 2; VInt 3]); (sb, VSet [VInt 1; VInt 2]); (sc, VInt 2)]);
        (sc, VInt 9)] /\
  merge false true ex_a [(sb, VInt 0)] = Err TypeError.
Proof. repeat split; vm_compute; reflexivity. Qed.

(* a toy hash with fixed-length output that is injective on the strings of a two-source chain *)
Definition toy_H (s : str) : str :=
  if str_eqb s [112; 124; 118]%N then [48; 49]%N            (* "p|v" -> "01" *)
  else if str_eqb s [112; 124; 119]%N then [48; 50]%N       (* "p|w" -> "02" *)
  else if str_eqb s [48; 49; 124; 117]%N then [48; 51]%N    (* "01|u" -> "03" *)
  else if str_eqb s [48; 50; 124; 117]%N then [48; 52]%N    (* "02|u" -> "04" *)
  else [48; 48]%N.
Example C13_nonvacuous_version :
  (forall s, length (toy_H s) = 2%nat) /\
  chain_version toy_H [112%N] [[118%N]; [117%N]] <> chain_version toy_H [112%N] [[119%N]; [117%N]].
Proof.
  split.
  - intros s. unfold toy_H. repeat match goal with |- context [if ?c then _ else _] => destruct c end; reflexivity.
  - vm_compute. discriminate.
Qed.

Example C13_nonvacuous_chain :
  run_model (CChain false true [] [SConst (Ok ([(sa, VInt 1)], [118%N])) (Ok None); SConst (Ok ([(sb, VInt 2)], [119%N])) (Ok (Some [115%N]))]
                    [115%N] [] [112%N] [107%N] VNone)
  = OChain [(0%nat, [115%N], [], [112%N]); (1%nat, [115%N], [(sa, VInt 1)], [63; 112; 124; 118]%N)]
           (Ok ([(sa, VInt 1); (sb, VInt 2)], [63; 63; 112; 124; 118; 124; 119]%N))
           [0; 1]%nat (Ok (Some [115%N])).
Proof. vm_compute. reflexivity. Qed.

Example C13_nested_flags_matter :
  let a := SConst (Ok ([(sa, VList [VInt 1])], [118%N])) (Ok None) in
  let b := SConst (Ok ([(sa, VList [VInt 2])], [119%N])) (Ok None) in
  step_data_of (run_model (CChain false true [] [SComp true true [a; b]] [115%N] [] [112%N] [107%N] VNone)) = Some [(sa, VList [VInt 1; VInt 2])] /\
  step_data_of (run_model (CChain false true [] [a; b] [115%N] [] [112%N] [107%N] VNone)) = Some [(sa, VList [VInt 2])].
Proof. split; vm_compute; reflexivity. Qed.

