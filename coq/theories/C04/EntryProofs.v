(* The executable checker of C04 accepts the model (for the current variant). *)
From Coq Require Import String.
From Coq Require Import List NArith ZArith Bool Arith Lia.
From VF Require Import Base.Sx FileH.Str FileH.StrProofs FileH.Unquote FileH.Handler FileH.Spec FileH.Codec
  FileH.PosixPathProofs FileH.MatchProofs FileH.TranslateProofs C04.Entry.
Import ListNotations.
Open Scope N_scope.

Definition valid (k : case) : Prop :=
  k_old232 k = false /\
  c_continue (k_cfg k) = true /\
  (c_filemode (k_cfg k) = false -> root_ok (c_target (k_cfg k))) /\
  (forall p, In p (wanted k) -> table_lookup (k_table k) p <> None) /\
  (* the name the template loader opens is the name it was given (it is lexically normalised already) *)
  (forall p, In p (wanted k) -> loader_path (k_cfg k) p = p).

Definition file_of (c : config) (x : ctx) : option str :=
  if c_filemode c then Some (c_target c)
  else match extra_path x with Some e => translate_path c e | None => None end.

Lemma handle_plan_continue c r x : c_continue c = true ->
  exists log tc, handle_plan T_id FS_none GD_some c r x =
    (log, match file_of c x with None => PNotFound | Some p => PServe p tc end).
Proof.
  intros Hc. unfold handle_plan, lookup, file_of, T_id, FS_none, GD_some. rewrite Hc. cbn [negb].
  rewrite andb_false_r. cbn [andb].
  destruct (extract r); [destruct (eqb_str (c_lookup_key c) SYSTEM_ID)|]; destruct (c_template c);
    cbn [andb]; (destruct (if c_filemode c then _ else _); [eexists _, _; reflexivity | eexists _, None; reflexivity]).
Qed.

Lemma handler_init_wf tftp c r : handler_init tftp c = Ok r -> wf r.
Proof.
  unfold handler_init. destruct (_ && _); [discriminate|].
  destruct (init_request_path c) as [r'|] eqn:E; [|discriminate].
  destruct (_ && _ && _); [discriminate|]. intros H; inversion H; subst. eapply init_wf; eauto.
Qed.

Theorem holds_run_model k : valid k -> holds k (run_model k) = [].
Proof.
  intros [Hv [Hc [Hroot [Htab Hlp]]]]. unfold holds, run_model. unfold wanted in Htab, Hlp.
  destruct (handler_init (k_tftp k) (k_cfg k)) as [r|] eqn:Ei; [|reflexivity].
  pose proof (handler_init_wf _ _ _ Ei) as W.
  assert (Hu : (if k_tftp k then rewrite_filename false (k_uri k) else k_uri k) = eff_uri k).
  { unfold eff_uri. destruct (k_tftp k); [apply rewrite_filename_norm|reflexivity]. }
  rewrite Hu in *. rewrite (prepare_context_spec _ _ _ W) in *.
  unfold named_file. set (sxc := spec_ctx (k_cfg k) r (eff_uri k)) in *.
  destruct (matches sxc) eqn:Em.
  2:{ cbn. rewrite andb_false_r. reflexivity. }
  destruct (handle_plan_continue (k_cfg k) r sxc Hc) as [log [tc Hp]].
  unfold handle. rewrite Hp in *.
  assert (Hfile : file_of (k_cfg k) sxc =
                  if c_filemode (k_cfg k) then Some (c_target (k_cfg k))
                  else match extra_path sxc with Some e => spec_path (k_cfg k) e | None => None end).
  { unfold file_of. destruct (c_filemode (k_cfg k)) eqn:Efm; [reflexivity|].
    destruct (extra_path sxc); [|reflexivity]. apply translate_path_spec. now apply Hroot. }
  rewrite <- Hfile. destruct (file_of (k_cfg k) sxc) as [p|] eqn:Ef.
  - assert (Hfm : (c_filemode (k_cfg k) && negb (forallb (eqb_str (c_target (k_cfg k))) [p])) = false).
    { unfold file_of in Ef. destruct (c_filemode (k_cfg k)); [|reflexivity].
      inversion Ef; subst. cbn. now rewrite eqb_str_refl. }
    specialize (Htab p (or_introl eq_refl)). specialize (Hlp p (or_introl eq_refl)).
    cbn [map]. rewrite Hlp.
    destruct (k_cached k) eqn:Eca.
    + cbn [o_init negb o_opened o_matches o_class o_body subset_of_one orb andb app forallb].
      rewrite andb_false_r. cbn [app].
      unfold table_open, serve. cbv beta. rewrite ?Hlp. rewrite Hv.
      destruct (table_lookup (k_table k) p) as [a|]; [|congruence].
      destruct a; cbn [class_of body_of]; cbn; rewrite ?eqb_str_refl; try reflexivity.
    + cbn [o_init negb o_opened o_matches o_class o_body subset_of_one orb].
      rewrite eqb_str_refl. cbn [andb app]. rewrite Hfm. cbn [app].
      unfold table_open, serve. cbv beta. rewrite ?Hlp. rewrite Hv.
      destruct (table_lookup (k_table k) p) as [a|]; [|congruence].
      destruct a; cbn [class_of body_of]; cbn; rewrite ?eqb_str_refl; try reflexivity.
  - destruct (k_cached k); cbn; rewrite ?andb_false_r; reflexivity.
Qed.

Lemma validb_valid k : validb k = true -> valid k.
Proof.
  unfold validb, valid. intros H.
  apply andb_true_iff in H as [H H5].
  apply andb_true_iff in H as [H H4]. apply andb_true_iff in H as [H H3]. apply andb_true_iff in H as [H1 H2].
  apply negb_true_iff in H1. split; [exact H1|]. split; [exact H2|]. split; [|split].
  - intros Hfm. rewrite Hfm in H3. cbn [orb] in H3. unfold root_okb in H3.
    apply andb_true_iff in H3 as [H3 Hn]. apply andb_true_iff in H3 as [Hs He].
    apply negb_true_iff in He. apply eqb_str_iff in Hn. repeat split; assumption.
  - intros p Hp. rewrite forallb_forall in H4. specialize (H4 p Hp).
    destruct (table_lookup (k_table k) p); [discriminate|discriminate H4].
  - intros p Hp. rewrite forallb_forall in H5. apply eqb_str_iff. exact (H5 p Hp).
Qed.
