(* Proofs for C17, engine part: under the version discipline of the history semantics the
   long-lived engine renders exactly what a cache-free specification renders. *)
From Coq Require Import List NArith Bool Arith Lia.
From VF Require Import Jinja.PosixPath Jinja.Engine.
Import ListNotations.
Local Open Scope nat_scope.

Lemma bytes_eqb_eq a b : bytes_eqb a b = true <-> a = b.
Proof. unfold bytes_eqb. destruct (list_eq_dec N.eq_dec a b); split; congruence. Qed.
Lemma bytes_eqb_refl a : bytes_eqb a a = true.
Proof. now apply bytes_eqb_eq. Qed.
Lemma bytes_eqb_neq a b : a <> b -> bytes_eqb a b = false.
Proof. intros H. destruct (bytes_eqb a b) eqn:E; [apply bytes_eqb_eq in E; contradiction|reflexivity]. Qed.

Section Assoc.
  Context {A : Type}.
  Lemma alookup_aremove (l : list (bytes * A)) k k' :
    alookup (aremove l k) k' = if bytes_eqb k k' then None else alookup l k'.
  Proof.
    induction l as [|[k0 v] l IH]; cbn [aremove alookup].
    - now destruct (bytes_eqb k k').
    - destruct (bytes_eqb k0 k) eqn:E0.
      + apply bytes_eqb_eq in E0. subst k0. rewrite IH. destruct (bytes_eqb k k'); reflexivity.
      + cbn [alookup]. rewrite IH. destruct (bytes_eqb k0 k') eqn:E1; [|reflexivity].
        apply bytes_eqb_eq in E1. subst k0.
        destruct (bytes_eqb k k') eqn:E2; [|reflexivity].
        apply bytes_eqb_eq in E2. subst k. rewrite bytes_eqb_refl in E0. discriminate.
  Qed.
  Lemma alookup_aset (l : list (bytes * A)) k v k' :
    alookup (aset l k v) k' = if bytes_eqb k k' then Some v else alookup l k'.
  Proof.
    unfold aset. cbn [alookup]. rewrite alookup_aremove. destruct (bytes_eqb k k'); reflexivity.
  Qed.
End Assoc.

(* ---------- the invariant ---------- *)
(* "key" = what the configured loader's up-to-date callback compares (stat version or mtime).
   Keys in files and cache entries are below the counter, and equal keys mean equal contents. *)
Record good (cfg : config) (fs : fsys) (c : tcache) (next : nat) : Prop := {
  g_fs_lt : forall p f, alookup fs p = Some f -> file_key cfg f < next;
  g_c_lt : forall n e, alookup c n = Some e -> entry_key cfg e < next;
  g_fc : forall p f n e, alookup fs p = Some f -> alookup c n = Some e -> file_key cfg f = entry_key cfg e ->
           f_content f = e_content e;
  g_ff : forall p f p' f', alookup fs p = Some f -> alookup fs p' = Some f' -> file_key cfg f = file_key cfg f' ->
           f_content f = f_content f';
  g_c_ok : forall n e, alookup c n = Some e -> broken (e_content e) = 0%N }.   (* only what compiled is cached *)

(* with caching off the callbacks always say "stale": nothing needs to hold *)
Definition inv (cfg : config) (fs : fsys) (c : tcache) (next : nat) : Prop :=
  cache_enabled cfg = true -> good cfg fs c next.

Lemma inv_nil cfg fs c next : inv cfg fs c next -> inv cfg fs [] next.
Proof.
  intros H Hc. destruct (H Hc) as [H1 H2 H3 H4 H5]. split; auto; cbn; intros; discriminate.
Qed.

Lemma inv0 cfg : inv cfg [] [] 0.
Proof. intros _. split; cbn; intros; discriminate. Qed.

Lemma entry_key_of_file cfg (f : file) :
  entry_key cfg {| e_content := f_content f; e_ver := f_ver f; e_mtime := f_mtime f |} = file_key cfg f.
Proof. unfold entry_key, file_key. now destruct (root_dir cfg). Qed.

Lemma load_spec cfg fs c name c' r : load cfg fs c name = (c', r) -> r = spec_get cfg fs name.
Proof.
  unfold load, spec_get. destruct (resolve cfg name) as [p|]; [|now intros [= <- <-]].
  destruct (alookup fs p) as [f|]; [|now intros [= <- <-]].
  destruct (broken (f_content f) =? 0)%N; now intros [= <- <-].
Qed.

Lemma load_good cfg fs c next name c' r :
  good cfg fs c next -> load cfg fs c name = (c', r) -> good cfg fs c' next.
Proof.
  intros G. unfold load. destruct (resolve cfg name) as [p|]; [|now intros [= <- <-]].
  destruct (alookup fs p) as [f|] eqn:Ef; [|now intros [= <- <-]].
  destruct (broken (f_content f) =? 0)%N eqn:Eb; [|now intros [= <- <-]].
  apply N.eqb_eq in Eb.
  intros [= <- <-]. destruct G as [H1 H2 H3 H4 H5]. split; auto.
  - intros n e. rewrite alookup_aset. destruct (bytes_eqb name n); [|apply H2].
    intros [= <-]. rewrite entry_key_of_file. eauto.
  - intros p0 f0 n e Hf. rewrite alookup_aset. destruct (bytes_eqb name n); [|now apply (H3 p0 f0 n e)].
    intros [= <-]. rewrite entry_key_of_file. cbn [e_content]. intros Hv. now apply (H4 p0 f0 p f).
  - intros n e. rewrite alookup_aset. destruct (bytes_eqb name n); [|apply H5]. now intros [= <-].
Qed.

Lemma get_template_good cfg fs c next name c' r :
  arity_bug cfg = false -> inv cfg fs c next -> get_template cfg fs c name = (c', r) ->
  r = spec_get cfg fs name /\ inv cfg fs c' next.
Proof.
  intros Hb G. unfold get_template. destruct (alookup c name) as [e|] eqn:Ec.
  2:{ intros H. split; [exact (load_spec _ _ _ _ _ _ H)|]. intros Hc. exact (load_good _ _ _ _ _ _ _ (G Hc) H). }
  destruct (cache_enabled cfg) eqn:Ece.
  - specialize (G Ece).
    destruct (opt_nat_eqb (current_version cfg fs name) (entry_key cfg e)) eqn:Ev.
    2:{ intros H. split; [exact (load_spec _ _ _ _ _ _ H)|]. intros _. exact (load_good _ _ _ _ _ _ _ G H). }
    intros [= <- <-]. split; [|now intros _]. unfold current_version in Ev. unfold spec_get.
    destruct (resolve cfg name) as [p|]; [|discriminate].
    destruct (alookup fs p) as [f|] eqn:Ef; [|discriminate].
    cbn in Ev. apply Nat.eqb_eq in Ev. pose proof (g_fc _ _ _ _ G p f name e Ef Ec Ev) as Hct.
    rewrite Hct, (g_c_ok _ _ _ _ G name e Ec). reflexivity.
  - rewrite Hb. intros H. assert (H' : load cfg fs c name = (c', r)) by (destruct (root_dir cfg); exact H).
    split; [exact (load_spec _ _ _ _ _ _ H')|]. intros Hc. congruence.
Qed.

(* ---------- rendering ---------- *)
(* generic in the invariant I on caches (for a fixed file system): all that is needed is that
   get_template returns what the cache-free specification says and keeps I *)
Section ItemsProofs.
  Variables (cfg : config) (fs : fsys) (x : ctx).
  Variable I : tcache -> Prop.
  Hypothesis Hget : forall c name c' r, I c -> get_template cfg fs c name = (c', r) ->
                      r = spec_get cfg fs name /\ I c'.
  Variable rec : bytes -> content -> tcache -> tcache * res bytes.
  Variable rec_spec : bytes -> content -> res bytes.
  Hypothesis Hrec : forall name ct c c' r, I c -> rec name ct c = (c', r) -> r = rec_spec name ct /\ I c'.

  Lemma render_items_good parent its : forall c c' r, I c ->
    render_items cfg fs x rec parent its c = (c', r) ->
    r = spec_items cfg fs x rec_spec parent its /\ I c'.
  Proof.
    induction its as [|it rest IH]; intros c c' r G; cbn [render_items spec_items].
    - intros [= <- <-]. auto.
    - assert (Hitem : forall c1 r1,
                match it with
                | Text s => (c, Ok s)
                | Var k => (c, Ok (ctx_get x k))
                | Include n =>
                    match get_template cfg fs c (join_path cfg n parent) with
                    | (c1, Ok ct) => rec (join_path cfg n parent) ct c1
                    | (c1, ENotFound) => (c1, ENotFound)
                    | (c1, ETypeError) => (c1, ETypeError)
                    | (c1, EFuel) => (c1, EFuel)
                    | (c1, EBroken k) => (c1, EBroken k)
                    end
                | Import n =>
                    match get_template cfg fs c (join_path cfg n parent) with
                    | (c1, Ok ct) => (c1, Ok (export ct))
                    | (c1, ENotFound) => (c1, ENotFound)
                    | (c1, ETypeError) => (c1, ETypeError)
                    | (c1, EFuel) => (c1, EFuel)
                    | (c1, EBroken k) => (c1, EBroken k)
                    end
                | IncludeOpt n =>
                    match get_template cfg fs c (join_path cfg n parent) with
                    | (c1, Ok ct) => rec (join_path cfg n parent) ct c1
                    | (c1, ENotFound) => (c1, Ok [])
                    | (c1, ETypeError) => (c1, ETypeError)
                    | (c1, EFuel) => (c1, EFuel)
                    | (c1, EBroken k) => (c1, EBroken k)
                    end
                end = (c1, r1) ->
                r1 = match it with
                     | Text s => Ok s
                     | Var k => Ok (ctx_get x k)
                     | Include n => match spec_get cfg fs (join_path cfg n parent) with
                                    | Ok ct => rec_spec (join_path cfg n parent) ct
                                    | ENotFound => ENotFound | ETypeError => ETypeError | EFuel => EFuel | EBroken k => EBroken k
                                    end
                     | Import n => map_ok export (spec_get cfg fs (join_path cfg n parent))
                     | IncludeOpt n => match spec_get cfg fs (join_path cfg n parent) with
                                       | Ok ct => rec_spec (join_path cfg n parent) ct
                                       | ENotFound => Ok [] | ETypeError => ETypeError | EFuel => EFuel | EBroken k => EBroken k
                                       end
                     end /\ I c1).
      { intros c1 r1. destruct it as [s|k|n|n|n].
        - intros [= <- <-]. auto.
        - intros [= <- <-]. auto.
        - destruct (get_template cfg fs c (join_path cfg n parent)) as [c0 r0] eqn:Eg.
          destruct (Hget _ _ _ _ G Eg) as [-> G0].
          destruct (spec_get cfg fs (join_path cfg n parent)) as [ct| | | |bk].
          + intros Hr. exact (Hrec _ _ _ _ _ G0 Hr).
          + intros [= <- <-]. auto.
          + intros [= <- <-]. auto.
          + intros [= <- <-]. auto.
          + intros [= <- <-]. auto.
        - destruct (get_template cfg fs c (join_path cfg n parent)) as [c0 r0] eqn:Eg.
          destruct (Hget _ _ _ _ G Eg) as [-> G0].
          destruct (spec_get cfg fs (join_path cfg n parent)) as [ct| | | |bk]; intros [= <- <-]; auto.
        - destruct (get_template cfg fs c (join_path cfg n parent)) as [c0 r0] eqn:Eg.
          destruct (Hget _ _ _ _ G Eg) as [-> G0].
          destruct (spec_get cfg fs (join_path cfg n parent)) as [ct| | | |bk].
          + intros Hr. exact (Hrec _ _ _ _ _ G0 Hr).
          + intros [= <- <-]. auto.
          + intros [= <- <-]. auto.
          + intros [= <- <-]. auto.
          + intros [= <- <-]. auto. }
      match goal with |- (let '(c1, r1) := ?X in _) = _ -> _ => destruct X as [c1 r1] eqn:Ei end.
      destruct (Hitem c1 r1 eq_refl) as [Hr1 G1]. rewrite <- Hr1.
      destruct r1 as [s1| | | |bk].
      + destruct (render_items cfg fs x rec parent rest c1) as [c2 r2] eqn:Er.
        destruct (IH _ _ _ G1 Er) as [-> G2]. intros [= <- <-]. auto.
      + intros [= <- <-]. auto.
      + intros [= <- <-]. auto.
      + intros [= <- <-]. auto.
      + intros [= <- <-]. auto.
  Qed.
End ItemsProofs.

Section RenderProofs.
  Variables (cfg : config) (fs : fsys).
  Variable I : tcache -> Prop.
  Hypothesis Hget : forall c name c' r, I c -> get_template cfg fs c name = (c', r) ->
                      r = spec_get cfg fs name /\ I c'.

  Lemma render_tpl_good fuel x : forall name ct c c' r, I c -> render_tpl fuel cfg fs x name ct c = (c', r) ->
    r = spec_tpl fuel cfg fs x name ct /\ I c'.
  Proof.
    induction fuel as [|f IH]; intros name ct c c' r G; cbn [render_tpl spec_tpl].
    - intros [= <- <-]. auto.
    - apply (render_items_good cfg fs x I Hget); auto.
  Qed.

  Lemma render_good_gen fuel c name caller c' r : I c ->
    render fuel cfg fs c name caller = (c', r) ->
    r = spec_render fuel cfg fs name caller /\ I c'.
  Proof.
    intros G. unfold render, spec_render.
    destruct (get_template cfg fs c name) as [c0 r0] eqn:Eg.
    destruct (Hget _ _ _ _ G Eg) as [-> G0].
    destruct (spec_get cfg fs name) as [ct| | | |bk].
    - now apply render_tpl_good.
    - intros [= <- <-]. auto.
    - intros [= <- <-]. auto.
    - intros [= <- <-]. auto.
    - intros [= <- <-]. auto.
  Qed.
End RenderProofs.

Lemma render_good fuel cfg fs next c name caller c' r : arity_bug cfg = false -> inv cfg fs c next ->
  render fuel cfg fs c name caller = (c', r) ->
  r = spec_render fuel cfg fs name caller /\ inv cfg fs c' next.
Proof.
  intros Hb. apply (render_good_gen cfg fs (fun c => inv cfg fs c next)).
  intros c0 n c1 r1. now apply get_template_good.
Qed.

(* a cache filled during ONE render from an unchanging file system: every entry is the current file
   of its name - enough for a fresh engine, whatever edits came before *)
Definition synced (cfg : config) (fs : fsys) (c : tcache) : Prop :=
  forall n e, alookup c n = Some e ->
    exists p f, resolve cfg n = Some p /\ alookup fs p = Some f /\ e_content e = f_content f /\ broken (e_content e) = 0%N.

Lemma get_template_synced cfg fs c name c' r : arity_bug cfg = false -> synced cfg fs c ->
  get_template cfg fs c name = (c', r) -> r = spec_get cfg fs name /\ synced cfg fs c'.
Proof.
  intros Hb G.
  assert (Hload : forall c' r, load cfg fs c name = (c', r) -> r = spec_get cfg fs name /\ synced cfg fs c').
  { intros c2 r2 H. split; [exact (load_spec _ _ _ _ _ _ H)|]. revert H. unfold load.
    destruct (resolve cfg name) as [p|] eqn:Er; [|now intros [= <- <-]].
    destruct (alookup fs p) as [f|] eqn:Ef; [|now intros [= <- <-]].
    destruct (broken (f_content f) =? 0)%N eqn:Eb; [|now intros [= <- <-]]. apply N.eqb_eq in Eb.
    intros [= <- <-] n e. rewrite alookup_aset. destruct (bytes_eqb name n) eqn:En; [|apply G].
    apply bytes_eqb_eq in En. subst n. intros [= <-]. exists p, f. auto. }
  unfold get_template. destruct (alookup c name) as [e|] eqn:Ec; [|apply Hload].
  destruct (cache_enabled cfg).
  - destruct (opt_nat_eqb (current_version cfg fs name) (entry_key cfg e)); [|apply Hload].
    intros [= <- <-]. split; [|exact G]. destruct (G _ _ Ec) as (p & f & Hr & Hf & He & Hok).
    unfold spec_get. rewrite Hr, Hf, <- He, Hok. reflexivity.
  - rewrite Hb. destruct (root_dir cfg); apply Hload.
Qed.

(* ---------- histories ---------- *)
Definition step_ok (cfg : config) (s : step) : bool := negb (fsl_cached cfg) || negb (keeps_mtime s).

Lemma history_ok_cons cfg s h : history_ok cfg (s :: h) = true -> step_ok cfg s = true /\ history_ok cfg h = true.
Proof.
  unfold history_ok, step_ok. destruct (fsl_cached cfg); cbn [negb orb forallb]; [|auto].
  intros H. apply andb_true_iff in H. exact H.
Qed.

Lemma do_edit_inv cfg st p new k : step_ok cfg (Edit p new k) = true ->
  inv cfg (s_fs st) (s_cache st) (s_next st) ->
  inv cfg (s_fs (do_edit st p new k)) (s_cache (do_edit st p new k)) (s_next (do_edit st p new k)).
Proof.
  intros Hok G Hc. destruct (G Hc) as [H1 H2 H3 H4 H5]. destruct new as [ct|]; cbn [do_edit s_fs s_cache s_next].
  - (* the key of the new file is the fresh counter value *)
    set (mt := match alookup (s_fs st) p with Some old => if k then f_mtime old else s_next st | None => s_next st end).
    assert (Hkey : file_key cfg {| f_content := ct; f_ver := s_next st; f_mtime := mt |} = s_next st).
    { unfold file_key. destruct (root_dir cfg) eqn:Er; [|reflexivity]. cbn [f_mtime]. unfold mt.
      unfold step_ok, fsl_cached in Hok. rewrite Er, Hc in Hok. cbn in Hok. apply negb_true_iff in Hok. subst k.
      now destruct (alookup (s_fs st) p). }
    split.
    + intros q f. rewrite alookup_aset. destruct (bytes_eqb p q).
      * intros [= <-]. rewrite Hkey. lia.
      * intros Hq. specialize (H1 _ _ Hq). lia.
    + intros n e He. specialize (H2 _ _ He). lia.
    + intros q f n e. rewrite alookup_aset. destruct (bytes_eqb p q).
      * intros [= <-] He. rewrite Hkey. intros Hv. specialize (H2 _ _ He). lia.
      * apply H3.
    + intros q f q' f'. rewrite !alookup_aset.
      destruct (bytes_eqb p q); destruct (bytes_eqb p q').
      * intros [= <-] [= <-]. reflexivity.
      * intros [= <-] Hq'. rewrite Hkey. intros Hv. specialize (H1 _ _ Hq'). lia.
      * intros Hq [= <-]. rewrite Hkey. intros Hv. specialize (H1 _ _ Hq). lia.
      * apply H4.
    + exact H5.
  - split.
    + intros q f. rewrite alookup_aremove. destruct (bytes_eqb p q); [discriminate|apply H1].
    + exact H2.
    + intros q f n e. rewrite alookup_aremove. destruct (bytes_eqb p q); [discriminate|apply H3].
    + intros q f q' f'. rewrite !alookup_aremove.
      destruct (bytes_eqb p q); [discriminate|]. destruct (bytes_eqb p q'); [discriminate|]. apply H4.
    + exact H5.
Qed.

Lemma run_spec_cache_irrel fuel cfg : forall h st st', s_fs st = s_fs st' -> s_next st = s_next st' ->
  run_spec fuel cfg st h = run_spec fuel cfg st' h.
Proof.
  induction h as [|[p new k|name caller] h IH]; intros st st' Hf Hn; cbn [run_spec].
  - reflexivity.
  - apply IH; destruct new; cbn [do_edit s_fs s_next]; rewrite ?Hf, ?Hn; reflexivity.
  - rewrite Hf. f_equal. now apply IH.
Qed.

Lemma run_is_spec fuel cfg : arity_bug cfg = false -> forall h st, history_ok cfg h = true ->
  inv cfg (s_fs st) (s_cache st) (s_next st) -> run fuel cfg st h = run_spec fuel cfg st h.
Proof.
  intros Hb. induction h as [|[p new k|name caller] h IH]; intros st Hh G; cbn [run run_spec].
  - reflexivity.
  - apply history_ok_cons in Hh as [Hs Hh]. apply IH; [exact Hh|]. now apply do_edit_inv.
  - apply history_ok_cons in Hh as [_ Hh].
    destruct (render fuel cfg (s_fs st) (s_cache st) name caller) as [c' out] eqn:Er.
    destruct (render_good _ _ _ _ _ _ _ _ _ Hb G Er) as [-> G'].
    f_equal. rewrite (IH {| s_fs := s_fs st; s_cache := c'; s_next := s_next st |} Hh G').
    now apply run_spec_cache_irrel.
Qed.

Lemma run_fresh_is_spec fuel cfg : arity_bug cfg = false -> forall h st,
  run_fresh fuel cfg st h = run_spec fuel cfg st h.
Proof.
  intros Hb. induction h as [|[p new k|name caller] h IH]; intros st; cbn [run_fresh run_spec].
  - reflexivity.
  - apply IH.
  - destruct (render fuel cfg (s_fs st) [] name caller) as [c' out] eqn:Er.
    assert (G : synced cfg (s_fs st) []) by (intros n e; discriminate).
    destruct (render_good_gen cfg (s_fs st) (synced cfg (s_fs st))
                (fun c0 n c1 r1 => get_template_synced cfg (s_fs st) c0 n c1 r1 Hb) fuel [] name caller c' out G Er) as [-> _].
    cbn [snd]. f_equal. apply IH.
Qed.

(* a fresh engine always renders the specification, whatever happened to the files before *)
Theorem fresh_is_spec fuel cfg h : arity_bug cfg = false -> run_fresh fuel cfg est0 h = run_spec fuel cfg est0 h.
Proof. intros Hb. now apply run_fresh_is_spec. Qed.

Theorem edits_visible fuel cfg h : arity_bug cfg = false -> history_ok cfg h = true ->
  run fuel cfg est0 h = run_fresh fuel cfg est0 h.
Proof.
  intros Hb Hh. rewrite run_is_spec, run_fresh_is_spec; auto. apply inv0.
Qed.

(* ---------- no TypeError ever ---------- *)
Lemma spec_get_no_te cfg fs name : spec_get cfg fs name <> ETypeError.
Proof.
  unfold spec_get. destruct (resolve cfg name); [destruct (alookup fs b) as [f|]; [destruct (broken (f_content f) =? 0)%N|]|];
    discriminate.
Qed.

Lemma spec_items_no_te cfg fs x rec : (forall n ct, rec n ct <> ETypeError) ->
  forall parent its, spec_items cfg fs x rec parent its <> ETypeError.
Proof.
  intros Hrec parent. induction its as [|it r IH]; cbn [spec_items]; [discriminate|].
  destruct it as [s|k|n|n|n];
    try (pose proof (spec_get_no_te cfg fs (join_path cfg n parent)) as Hg);
    repeat match goal with
           | |- context [spec_get ?a ?b ?c] => destruct (spec_get a b c) eqn:?
           | |- context [rec ?a ?b] => let H := fresh "Hr" in pose proof (Hrec a b) as H; destruct (rec a b) eqn:?
           | |- context [spec_items ?a ?b ?c ?d ?e ?f] => destruct (spec_items a b c d e f) eqn:?
           end; cbn; try discriminate; try congruence.
Qed.

Lemma spec_tpl_no_te fuel cfg fs x : forall n ct, spec_tpl fuel cfg fs x n ct <> ETypeError.
Proof.
  induction fuel as [|f IH]; intros n ct; cbn [spec_tpl]; [discriminate|]. now apply spec_items_no_te.
Qed.

Lemma spec_render_no_te fuel cfg fs name caller : spec_render fuel cfg fs name caller <> ETypeError.
Proof.
  unfold spec_render. pose proof (spec_get_no_te cfg fs name).
  destruct (spec_get cfg fs name); try discriminate; try congruence. apply spec_tpl_no_te.
Qed.

Lemma run_spec_no_te fuel cfg : forall h st, ~ In ETypeError (run_spec fuel cfg st h).
Proof.
  induction h as [|[p new k|name caller] h IH]; intros st; cbn [run_spec]; [tauto|apply IH|].
  intros [H|H]; [now apply (spec_render_no_te fuel cfg (s_fs st) name caller)|now apply (IH st)].
Qed.

Theorem render_never_fails_from_cache fuel cfg h : arity_bug cfg = false -> history_ok cfg h = true ->
  ~ In ETypeError (run fuel cfg est0 h) /\
  (forall k, nth_error (run fuel cfg est0 h) k = nth_error (run_fresh fuel cfg est0 h) k).
Proof.
  intros Hb Hh. split.
  - rewrite run_is_spec; auto using inv0. apply run_spec_no_te.
  - intros k. now rewrite edits_visible.
Qed.

(* ---------- context merge ---------- *)
Lemma alookup_map_update (d : ctx) k v k' :
  alookup (map (fun p => if bytes_eqb (fst p) k then (fst p, v) else p) d) k' =
  match alookup d k' with
  | Some old => if bytes_eqb k k' then Some v else Some old
  | None => None
  end.
Proof.
  induction d as [|[a b] d IH]; cbn [map alookup fst]; [reflexivity|].
  destruct (bytes_eqb a k) eqn:E1; cbn [alookup fst].
  - apply bytes_eqb_eq in E1. subst a. destruct (bytes_eqb k k') eqn:E2; [reflexivity|]. exact IH.
  - destruct (bytes_eqb a k') eqn:E2; [|exact IH].
    apply bytes_eqb_eq in E2. subst a. destruct (bytes_eqb k k') eqn:E3; [|reflexivity].
    apply bytes_eqb_eq in E3. subst k. rewrite bytes_eqb_refl in E1. discriminate.
Qed.

Lemma alookup_app_none {A} (d : list (bytes * A)) kv k :
  alookup (d ++ [kv]) k = match alookup d k with Some v => Some v | None => if bytes_eqb (fst kv) k then Some (snd kv) else None end.
Proof.
  induction d as [|[a b] d IH]; cbn [app alookup].
  - destruct kv as [a b]. cbn. reflexivity.
  - destruct (bytes_eqb a k); [reflexivity|exact IH].
Qed.

Lemma dict_update_lookup d kv k :
  alookup (dict_update d kv) k = if bytes_eqb (fst kv) k then Some (snd kv) else alookup d k.
Proof.
  unfold dict_update. destruct (alookup d (fst kv)) eqn:E.
  - rewrite alookup_map_update. destruct (bytes_eqb (fst kv) k) eqn:E2.
    + apply bytes_eqb_eq in E2. subst k. now rewrite E.
    + now destruct (alookup d k).
  - rewrite alookup_app_none. destruct (bytes_eqb (fst kv) k) eqn:E2.
    + apply bytes_eqb_eq in E2. subst k. now rewrite E.
    + now destruct (alookup d k).
Qed.

(* last binding of k in an update list *)
Fixpoint alookup_last (l : ctx) (k : bytes) : option bytes :=
  match l with
  | [] => None
  | (a, b) :: r => match alookup_last r k with Some v => Some v | None => if bytes_eqb a k then Some b else None end
  end.

Lemma merge_lookup base : forall caller k,
  alookup (merge_ctx caller base) k =
  match alookup_last base k with Some v => Some v | None => alookup caller k end.
Proof.
  unfold merge_ctx. induction base as [|[a b] base IH]; intros caller k; cbn [fold_left alookup_last]; [reflexivity|].
  rewrite IH. destruct (alookup_last base k); [reflexivity|].
  rewrite dict_update_lookup. cbn [fst snd]. destruct (bytes_eqb a k); reflexivity.
Qed.

Lemma alookup_last_nodup (l : ctx) k : NoDup (map fst l) -> alookup_last l k = alookup l k.
Proof.
  induction l as [|[a b] l IH]; cbn [map alookup_last alookup fst]; [reflexivity|].
  intros Hn. inversion Hn as [|? ? Hnotin Hn']; subst. rewrite (IH Hn').
  destruct (bytes_eqb a k) eqn:E; [|now destruct (alookup l k)].
  apply bytes_eqb_eq in E. subst a.
  destruct (alookup l k) eqn:El; [|reflexivity]. exfalso. apply Hnotin.
  clear -El. induction l as [|[a' b'] l IH]; cbn in *; [discriminate|].
  destruct (bytes_eqb a' k) eqn:E; [apply bytes_eqb_eq in E; now left|right; now apply IH].
Qed.

(* configuration-supplied context overrides the caller's *)
Theorem config_context_wins caller base k : NoDup (map fst base) ->
  ctx_get (merge_ctx caller base) k =
  match alookup base k with Some v => v | None => ctx_get caller k end.
Proof.
  intros Hn. unfold ctx_get. rewrite merge_lookup, (alookup_last_nodup _ _ Hn).
  destruct (alookup base k); reflexivity.
Qed.

(* ---------- two live engines do not influence each other ---------- *)
Theorem engines_independent fuel cfgA : forall h cfgB st cacheB,
  run2 fuel cfgA cfgB st cacheB h = run fuel cfgA st (only_A h).
Proof.
  induction h as [|[p new k|name caller|name caller|cfg'] h IH]; intros cfgB st cacheB; cbn [run2 only_A run].
  - reflexivity.
  - apply IH.
  - destruct (render fuel cfgA (s_fs st) (s_cache st) name caller) as [c' out]. f_equal. apply IH.
  - destruct (render fuel cfgB (s_fs st) cacheB name caller) as [cB' o]. apply IH.
  - apply IH.
Qed.
