"""C17 - Jinja engine: edits always show up; includes and python-module access confined.

Real engines from vinegar.template.jinja.get_instance in a temp directory: every history of
{edit / delete a template or an included / imported file, render} is replayed against one long-lived
engine with a forced mtime change per edit; the outputs are compared with the extracted Coq model
(Jinja/Engine.v) and judged by the extracted `holds` against the cache-free specification.
The _PythonHelper allow-list is driven directly and through templates.
"""
import atexit
import codecs
import itertools
import os
import posixpath
import shutil
import tempfile
import time

import jinja2

import common
from common import Check, sx
from vinegar.template import jinja as J

ROOT = "/r"                         # canonical name of the temp directory in the model
_T = None
_clock = [1_700_000_000]


def tmp():
    global _T
    if _T is None:
        _T = os.path.realpath(tempfile.mkdtemp(prefix="verif-c17-"))
        atexit.register(shutil.rmtree, _T, True)
    return _T


# ----------------------------------------------------------------------------- "edit during load"
# A codec registered by the harness and selected through the engine's public `encoding` option: when it is asked
# to decode the bytes of the armed file it first performs the armed edit, i.e. the edit lands after the bytes
# were read and before the loader returns.
_HOOK = {"expect": None, "action": None, "fired": False}


def _hook_decode(data, errors="strict"):
    data = bytes(data)
    if _HOOK["action"] is not None and not _HOOK["fired"] and data == _HOOK["expect"]:
        _HOOK["fired"] = True
        _HOOK["action"]()
    return codecs.utf_8_decode(data, errors, True)


def _hook_search(name):
    if name in ("verif-c17", "verif_c17"):
        return codecs.CodecInfo(name="verif-c17", encode=codecs.utf_8_encode, decode=_hook_decode)
    return None


codecs.register(_hook_search)


# ----------------------------------------------------------------------------- template contents
def src(content):
    """model content -> Jinja source (str), or bytes for a file that is not valid UTF-8"""
    if len(content) > 2 and content[2] == 1:
        return "{% if %}this does not compile " + content[1]          # TemplateSyntaxError
    if len(content) > 2 and content[2] == 2:
        return b"\xff\xfe\xfa not utf-8 " + content[1].encode()      # UnicodeDecodeError
    items, export = content[:2]
    out = []
    for n, (kind, s) in enumerate(items):
        if kind == 0:
            out.append(s)
        elif kind == 1:
            out.append("{{ %s }}" % s)
        elif kind == 2:
            out.append("{%% include '%s' %%}" % s)
        elif kind == 4:
            out.append("{%% include '%s' ignore missing %%}" % s)
        else:
            out.append("{%% import '%s' as m%d %%}{{ m%d.v }}" % (s, n, n))
    out.append("{%% set v = '%s' %%}" % export)
    return "".join(out)


MAIN_INCLUDES = ["inc.txt", "../inc.txt", "sub/inc.txt", "./inc.txt", "../sub/./inc.txt", "nosuch.txt"]


def main_content(k, variant=None):
    """variant = (include name, 2 include | 4 include ignore missing, import name)"""
    inc, kind, imp = variant if variant else (MAIN_INCLUDES[k % len(MAIN_INCLUDES)], 2, "lib.txt")
    return ([(0, "M%d[" % k), (1, "a"), (0, "]"), (kind, inc), (0, "|"), (3, imp), (0, ".")], "XM%d" % k)


# include / import names with "." and ".." at the start, in the MIDDLE and at several places
DOTTED_NAMES = ["inc.txt", "sub/../inc.txt", "x/../inc.txt", "./sub/../inc.txt", "sub/./inc.txt", "../sub/../inc.txt",
                "sub/../sub/inc.txt", "a/b/../../inc.txt", "../inc.txt", "./inc.txt", "sub/../../inc.txt", "nosuch/../nosuch.txt"]
DOTTED_NAMES += ["..meta/inc.txt", "../..meta/inc.txt", ".hidden.txt", "...txt", "./..meta/inc.txt", "..meta/../inc.txt",
                 "../../nosuch.txt", "../../../../../../nosuch.txt"]
DOTTED_IMPORTS = ["lib.txt", "x/../lib.txt", "./lib.txt", "sub/../lib.txt"]


def inc_content(tag, k):
    its = [(0, "%s%d<" % (tag, k)), (1, "b"), (0, ">")]
    if k % 2:
        its.append((2, "leaf.txt"))
    return (its, "X%s%d" % (tag, k))


def lib_content(tag, k):
    return ([(0, "ignored")], "%s%d" % (tag, k))


def leaf_content(tag):
    return ([(0, "(%s)" % tag)], "")


SETUP = [("sub/main.txt", main_content(0)), ("inc.txt", inc_content("I", 0)), ("sub/inc.txt", inc_content("J", 0)),
         ("lib.txt", lib_content("L", 0)), ("sub/lib.txt", lib_content("K", 0)),
         ("leaf.txt", leaf_content("leaf")), ("sub/leaf.txt", leaf_content("subleaf")),
         ("main.txt", ([(0, "R["), (1, "a"), (1, "z"), (0, "]"), (2, "inc.txt"), (3, "sub/lib.txt")], "")),
         # directories and files whose names merely BEGIN with dots (Kubernetes ..data, dot files)
         ("..meta/inc.txt", ([(0, "<..meta>")], "")), ("sub/..meta/inc.txt", ([(0, "<sub/..meta>")], "")),
         ("sub/.hidden.txt", ([(0, "<hidden>")], "")), ("sub/...txt", ([(0, "<three dots>")], "")),
         # a top-level template in the directory that is the process's working directory in the "cwdsub" cases
         ("w/top.txt", ([(0, "T["), (1, "a"), (0, "]"), (2, "../inc.txt"), (0, "|"), (3, "../lib.txt")], "XT"))]

# history alphabet: (code, description)
ALPHA = ["Em", "Ei", "Ej", "El", "Ek", "Di", "Dj", "R", "Rr"]
# adversarial operations (added for the seeded changes C17-s2 / C17-s3):
#   Lm Lj Li  render sub/main.txt while an edit of sub/main.txt / sub/inc.txt / inc.txt is armed to happen DURING the
#             load of that very file (after its bytes were read); only possible with the engine's own loader
#   Sm Sj Si Sk Sl  same-size rewrite IN PLACE of sub/main, sub/inc, inc, sub/lib, lib with the mtime restored (ctime moves)
#   Nm Nj     same-size rewrite through a NEW inode (os.replace) with the mtime restored
#   Zm Zj Zi Zk / Ym Yj Yi Yk  edit sub/main, sub/inc, inc, sub/lib to content with a syntax error / that is not UTF-8
#   Rt        render w/top.txt (the working directory is w/ in the "cwdsub" cases); Rc render the top of an include chain
#   Rl Rp     render lk/main.txt (symbolic link to ../sub/main.txt) / pl/main.txt (pl is a symbolic link to deep/d2)
#   Pm Pd     re-point the file link to ../main.txt / the directory link to deep (no main.txt there)
#   Br Bc Bd Bx Ba Be  a SECOND engine is constructed that differs in relative_includes / cache_enabled / root_dir / context /
#             python allow-list / encoding and stays alive; Ub renders two templates with it
ADV = ["Lm", "Lj", "Li", "Sm", "Sj", "Si", "Sk", "Sl", "Nm", "Nj"]
OP_PATH = {"m": "sub/main.txt", "j": "sub/inc.txt", "i": "inc.txt", "k": "sub/lib.txt", "l": "lib.txt"}


def same_size_variant(content):
    """toggle the case of the first letter of the first text item and of the export value"""
    items, export = content[:2]
    items = list(items)
    for n, (kind, t) in enumerate(items):
        if kind == 0 and t:
            items[n] = (0, t[0].swapcase() + t[1:])
            break
    return (items, export[:1].swapcase() + export[1:]) + tuple(content[2:])


def interpret(c, engine):
    """runs the history; `engine` is an object with edit(rel, content, mode) and render(rel, ctx, hook) -> (result, fired);
    returns (results, steps for the model)"""
    steps = []
    results = []
    cur = {}

    links = {}        # alias path -> target path: a symbolic link is, for the model, a second path with the target's content

    def edit(rel, content, mode="normal"):
        engine.edit(rel, content, mode)
        steps.append(("edit", rel, content, mode in ("inplace", "newinode")))      # in place / new inode: the mtime is kept
        if content is None:
            cur.pop(rel, None)
        else:
            cur[rel] = content
        for alias, tgt in links.items():
            if tgt == rel:
                steps.append(("edit", alias, content, mode in ("inplace", "newinode")))

    def link(alias, link_text, target_rel, alias_file=None):
        """(re-)point the symbolic link `alias` (file or directory) to link_text; alias_file -> target_rel is the one
        template reached through it"""
        engine.link(alias, link_text)
        a = alias_file or alias
        links[a] = target_rel
        steps.append(("edit", a, cur.get(target_rel) if target_rel else None, False))

    def render(rel, ctx, hook=None):
        res, fired = engine.render(rel, ctx, None if hook is None else (hook[0], cur.get(hook[0]), hook[1]))
        steps.append(("render", rel, ctx))
        results.append(res)
        if fired:                                   # the armed edit took place after the file's bytes had been read
            steps.append(("edit", hook[0], hook[1], False))
            cur[hook[0]] = hook[1]

    for p, ct in SETUP:
        if p == "w/top.txt" and c.get("top_variant"):
            ct = ([(0, "T["), (1, "a"), (0, "]"), (c["top_variant"][1], c["top_variant"][0]), (0, "|"), (3, c["top_variant"][2])], "XT")
        edit(p, main_content(0, c["main_variant"]) if (p == "sub/main.txt" and c.get("main_variant")) else ct)
    if c.get("symlinks"):
        # lk/main.txt -> ../sub/main.txt (a link to a FILE, with other files next to the link than next to the target);
        # pl -> deep/d2 (a link to a DIRECTORY whose parent differs from the link's parent)
        edit("lk/inc.txt", inc_content("Q", 0))
        edit("lk/lib.txt", lib_content("QL", 0))
        edit("lk/leaf.txt", leaf_content("lkleaf"))
        edit("up.txt", ([(0, "<up at the root>")], ""))
        edit("deep/up.txt", ([(0, "<up below deep>")], ""))
        edit("deep/d2/main.txt", ([(0, "D["), (1, "a"), (0, "]"), (2, "../up.txt"), (0, "|"), (4, "../nosuch.txt")], ""))
        link("lk/main.txt", "../sub/main.txt", "sub/main.txt")
        link("pl", "deep/d2", "deep/d2/main.txt", alias_file="pl/main.txt")
    if c.get("chain"):
        # a chain of includes of the given depth through files with long names
        depth, pad = c["chain"]
        names = ["chain/c%02d_%s.txt" % (i, "n" * pad) for i in range(depth)]
        for i, nm in enumerate(names):
            nxt = [(2, posixpath.basename(names[i + 1]))] if i + 1 < depth else [(0, "<end>")]
            edit(nm, ([(0, "%d," % i)] + nxt, ""))
        c["chain_top"] = names[0]
    ed = itertools.count(1)
    for h in c["history"]:
        k = next(ed)
        if h == "Em":
            edit("sub/main.txt", main_content(k))
        elif h == "Ei":
            edit("inc.txt", inc_content("I", k))
        elif h == "Ej":
            edit("sub/inc.txt", inc_content("J", k))
        elif h == "El":
            edit("lib.txt", lib_content("L", k))
        elif h == "Ek":
            edit("sub/lib.txt", lib_content("K", k))
        elif h == "Di":
            edit("inc.txt", None)
        elif h == "Dj":
            edit("sub/inc.txt", None)
        elif h[0] == "B":                            # another engine with ONE other setting is constructed (and stays alive)
            engine.other(h[1])
        elif h == "Ub":                              # ... and used
            engine.use_other()
        elif h[0] in "ZY" and len(h) == 2:           # edit to content that does not compile (Z syntax error, Y not UTF-8)
            edit(OP_PATH[h[1]], ([], "broken%d" % k, 1 if h[0] == "Z" else 2))
        elif h == "Rl":
            render("lk/main.txt", [("a", "la%d" % k), ("b", "lb%d" % k)])
        elif h == "Rp":
            render("pl/main.txt", [("a", "pa%d" % k)])
        elif h == "Pm":                              # the file link is re-pointed to another template
            link("lk/main.txt", "../main.txt", "main.txt")
        elif h == "Pd":                              # the directory link is re-pointed to a directory without main.txt
            link("pl", "deep", None, alias_file="pl/main.txt")
        elif h == "Rt":
            render("w/top.txt", [("a", "ta%d" % k)])
        elif h == "Rc":
            render(c["chain_top"], [("a", "x")])
        elif h in ("Xi", "Xj"):                      # the include file is replaced by a DIRECTORY of that name
            edit("inc.txt" if h == "Xi" else "sub/inc.txt", None, "directory")
        elif h == "R":
            render("sub/main.txt", c.get("caller") or [("a", "ca%d" % k), ("b", "cb%d" % k)])
        elif h == "Rr":
            render("main.txt", c.get("caller") or [("b", "rb%d" % k), ("z", "cz")])
        elif h[0] == "L":
            rel = OP_PATH[h[1]]
            new = main_content(k) if h[1] == "m" else inc_content("J" if h[1] == "j" else "I", k)
            render("sub/main.txt", [("a", "la%d" % k), ("b", "lb%d" % k)], hook=(rel, new))
        elif h[0] in "SN":
            rel = OP_PATH[h[1]]
            if rel in cur:
                edit(rel, same_size_variant(cur[rel]), "inplace" if h[0] == "S" else "newinode")
    return results, steps


# ----------------------------------------------------------------------------- real engine
def src_bytes(content):
    t = src(content)
    return t if isinstance(t, bytes) else t.encode("utf-8")


def write_file(path, text):
    os.makedirs(os.path.dirname(path), exist_ok=True)
    with open(path, "wb") as f:
        f.write(text if isinstance(text, bytes) else text.encode("utf-8"))
    _clock[0] += 3
    t = _clock[0] * 1_000_000_000 + 1234567
    os.utime(path, ns=(t, t))           # every edit changes mtime (and with it the stat version)


class RealEngine:
    def __init__(self, c, T):
        self.c, self.T = c, T
        cfg = {"cache_enabled": c["cache"], "relative_includes": c["rel"]}
        if c["root"]:
            cfg["root_dir"] = T
        else:
            cfg["encoding"] = "verif-c17"          # utf-8 plus the load hook (public configuration option)
        if c["base"]:
            cfg["context"] = dict(c["base"])
        if c.get("envloader"):
            # a loader handed in through the documented `env` option instead of root_dir: the engine's other settings
            # (relative_includes, context, ...) apply all the same; model: the file-system loader on T
            fsl = jinja2.FileSystemLoader(T)
            loader = {"fsl": fsl, "choice": jinja2.ChoiceLoader([jinja2.DictLoader({}), fsl]),
                      "prefix": jinja2.ChoiceLoader([jinja2.PrefixLoader({"zz": jinja2.DictLoader({})}), fsl])}[c["envloader"]]
            cfg = {"env": {"loader": loader}}
            if not (c["rel"] and c.get("rel_default")):
                cfg["relative_includes"] = c["rel"]          # otherwise the documented default (True) is relied on
            if c["base"]:
                cfg["context"] = dict(c["base"])
        elif c.get("explicit_none") and not c["root"]:
            cfg["root_dir"] = None                           # documented as "not set"
            cfg["env"] = {}
        self.eng = J.get_instance(cfg)

    def link(self, alias, link_text):
        p = os.path.join(self.T, alias)
        os.makedirs(os.path.dirname(p), exist_ok=True)
        if os.path.islink(p) or os.path.exists(p):
            os.unlink(p)
        os.symlink(link_text, p)

    def other(self, what):
        """a second live engine that differs in one per-engine setting: r relative_includes, c cache_enabled,
        d root_dir, x context, a python allow-list, e encoding"""
        c = self.c
        cfg = {"cache_enabled": c["cache"], "relative_includes": c["rel"]}
        if c["root"]:
            cfg["root_dir"] = self.T
        if c["base"]:
            cfg["context"] = dict(c["base"])
        if what == "r":
            cfg["relative_includes"] = not c["rel"]
        elif what == "c":
            cfg["cache_enabled"] = not c["cache"]
        elif what == "d":
            if c["root"]:
                del cfg["root_dir"]
            else:
                cfg["root_dir"] = os.path.join(self.T, "sub")
        elif what == "x":
            cfg["context"] = {"a": "OTHER-ENGINE", "b": "OTHER-ENGINE", "z": None}
        elif what == "a":
            cfg["provide_python_modules"] = ["*"]
        elif what == "e":
            cfg["encoding"] = "latin-1"
        self.others = getattr(self, "others", []) + [(J.get_instance(cfg), cfg)]

    def use_other(self):
        for eng, cfg in getattr(self, "others", []):
            for name in ("main.txt", "sub/main.txt"):
                try:
                    eng.render(name if "root_dir" in cfg else os.path.join(self.T, name), {"a": "ob", "b": "ob"})
                except Exception:          # noqa
                    pass

    def edit(self, rel, content, mode):
        p = os.path.join(self.T, rel)
        if os.path.isdir(p):
            os.rmdir(p)
        if content is None:
            if os.path.exists(p):
                os.unlink(p)
            if mode == "directory":
                os.mkdir(p)
        elif mode == "normal":
            write_file(p, src(content))
        else:
            st = os.stat(p)
            data = src_bytes(content)
            assert len(data) == st.st_size, "same-size variant changed the size"
            time.sleep(0.012)                       # a coarse ctime clock must have moved since the last change
            if mode == "inplace":
                with open(p, "r+b") as f:
                    f.write(data)
            else:
                with open(p + ".new", "wb") as f:
                    f.write(data)
                os.replace(p + ".new", p)
            os.utime(p, ns=(st.st_atime_ns, st.st_mtime_ns))      # mtime as before; the kernel still moves ctime

    def render(self, rel, ctx, hook):
        c = self.c
        if c["root"]:
            name = rel
        elif c["relname"]:
            name = os.path.relpath(os.path.join(self.T, rel), os.getcwd())       # may climb above the working directory
        else:
            name = os.path.join(self.T, rel)
        if hook is not None and hook[1] is not None and not c["root"]:
            target, old, new = hook
            _HOOK.update(expect=src_bytes(old), fired=False,
                         action=lambda: write_file(os.path.join(self.T, target), src(new)))
        try:
            try:
                res = (0, self.eng.render(name, dict(ctx)).encode("utf-8"))
            except FileNotFoundError:
                res = (1,)
            except TypeError:
                res = (2,)
            except RecursionError:
                res = (3,)
            except jinja2.TemplateSyntaxError:
                res = (4, 1)
            except UnicodeDecodeError:
                res = (4, 2)
            except Exception as ex:          # noqa
                res = (0, ("!exception:" + type(ex).__name__).encode())
        finally:
            fired = _HOOK["fired"]
            _HOOK.update(expect=None, action=None, fired=False)
        return res, fired


def run_engine(c):
    T = tmp()
    for name in os.listdir(T):
        q = os.path.join(T, name)
        if os.path.islink(q) or not os.path.isdir(q):
            os.unlink(q)
        else:
            shutil.rmtree(q, ignore_errors=True)
    old = os.getcwd()
    os.makedirs(os.path.join(T, "w"), exist_ok=True)
    os.chdir(os.path.join(T, "w") if c.get("cwdsub") else T)
    try:
        results, steps = interpret(c, RealEngine(c, T))
        return {"results": results, "steps": steps}
    finally:
        os.chdir(old)


def run_helper(c):
    allow = c["allow"]
    eng = J.get_instance({"provide_python_modules": allow[0] if c.get("as_str") else list(allow)})
    helper = eng._environment.globals["python"]
    res = []
    if c.get("via_template"):
        T = tmp()
        p = os.path.join(T, "py.txt")
        for m in c["queries"]:
            with open(p, "w") as f:
                f.write("{{ python['%s.__name__'] }}" % m)
            _clock[0] += 3
            os.utime(p, ns=(_clock[0] * 10**9, _clock[0] * 10**9))
            try:
                res.append(eng.render(p, {}) != "")
            except RuntimeError:
                res.append(False)
    else:
        for i, m in enumerate(c["queries"]):
            if c.get("other_allow") and i == len(c["queries"]) // 2:
                # a second engine with ANOTHER allow-list is constructed and asked the same things meanwhile
                other = J.get_instance({"provide_python_modules": c["other_allow"]})._environment.globals["python"]
                for q in c["queries"]:
                    try:
                        other._check_access(q)
                    except RuntimeError:
                        pass
            try:
                helper._check_access(m)
                res.append(True)
            except RuntimeError:
                res.append(False)
    return (res, len(helper._cache))


GETITEM_KEYS = ["os.getcwd", "os.path.join", "os.environ.get", "os.sys.modules", "os.path.sep.join", "string.Template.delimiter",
                "datetime.datetime.now", "collections.abc.Mapping", "json.decoder.JSONDecoder", "json.decoder.nosuch", "os.nosuch",
                "nosuchmodule.x", "nosuch.sub.x", "os", "", "os.", ".os", "os..getcwd", "string.capwords", "string.Formatter.format",
                "os.path", "posixpath.join", "importlib.import_module", ".os.x", "..x", "os.path."]
GETITEM_ALLOW = [["os.*"], ["*"], ["os"], ["os", "os.*"], ["string.*"], ["string"], ["datetime.*"], ["os.path"], ["json.*", "collections.*"],
                 [".*"], ["os.environ"], ["os.environ.*"], ["string.Template"], ["importlib"], ["o.*"]]


def run_getitem(c):
    eng = J.get_instance({"provide_python_modules": list(c["allow"])})
    T = tmp()
    p = os.path.join(T, "getitem.txt")
    out = []
    for k in c["keys"]:
        write_file(p, "{%% set v = python['%s'] %%}{{ 'defined' if v is defined else 'undefined' }}" % k)
        try:
            r = eng.render(p, {})
            out.append(1 if r == "defined" else 3 if r == "undefined" else 5)
        except RuntimeError:
            out.append(0)
        except ModuleNotFoundError:
            out.append(2)
        except ValueError:
            out.append(4)
        except Exception:          # noqa
            out.append(5)
    return {"getitem": out}


def python_oracles(keys):
    """what the Python installation has: which dotted names are importable modules, which attributes they have
    (asked from importlib directly, not through vinegar)"""
    import importlib
    mods, attrs = [], []
    for k in keys:
        if "." not in k:
            continue
        m, a = k.rsplit(".", 1)
        try:
            mod = importlib.import_module(m) if m else None
        except Exception:          # noqa
            mod = None
        if mod is not None:
            if m not in mods:
                mods.append(m)
            if hasattr(mod, a):
                attrs.append((m, a))
    return mods, attrs


ENTRIES = ["os", "osx", "os.path", "o", "os.", "os.*", "*", ".*", "o.*", "os.path.*", "", "\u00f6s", "\u00f6.*", "0", "None"]
MODULES = ENTRIES + ["m" * 300, ".".join(["p"] * 40), "os." + "x" * 255, "os\t", " os", "os ", "os.pathx", "os.path.sub", "x", "os..", "osx.y", "o.s", "os.*.x", "\u00f6.s", "\u00f6s.x", "0.x", "OS"]
REAL_MODULES = ["os", "os.path", "posixpath", "json", "json.decoder", "o" + "s"]


class C17(Check):
    ident = "C17"
    technique = ("Coq proof (cache invariant of jinja2's template cache under the loaders' up-to-date callbacks; "
                 "normpath/join model; allow-list characterisation and cache transparency) + differential "
                 "correspondence against real engines in a temp directory")
    rule = ("engine case = (root_dir or not, cache_enabled, relative_includes, base context or not, absolute or relative "
            "template name, history over {edit main / included / imported file in two directories, delete included "
            "file, render two templates} after a fixed setup); all histories ending in a render up to length 4 (quick) / "
            "5 (thorough, sampled) for all 8 configurations; allow case = (allow-list of 1-2 confusable entries, query "
            "sequence with repetitions); non-trivial = history with an edit before a render, or an allow-list query "
            "sequence; distinct by (configuration, history) resp. (allow-list)")
    assumptions = [
        "every edit changes the file's stat version and mtime (forced by the harness with os.utime)",
        "jinja2 3.1: templates are cached per name and revalidated through the loader's up-to-date callback, "
        "called without arguments; includes/imports are resolved through get_template at render time",
        "imported files contain no include/import of their own (jinja2 caches the module of an imported template)",
        "fewer than 400 distinct template names per engine (jinja2's LRU cache size)",
    ]
    trusted_extra = ["harness/c17.py: generation of Jinja source from model contents, exception -> result mapping"]

    def configs(self):
        for root in (False, True):
            for cache in (True, False):
                for rel in (True, False):
                    yield root, cache, rel

    def gen(self, tier, rng):
        maxlen = 4 if tier == "quick" else 5
        n = 0
        for root, cache, rel in self.configs():
            for L in range(1, maxlen + 1):
                hists = [h + (r,) for h in itertools.product(ALPHA, repeat=L - 1) for r in ("R", "Rr")]
                if L >= 4:
                    k = 80 if tier == "quick" else (1500 if L == 4 else 2500)
                    hists = rng.sample(hists, min(k, len(hists)))
                for h in hists:
                    n += 1
                    yield {"kind": 0, "root": root, "cache": cache, "rel": rel,
                           "base": [("a", "CFG"), ("z", "Z")] if n % 3 == 0 else [],
                           "relname": (n % 5 == 0), "history": list(h)}
        # adversarial edits (own loader; with root_dir jinja2's FileSystemLoader is outside the stat-version assumption,
        # see extra_checks): edit during the load of a file, same-size rewrites with the mtime restored
        pairs = [(a, b) for a in ADV for b in ADV]
        for (root, cache, rel) in ((False, True, True), (False, True, False), (False, False, True)):
            hists = []
            for a in ADV:
                hists += [["R", a, "R"], [a, "R", "R"], ["R", "Rr", a, "R", "Rr"], ["R", a, "Em", "R"], ["R", "Ej", a, "R"]]
            for (a, b) in (rng.sample(pairs, 24) if tier == "quick" else pairs):
                hists.append(["R", a, b, "R"])
                if tier != "quick":
                    hists.append(["R", a, "R", b, "R"])
            for h in hists:
                n += 1
                yield {"kind": 0, "root": root, "cache": cache, "rel": rel,
                       "base": [("a", "CFG"), ("z", "Z")] if n % 3 == 0 else [], "relname": (n % 5 == 0), "history": h}
        # context values that are falsy / sentinel-like / non-ASCII, colliding between configuration and caller: a
        # configuration-supplied value ALWAYS overrides, whatever it is
        values = [None, 0, "", False, [], {}, "None", 0.0, "\u00e4\u2713", -1, "0"]
        for (root, cache, rel) in ((False, True, True), (True, False, False)):
            for bv in values:
                for cv in ("caller", None, 0, ""):
                    yield {"kind": 0, "root": root, "cache": cache, "rel": rel, "relname": False, "history": ["R", "Rr"],
                           "base": [("a", bv), ("z", bv)], "caller": [("a", cv), ("b", bv), ("z", cv)]}
            for cv in values:
                yield {"kind": 0, "root": root, "cache": cache, "rel": rel, "relname": False, "history": ["R", "Rr"],
                       "base": [], "caller": [("a", cv), ("b", cv), ("z", cv)]}
        # an include file replaced by a directory of the same name (the loaders see "not a file"): as if deleted
        for root, cache, rel in self.configs():
            for h in (["R", "Xj", "R", "Ej", "R"], ["R", "Xi", "R", "Ei", "R"], ["Xj", "R"]):
                yield {"kind": 0, "root": root, "cache": cache, "rel": rel, "base": [], "relname": False, "history": h}
        # an edit to content that does not compile (syntax error / not UTF-8): every render raises like a fresh engine's
        # until the file is repaired - the old compiled template must never come back
        for root, cache, rel in self.configs():
            for x in "mjik":
                e = "E" + x
                for h in (["R", "Z" + x, "R", "R"], ["R", "Z" + x, "R", e, "R", "R"], ["Z" + x, "R", "R"],
                          ["R", "Rr", "Y" + x, "R", "Rr", "R", e, "R"], ["R", "Z" + x, "R", "Y" + x, "R", "R"]):
                    n += 1
                    yield {"kind": 0, "root": root, "cache": cache, "rel": rel, "base": [], "relname": (n % 4 == 0), "history": h}
        # the working directory is a sub-directory: relative top-level names and includes that climb ABOVE it
        for cache in (True, False):
            for rel in (True, False):
                for tv in (("../inc.txt", 2, "../lib.txt"), ("../sub/inc.txt", 2, "../sub/../lib.txt"), ("../../nosuch.txt", 4, "../lib.txt"),
                           ("../..meta/inc.txt", 2, "../lib.txt"), ("../sub/..meta/inc.txt", 4, "../sub/lib.txt"), ("top.txt/../../inc.txt", 2, "../lib.txt")):
                    yield {"kind": 0, "root": False, "cache": cache, "rel": rel, "base": [], "relname": True, "cwdsub": True,
                           "top_variant": tv, "history": ["Rt", "R", "Ei", "Rt", "Rr"]}
                yield {"kind": 0, "root": True, "cache": cache, "rel": rel, "base": [], "relname": False, "cwdsub": True,
                       "top_variant": ("../inc.txt", 2, "../lib.txt"), "history": ["Rt", "Ei", "Rt"]}
        # natural limits a hardening might pick: include chains of depth 17 and 40, file names of 200+ characters
        for root, cache, rel in self.configs():
            for chain in ((17, 10), (40, 200)) if tier != "quick" or (root, cache) in ((False, True), (True, True)) else ((17, 200),):
                yield {"kind": 0, "root": root, "cache": cache, "rel": rel, "base": [], "relname": False, "chain": chain, "history": ["Rc", "Rc"]}
        # an OPTIONAL include / import target that was rendered (and cached) and then disappears: deleted, replaced by a
        # directory, its parent directory gone; renders go on (nothing for the optional include) and it comes back later
        for root, cache, rel in self.configs():
            tgt = "Dj" if rel else "Di"
            back = "Ej" if rel else "Ei"
            xd = "Xj" if rel else "Xi"
            for h in (["R", tgt, "R", "R"], ["R", tgt, "R", back, "R", tgt, "R"], ["R", xd, "R", "R", back, "R"], [tgt, "R", back, "R", tgt, "R", "R"]):
                n += 1
                yield {"kind": 0, "root": root, "cache": cache, "rel": rel, "base": [], "relname": (n % 3 == 0), "history": h,
                       "main_variant": ("inc.txt", 4, "lib.txt")}
        # a loader handed in through `env` (FileSystemLoader, ChoiceLoader, ChoiceLoader with a PrefixLoader in front):
        # relative_includes (explicit or the default) and the configured context apply as with root_dir
        for kind in ("fsl", "choice", "prefix"):
            for rel in (True, False):
                for h in (["R", "Rr"], ["R", "Em", "R", "Ej", "R"], ["R", "Ei", "Ej", "R", "Rr"], ["R", "Zj", "R", "Ej", "R"]):
                    n += 1
                    yield {"kind": 0, "root": True, "cache": True, "rel": rel, "base": [("a", "CFG")] if n % 2 else [], "relname": False,
                           "envloader": kind, "rel_default": (n % 3 == 0), "history": h}
                for inc in DOTTED_NAMES[:8]:
                    yield {"kind": 0, "root": True, "cache": True, "rel": rel, "base": [], "relname": False, "envloader": kind,
                           "rel_default": True, "history": ["R", "R"], "main_variant": (inc, 2, "lib.txt")}
        for cache in (True, False):
            for rel in (True, False):
                yield {"kind": 0, "root": False, "cache": cache, "rel": rel, "base": [], "relname": False, "explicit_none": True,
                       "history": ["R", "Ej", "Ei", "R", "Rr"]}
        # symbolic links in the tree: a template reached through a link to the FILE or through a link to a parent DIRECTORY
        # resolves its relative includes next to the path it was ASKED for (the loaders never resolve links); re-pointing a
        # link is an edit of that path. The expectation comes from the model, not from a fresh engine.
        for root, cache, rel in self.configs():
            for h in (["Rl", "Rp"], ["Rl", "Em", "Rl", "Ej", "Rl"], ["Rl", "Pm", "Rl", "Rl"], ["Rp", "Pd", "Rp", "Rl"],
                      ["R", "Rl", "Pm", "Rl", "R"], ["Rp", "Rl", "Sm", "Rl"] if not root else ["Rp", "Rl"]):
                n += 1
                yield {"kind": 0, "root": root, "cache": cache, "rel": rel, "base": [], "relname": (n % 2 == 0), "symlinks": True,
                       "history": h}
        # two live engines: a second engine that differs in one per-engine setting is constructed (and used) between
        # renders of the first; the first engine's renders are those of its own history (C17_engines_independent)
        for root, cache, rel in self.configs():
            for b in "rcdxae":
                for h in (["R", "R", "B" + b, "R", "Rr"], ["R", "B" + b, "Ub", "R", "Ej", "R"], ["B" + b, "R", "Ub", "Em", "R"],
                          ["R", "B" + b, "Br", "Bc", "Ub", "R"]):
                    n += 1
                    yield {"kind": 0, "root": root, "cache": cache, "rel": rel, "base": [("a", "CFG")] if n % 2 else [],
                           "relname": False, "history": h}
        # D18 family: the same mtime-keeping edits with root_dir + cache (jinja2.FileSystemLoader, mtime-only test);
        # and with root_dir without cache, where they must be noticed
        for h in (["R", "Sm", "R"], ["R", "Sj", "R"], ["R", "Sk", "R"], ["R", "Nm", "R"], ["R", "Nj", "R"]):
            yield {"kind": 0, "root": True, "cache": True, "rel": True, "base": [], "relname": False, "history": h, "d18": True}
            yield {"kind": 0, "root": True, "cache": False, "rel": True, "base": [], "relname": False, "history": h}
            yield {"kind": 0, "root": True, "cache": True, "rel": True, "base": [], "relname": False,
                   "history": ["R", "E" + h[1][1], "R"] if h[1][1] in "mjk" else h}
        # include / import names with "." and ".." components, every loader configuration, include / ignore missing
        for root, cache, rel in self.configs():
            for inc in DOTTED_NAMES:
                for kind in (2, 4):
                    n += 1
                    yield {"kind": 0, "root": root, "cache": cache, "rel": rel, "base": [], "relname": (n % 3 == 0),
                           "history": ["R", "R"] if n % 4 else ["R", "Ei", "Ej", "R"],
                           "main_variant": (inc, kind, DOTTED_IMPORTS[n % len(DOTTED_IMPORTS)])}
            for imp in DOTTED_IMPORTS:
                yield {"kind": 0, "root": root, "cache": cache, "rel": rel, "base": [], "relname": False,
                       "history": ["R", "Ek", "El", "R"], "main_variant": ("inc.txt", 2, imp)}
        # what python[key] yields or raises through a template
        for allow in GETITEM_ALLOW:
            yield {"kind": 2, "allow": allow, "keys": GETITEM_KEYS}
        # allow-lists
        qs = MODULES + list(reversed(MODULES))
        for a in ENTRIES:
            yield {"kind": 1, "allow": [a], "queries": qs, "limit": 1024}
            if a:
                yield {"kind": 1, "allow": [a], "queries": qs, "limit": 1024, "as_str": True}
        for a in ENTRIES:
            for b in ENTRIES:
                if a != b:
                    yield {"kind": 1, "allow": [a, b], "queries": qs[::2] + qs[1::2], "limit": 1024}
        for a in ENTRIES:
            for other in (["*"], ["os.*", "o"], [""]):
                yield {"kind": 1, "allow": [a], "queries": qs, "limit": 1024, "other_allow": other}
        for allow in (["os"], ["os.*"], ["os.path"], ["*"], ["json.*", "posixpath"], ["o.*"], ["os.path.*"], ["js*"]):
            yield {"kind": 1, "allow": allow, "queries": REAL_MODULES + REAL_MODULES, "limit": 1024, "via_template": True}
        # the reset of the result cache at 1024 entries
        many = [("q.m%d" % i) if i % 2 == 0 else ("m%d" % i) for i in range(1030)]
        yield {"kind": 1, "allow": ["m7", "q.*"], "queries": many + ["m7", "q.m0", "m1029", "q.m1028", "m5"] + many[:40],
               "limit": 1024}
        yield {"kind": 1, "allow": ["m7", "q.*"], "queries": many[:1024] + many[:1024] + ["zz", "m7", "q.m0"], "limit": 1024}
        if tier != "quick":
            for _ in range(300):
                allow = [rng.choice(ENTRIES) for _ in range(rng.randrange(1, 4))]
                yield {"kind": 1, "allow": allow, "queries": [rng.choice(MODULES) for _ in range(40)], "limit": 1024}

    def impl(self, c):
        if c["kind"] == 0:
            return run_engine(c)
        if c["kind"] == 2:
            return run_getitem(c)
        return run_helper(c)

    # -- D18 (known finding): root_dir + cache_enabled = jinja2.FileSystemLoader with its mtime-only test
    def model_should_hold(self, c):
        return not c.get("d18")

    def match_known(self, entry, case, failed):
        if entry.get("id") != "D18" or case.get("kind") != 0:
            return False
        if not (case["root"] and case["cache"] and any(h[0] in "SN" for h in case["history"])):
            return False
        try:
            (c, o, m, fm, fi, rest), = self.evaluate([case])
        except Exception:                # noqa
            return False
        # the model of the CURRENT code (FileSystemLoader compares the mtime only) must reproduce the stale output
        # exactly; an mtime-changing edit going unnoticed, or anything else, is not this finding
        return bool(fi) and bool(fm) and self.canon(o) == m

    def line(self, c, obs):
        if c["kind"] == 0:
            def P(rel):
                return (ROOT + "/" + rel).encode()
            steps = []
            for st in obs["steps"]:
                if st[0] == "edit":
                    ct = [] if st[2] is None else [[[[k, s.encode()] for k, s in st[2][0]], st[2][1].encode()] + list(st[2][2:])]
                    steps.append([0, P(st[1]), ct, bool(st[3])])
                else:
                    mcwd = ROOT + ("/w" if c.get("cwdsub") else "")
                    name = st[1].encode() if c["root"] else (
                        posixpath.relpath(ROOT + "/" + st[1], mcwd).encode() if c["relname"] else P(st[1]))
                    steps.append([1, name, [[k.encode(), str(v).encode()] for k, v in st[2]]])
            cfg = [[ROOT.encode()] if c["root"] else [], bool(c["cache"]), bool(c["rel"]),
                   (ROOT + ("/w" if c.get("cwdsub") else "")).encode(), False,
                   [[k.encode(), str(v).encode()] for k, v in c["base"]]]      # a value is what {{ key }} renders: str(v)
            return sx([0, cfg, steps, self.canon(obs)])
        if c["kind"] == 2:
            mods, attrs = python_oracles(c["keys"])
            return sx([2, [a.encode() for a in c["allow"]], [m.encode() for m in mods],
                       [[m.encode(), a.encode()] for m, a in attrs], [k.encode() for k in c["keys"]], self.canon(obs)])
        return sx([1, 1, c["limit"], [a.encode() for a in c["allow"]], [q.encode() for q in c["queries"]],
                   self.canon(obs)])

    def canon(self, obs):
        if isinstance(obs, dict) and "getitem" in obs:
            return [2, list(obs["getitem"])]
        if isinstance(obs, tuple):
            return [1, [int(b) for b in obs[0]], obs[1]]
        return [0, [list(r) for r in obs["results"]]]

    def nontrivial(self, c, obs):
        if c["kind"] == 0:
            h = c["history"]
            if any(x[0] in "ED" for x in h[:-1]):
                return (c["root"], c["cache"], c["rel"], bool(c["base"]), c["relname"], tuple(h))
            return None
        if c["kind"] == 2:
            return ("getitem", tuple(c["allow"]), tuple(c["keys"]))
        return ("allow", tuple(c["allow"]), c.get("as_str", False), c.get("via_template", False), len(c["queries"]))

    def show(self, c):
        if c["kind"] == 0:
            return {"root_dir": c["root"], "cache_enabled": c["cache"], "relative_includes": c["rel"],
                    "config_context": repr(c["base"]), "caller_context": repr(c.get("caller")), "relative_template_name": c["relname"],
                    "history": c["history"], "working_directory_is_w/": bool(c.get("cwdsub")),
                    "w/top.txt(include name, kind, import name)": c.get("top_variant"), "include_chain(depth, name padding)": c.get("chain"), "symbolic_links_in_the_tree": bool(c.get("symlinks")),
                    "loader_through_env_option": c.get("envloader"), "relative_includes_left_to_default": bool(c.get("rel_default")),
                    "root_dir_None_and_empty_env": bool(c.get("explicit_none")),
                    "sub/main.txt(include name, 2=include 4=ignore missing, import name)": c.get("main_variant"),
                    "legend": "setup writes 8 files; Em/Ei/Ej/El/Ek edit sub/main, inc, sub/inc, lib, sub/lib; Di/Dj delete "
                              "inc, sub/inc; R renders sub/main.txt, Rr renders main.txt",
                    "adversarial_ops": "Lm/Lj/Li render sub/main.txt while an edit of sub/main, sub/inc, inc happens during the load of "
                                       "that file; Sm/Sj/Si/Sk/Sl same-size in-place rewrite with mtime restored; Nm/Nj same via new inode"}
        if c["kind"] == 2:
            return {"provide_python_modules": c["allow"], "template": "{% set v = python[KEY] %}...", "keys": c["keys"]}
        return {"allow": c["allow"], "queries": c["queries"][:60], "n_queries": len(c["queries"]),
                "as_str": c.get("as_str", False), "via_template": c.get("via_template", False),
                "second_engine_with_allow_list_constructed_midway": c.get("other_allow")}

    def shrink(self, c):
        if c["kind"] == 0:
            h = c["history"]
            for i in range(len(h) - 1):
                yield dict(c, history=h[:i] + h[i + 1:])
            if c["base"]:
                yield dict(c, base=[])
            if c["relname"]:
                yield dict(c, relname=False)
        elif c["kind"] == 2:
            ks = c["keys"]
            if len(ks) > 1:
                yield dict(c, keys=ks[:len(ks) // 2])
                yield dict(c, keys=ks[len(ks) // 2:])
                for i in range(len(ks)):
                    yield dict(c, keys=ks[:i] + ks[i + 1:])
        else:
            q = c["queries"]
            if len(q) > 1:
                yield dict(c, queries=q[:len(q) // 2])
                yield dict(c, queries=q[len(q) // 2:])
                for i in range(min(len(q), 40)):
                    yield dict(c, queries=q[:i] + q[i + 1:])
            if len(c["allow"]) > 1:
                for i in range(len(c["allow"])):
                    yield dict(c, allow=c["allow"][:i] + c["allow"][i + 1:])


if __name__ == "__main__":
    raise SystemExit(C17().main())
