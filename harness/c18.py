"""C18 - system matcher: grammar, precedence, quoting, evaluation equal the documentation;
every other string is rejected with ValueError.

Cases: expression trees over an atom alphabet, printed in several layouts (with the intended tree
passed along), and token/character-level mutations of such strings (no intended tree).  The real
match() is run on every environment of a small universe, on first and on cached use.  The model
parses the same string; its oracle table (re.compile outcome and documented truth value of each
atom on each environment) is computed here by calling re / fnmatch directly.
"""
import fnmatch
import itertools
import re

import common
from common import Check, sx, unsx, hist, run_model

from vinegar.utils import system_matcher as SM
from vinegar.utils.smart_dict import SmartLookupDict

GLOB, LITERAL, RE = 0, 1, 2
TYPE_NAME = {GLOB: "glob", LITERAL: "literal", RE: "re"}
UNQ, SQ, DQ = 0, 1, 2

# ------------------------------------------------------------------ atoms, trees, printing
# semantic atom: (key or None, type, case_sensitive, pattern)
# style: (short, slash, key quoting, pattern quoting)


def A(key, typ, cs, pat):
    return ("atom", (key, typ, cs, pat))


def Not(e):
    return ("not", e)


def And(a, b):
    return ("and", a, b)


def Or(a, b):
    return ("or", a, b)


def is_space(ch):
    return ch.isspace()


def reserved(ch):
    return ch.isspace() or ch in "@()"


def unquoted_legal(v):
    return v != "" and not any(reserved(ch) for ch in v) and v[0] not in "'\""


def quote(v, st):
    if st == UNQ:
        return v
    q = "'" if st == SQ else '"'
    return q + "".join("\\" + ch if ch in (q, "\\") else ch for ch in v) + q


def legal_styles(atom):
    """every legal way of writing the atom"""
    key, typ, cs, pat = atom
    pst = [st for st in (UNQ, SQ, DQ) if st != UNQ or unquoted_legal(pat)]
    out = []
    if key is None and typ == GLOB and not cs:
        for p in pst:
            if p == UNQ and pat in ("and", "or", "not"):
                continue
            out.append((True, False, UNQ, p))
    kst = [UNQ] if key is None else [st for st in (UNQ, SQ, DQ) if st != UNQ or unquoted_legal(key)]
    for k in kst:
        for p in pst:
            out.append((False, False, k, p))
            if cs:
                out.append((False, True, k, p))
    return out


def print_atom(atom, style):
    key, typ, cs, pat = atom
    short, slash, kq, pq = style
    if short:
        return quote(pat, pq)
    opt = ("/" if slash else "") if cs else "/i"
    if key is None:
        return "@id_" + TYPE_NAME[typ] + opt + "@" + quote(pat, pq)
    return "@data_" + TYPE_NAME[typ] + opt + ":" + quote(key, kq) + "@" + quote(pat, pq)


LEVEL = {"or": 0, "and": 1, "not": 2, "atom": 2}
WS_POOL = [" ", "\t", "\n", "  ", " \t\n ", "\x0b", "\x0c\r", "\x1c", "\x1f ", "\x85", "\xa0",
           "\u2003", "\u3000\u2028 "]


class Layout:
    """decides whitespace, redundant parentheses and atom styles while printing; produces tokens"""

    def __init__(self, mode, rng=None, styles=None):
        self.mode = mode
        self.rng = rng
        self.styles = styles or {}
        self.n = 0

    def ws(self, required, inside=False):
        """whitespace at a position; `required` = the grammar needs some here; `inside` = just inside a parenthesis"""
        m = self.mode
        self.n += 1
        if m == "min":
            return " " if required else ""
        if m == "parens":
            return "" if inside else " "
        if m == "glued":
            return "" if not required else " "
        if m == "ws":
            return WS_POOL[(self.n * 5 + 3) % len(WS_POOL)]
        if m == "tabs":
            return "\t\n" if required else ("\n" if self.n % 2 else "")
        r = self.rng
        if required:
            return r.choice(WS_POOL)
        return r.choice(["", "", " "] + WS_POOL)

    def extra_parens(self, node):
        m = self.mode
        if m == "parens":
            return 1
        if m == "glued":
            return 1
        if m == "rand":
            return self.rng.choice([0, 0, 0, 1, 1, 2])
        return 0

    def style(self, atom, default):
        m = self.mode
        if m == "rand":
            return self.rng.choice(legal_styles(atom))
        if m == "requote":
            ls = legal_styles(atom)
            self.n += 1
            return ls[self.n % len(ls)]
        return default


def tokens(e, lay, lvl=0, styles=None):
    """token list of e printed where the grammar expects level lvl. Tokens: ("ws", text),
    ("(", "("), (")", ")"), ("kw", text), ("atom", text)."""
    kind = e[0]
    need = LEVEL[kind] < lvl
    extra = lay.extra_parens(e)
    pairs = extra + (1 if need and extra == 0 else 0)
    out = []
    for _ in range(pairs):
        out.append(("(", "("))
        w = lay.ws(False, True)
        if w:
            out.append(("ws", w))
    inner_lvl = 0 if pairs else lvl
    if kind == "atom":
        atom, style = e[1], (e[2] if len(e) > 2 else None)
        if style is None:
            style = legal_styles(atom)[0]
        out.append(("atom", print_atom(atom, lay.style(atom, style))))
    elif kind == "not":
        sub = tokens(e[1], lay, 2)
        out.append(("kw", "not"))
        w = lay.ws(sub[0][0] != "(")
        if w:
            out.append(("ws", w))
        out += sub
    else:
        own = LEVEL[kind]
        # the operator's own level may be entered from a lower one without parentheses
        left = tokens(e[1], lay, own)
        right = tokens(e[2], lay, own + 1)
        out += left
        w = lay.ws(left[-1][0] != ")")
        if w:
            out.append(("ws", w))
        out.append(("kw", kind))
        w = lay.ws(right[0][0] != "(")
        if w:
            out.append(("ws", w))
        out += right
    for _ in range(pairs):
        w = lay.ws(False, True)
        if w:
            out.append(("ws", w))
        out.append((")", ")"))
    return out


def strip_style(e):
    if e[0] == "atom":
        return ("atom", e[1])
    return (e[0],) + tuple(strip_style(x) for x in e[1:])


def text(toks):
    return "".join(t[1] for t in toks)


def print_expr(e, mode, rng=None):
    lay = Layout(mode, rng)
    toks = tokens(e, lay)
    if mode in ("ws", "rand", "tabs"):
        lead = lay.ws(False)
        trail = lay.ws(False)
        toks = ([("ws", lead)] if lead else []) + toks + ([("ws", trail)] if trail else [])
    return toks


# ------------------------------------------------------------------ alphabet and universe
def SA(key, typ, cs, pat, style):
    return ("atom", (key, typ, cs, pat), style)


# every term kind, flag, quoting and escape form (default style given per atom)
ALPHABET = [
    SA(None, GLOB, False, "*a*", (True, False, UNQ, UNQ)),
    SA(None, GLOB, False, "ABC", (True, False, UNQ, UNQ)),
    SA(None, GLOB, False, "a b", (True, False, UNQ, SQ)),
    SA(None, GLOB, False, "x'y\"z\\", (True, False, UNQ, DQ)),
    SA(None, GLOB, False, "x'y\"z\\", (True, False, UNQ, SQ)),
    SA(None, GLOB, False, "x'*", (True, False, UNQ, UNQ)),
    SA(None, GLOB, False, "", (True, False, UNQ, DQ)),
    SA(None, GLOB, False, "and", (True, False, UNQ, DQ)),
    SA(None, GLOB, False, "android", (True, False, UNQ, UNQ)),
    SA(None, GLOB, False, "nota*", (True, False, UNQ, UNQ)),
    SA(None, GLOB, False, "or-[12]", (True, False, UNQ, UNQ)),
    SA(None, GLOB, True, "*b*", (False, False, UNQ, UNQ)),
    SA(None, GLOB, False, "AB*", (False, False, UNQ, UNQ)),
    SA(None, GLOB, True, "ab?", (False, True, UNQ, UNQ)),
    SA(None, LITERAL, True, "abc", (False, False, UNQ, UNQ)),
    SA(None, LITERAL, False, "A B", (False, False, UNQ, DQ)),
    SA(None, LITERAL, True, "a.c", (False, True, UNQ, SQ)),
    SA(None, RE, True, "a.*", (False, False, UNQ, UNQ)),
    SA(None, RE, False, "[A-C]+", (False, False, UNQ, SQ)),
    SA(None, RE, True, "(a|b)+c?", (False, False, UNQ, DQ)),
    SA("k", GLOB, True, "v*", (False, False, UNQ, UNQ)),
    SA("k", GLOB, False, "V1", (False, False, UNQ, UNQ)),
    SA("k", LITERAL, True, "v1", (False, False, DQ, UNQ)),
    SA("k", LITERAL, False, "V1", (False, False, SQ, DQ)),
    SA("num", RE, True, "[0-9]+", (False, False, UNQ, UNQ)),
    SA("t", RE, True, "True", (False, True, UNQ, UNQ)),
    SA("none", GLOB, True, "", (False, False, UNQ, SQ)),
    SA("missing", LITERAL, True, "", (False, False, UNQ, DQ)),
    SA("n:m", LITERAL, True, "deep", (False, False, UNQ, UNQ)),
    SA("l:1", GLOB, True, "y", (False, False, UNQ, UNQ)),
    SA("l:7", GLOB, True, "", (False, False, UNQ, SQ)),
    SA("k 2", LITERAL, True, "v 2", (False, False, DQ, SQ)),
    SA("q'k\\", RE, False, ".+", (False, False, SQ, UNQ)),
    SA("lst", LITERAL, True, "[1, 2]", (False, False, UNQ, SQ)),
    SA("f", GLOB, True, "1.?", (False, False, UNQ, UNQ)),
]
# small alphabet for deeper trees: independently true/false over the universe
SMALL = [ALPHABET[0], ALPHABET[11], ALPHABET[22]]
SMALL4 = SMALL + [ALPHABET[19]]

PLAIN1 = {"k": "v1", "n:m": "deep", "num": 12, "t": True, "none": None, "f": 1.5, "lst": [1, 2], "k 2": "v 2"}
PLAIN2 = {"k": "V1", "num": "x", "t": "true", "q'k\\": "z", "l:1": "y"}
SMART1 = SmartLookupDict({"k": "v1", "n": {"m": "deep"}, "l": ["x", "y"], "num": 0, "q'k\\": ""})
SMART2 = SmartLookupDict({"k": "w", "n": {"x": 1}, "l": ("x",), "t": True, "lst": [1, 2], "f": 10})

# environments: (system_id, system_data).  ids over {a,b} x data with k=v1 / not give every
# assignment of the three SMALL atoms
UNIVERSE = [
    ("", PLAIN1), ("a", PLAIN1), ("b", PLAIN1), ("ab", PLAIN1),
    ("", PLAIN2), ("a", PLAIN2), ("b", SMART2), ("ab", SMART2),
    ("abc", SMART1), ("ABC", None), ("a b", {}), (None, SMART1), ("x'y\"z\\", PLAIN2),
    ("and", SMART2), ("android", None), ("or-1", PLAIN1), ("bc", SMART1),
]
# data through which a nested key path cannot be followed (finding D14b): dedicated cases only
D14B_UNIVERSE = [
    ("a", SmartLookupDict({"a": "x"})), ("x", SmartLookupDict({"a": "x"})),
    ("a", SmartLookupDict({"a": 5, "l": [1]})), ("a", SmartLookupDict({"a": None})),
    ("a", SmartLookupDict({"a": {"b": "x"}})), ("a", {"a": "x"}),
]
# mutated strings may contain any key path: their SmartLookupDicts have no scalar or list inside, so that
# no path can run through a non-container (the D14b family stays confined to its dedicated cases)
MUT_UNIVERSE = [
    ("a", PLAIN1), ("b", PLAIN2), ("abc", None), ("a b", SmartLookupDict({"n": {"m": {}}, "k": {}})),
    (None, SmartLookupDict()), ("x'y\"z\\", PLAIN1), ("and", PLAIN2), ("or", {}), ("not", PLAIN1),
    ("bc", SmartLookupDict({"k": {"v1": {}}})),
]


# ---- history universe: ONE long-lived data object changed between the calls on ONE cached expression --------
class FaultyDict(dict):
    """plain dict whose get() raises while armed: the environment itself fails at one call (fault injection)"""
    fault = None        # (key, exception class)

    def get(self, key, default=None):
        f = self.fault
        if f is not None and f[0] == key:
            raise f[1]("injected fault")
        return dict.get(self, key, default)


class BadStr:
    """a data value whose __str__ raises"""
    def __str__(self):
        raise RuntimeError("injected __str__ fault")

    def __repr__(self):
        return "BadStr()"


def hist_script():
    """yields (system_id, system_data) step by step; the data objects are changed IN PLACE between two yields, so
    every yielded environment must be used (or copied) before the generator is advanced.  Successive values are
    ==-equal but str()-different (1/True/1.0, 0/False/0.0/-0.0), falsy-but-valid ("", 0, [], {}, (), False), None
    and missing alternate, containers are mutated in place, get()/__str__ fail once and work again afterwards."""
    L = [1]
    d = FaultyDict({"e": 1, "l": L, "u": "\u00e9", "z": 0, 1: "int", "1": "str", "\u043a\u043b": "v", "None": "s", None: "n"})
    d.fault = ("e", RuntimeError)          # the very first use of the expression already meets a failing environment
    yield ("a", d)
    d.fault = None
    yield ("a", d)
    yield ("a", d)
    for v, sid in [(True, "A"), (1.0, "a"), (1, ""), ("1", None), (0, "a"), (False, "a"), (0.0, "\u00e9"), (-0.0, "\u00c9"),
                   (0, "a"), ("", "a"), (None, "A")]:
        d["e"] = v
        yield (sid, d)
    del d["e"]
    yield ("a", d)
    for v in [None, "", [], {}, (), "None", None, 10 ** 30, -1, float("inf"), float("nan"), float("nan"), b"1", 1j,
              "\u00e9", "\u00c9", "\u0130", 1]:
        d["e"] = v
        yield ("a", d)
    # the environment fails once, then works again (state of the cached expression must be unaffected)
    for exc in (RuntimeError, KeyError, OSError, ValueError):
        d.fault = ("e", exc)
        yield ("a", d)
        d.fault = None
        yield ("a", d)
        d["e"] = True
        yield ("b", d)
        d["e"] = 1
    d["e"] = BadStr()
    yield ("a", d)
    d["e"] = 1
    yield ("a", d)
    # a container changed in place: the very same objects are passed again
    yield ("a", d)
    L.append(2)
    yield ("a", d)
    L.clear()
    yield ("a", d)
    L.append(1)
    yield ("a", d)
    d["z"] = False
    yield ("a", d)
    d["z"] = 0.0
    yield ("a", d)
    # None / {} / object alternating
    yield ("a", None)
    yield ("a", d)
    yield (None, {})
    yield ("a", d)
    # nested lookups through one SmartLookupDict
    N = {"m": 1}
    L2 = [1, "x"]
    sd = SmartLookupDict({"n": N, "e": 1, "l": L2, "z": 0})
    yield ("a", sd)
    for v in [True, 1.0, "1", 1, None, 0, False, "", 0]:
        N["m"] = v
        yield ("a", sd)
    del N["m"]
    yield ("a", sd)
    N["m"] = 1
    yield ("a", sd)
    L2[0] = True
    yield ("a", sd)
    L2[0] = 1.0
    yield ("a", sd)
    del L2[:]
    yield ("a", sd)
    sd["e"] = True
    yield ("b", sd)
    yield ("a", d)
    yield ("a", sd)


def _hist_snapshots():
    import copy
    return [(sid, copy.deepcopy(data)) for sid, data in hist_script()]


HIST_UNIVERSE = _hist_snapshots()

# ---- SmartLookupDicts whose keys contain the separator: a flat key spelled like a nested path, with the nested path
# absent / partly present / present / None; empty path components; list indices; the same data as plain dict --------
_S = SmartLookupDict
SMARTKEY_UNIVERSE = [
    ("a", _S({"a:b": "flat"})),
    ("a", _S({"a:b": "flat", "a": {"c": 1}})),
    ("a", _S({"a:b": "flat", "a": {"b": "nested"}})),
    ("a", _S({"a": {"b": "nested"}})),
    ("a", _S({"a": {"b": None}, "a:b": "flat"})),
    ("a", _S({"a": {}, "a:b": ""})),
    ("a", {"a:b": "flat", "a": {"b": "nested"}}),
    ("a", {"a": {"b": "nested"}}),
    ("b", _S({"p:q:r": "flat"})),
    ("b", _S({"p:q:r": "flat", "p": {"q": {}}})),
    ("b", _S({"p:q:r": "flat", "p": {"q": {"r": "nested"}}})),
    ("b", _S({"p:q": {"r": "flat"}, "p": {"x": 0}})),
    ("b", _S({"p": {"q:r": "flat"}})),
    ("c", _S({"": {"a": "nested"}, ":a": "flat", "a:": "flat", "a": {"": "nested"}})),
    ("c", _S({":a": "flat", "a:": "flat"})),
    ("c", _S({"m": [{"b": "nested"}], "m:0:b": "flat"})),
    ("c", _S({"m": [], "m:0:b": "flat", "l": ["nested"], "l:0": "flat", "0": "flat"})),
    ("c", _S({"l:0": "flat", "0": "flat", "l": {"0": "nested"}})),
    ("c", _S({"l:0": "flat", "l": {0: "intkey"}})),
    (None, _S()),
]
SMARTKEY_KEYS = ["a:b", "p:q:r", ":a", "a:", "m:0:b", "l:0", "p:q", "0"]
SMARTKEY_EXPRS = (
    [f"@data_{t}:{k}@{v}" for k in SMARTKEY_KEYS for t, v in
     (("literal", "flat"), ("literal", "nested"), ("glob", "''"), ("re", ".+"), ("literal/i", "FLAT"), ("glob", "*e*"))]
    + ["@data_literal:'a:b'@flat or @data_literal:\"a:b\"@nested", "not @data_glob:a:b@''", "@data_literal:a:b@flat and a",
       "@data_literal:p:q:r@flat or @data_literal:a:b@flat", "@data_re:l:0@.+ and not @data_literal:0@flat",
       "@data_literal:a:b@flat or b or @data_literal::a@flat"]
)
UNIVERSES = {"main": UNIVERSE, "d14b": D14B_UNIVERSE, "mut": MUT_UNIVERSE, "hist": HIST_UNIVERSE, "smartkeys": SMARTKEY_UNIVERSE}

_E_PATS = ["1", "True", "1.0", "0", "False", "0.0", "-0.0", "''", "None", "'[]'", "'{}'", "'()'", "\u00e9", "-1",
           "1000000000000000019884624838656", "1000000000000000000000000000000"]
HIST_EXPRS = (
    ["@data_literal:e@" + p for p in _E_PATS]
    + ["@data_literal/i:e@true", "@data_literal/i:e@\u00c9", "@data_literal/i:e@i\u0307", "@data_re:e@.+", "@data_re:e@.*",
       "@data_glob:e@*", "@data_glob:e@?*", "@data_glob:e@''", "@data_re:e@'[01](\\.0)?'", "@data_glob/i:e@t*"]
    + ["@data_literal:l@'[1]'", "@data_literal:l@'[1, 2]'", "@data_literal:l@'[]'", "@data_glob:l@*1*", "@data_re:l@.+"]
    + ["@data_literal:z@0", "@data_literal:z@False", "@data_literal:z@0.0", "@data_glob:z@''"]
    + ["@data_literal:u@\u00e9", "@data_literal/i:u@\u00c9", "@data_glob:u@?"]
    + ["@data_literal:n:m@1", "@data_literal:n:m@True", "@data_literal:n:m@1.0", "@data_literal:n:m@''", "@data_literal:n:m@0",
       "@data_literal:n:m@False", "@data_re:n:m@.+", "@data_literal:l:0@1", "@data_literal:l:0@True", "@data_glob:l:0@''",
       "@data_literal:l:1@x"]
    + ["@data_literal:1@str", "@data_literal:1@int", "@data_literal:\u043a\u043b@v", "@data_literal:None@s", "@data_literal:None@n",
       "@data_literal:e@inf", "@data_literal:e@nan", "@data_literal:e@\"b'1'\"", "@data_literal:e@1j"]
    + ["\u00e9", "@id_literal@\u00e9", "@id_literal/i@\u00c9", "@id_glob@\u00c9", "''", "@id_literal@''", "a", "@id_re@a?"]
    + ["@data_literal:e@1 or @data_literal:e@True", "not @data_literal:e@1", "a or @data_literal:e@1",
       "a and @data_literal:e@1", "@data_literal:e@1 or a", "@data_literal:e@1 and a",
       "@data_literal:e@1 and @data_literal:l@'[1]'", "@data_literal:z@0 and not @data_literal:e@0",
       "not (@data_literal:e@True or @data_literal:e@1.0) or b", "@data_literal:l@'[1]' or @data_literal:e@1",
       "@data_literal:n:m@1 or @data_literal:e@1", "(@data_literal:e@0 or @data_literal:e@False) and a",
       "@data_re:e@.+ and not @data_glob:e@''", "@data_literal:missing@'' and @data_literal:e@1"]
)


# ------------------------------------------------------------------ the oracle (re / fnmatch directly)
_NOTFOUND = object()


def lookup(data, key):
    """documented lookup: (value or _NOTFOUND, path runs through something that is no container)"""
    if data is None:
        data = {}
    if not isinstance(data, SmartLookupDict):
        return (data[key] if key in data else _NOTFOUND), False
    cur = data
    for part in key.split(":"):
        if isinstance(cur, dict):
            if part in cur:
                cur = cur[part]
            else:
                return _NOTFOUND, False
        elif isinstance(cur, (list, tuple)) and re.fullmatch("[0-9]+", part):
            if int(part) < len(cur):
                cur = cur[int(part)]
            else:
                return _NOTFOUND, False
        else:
            return _NOTFOUND, True
    return cur, False


for _k in SMARTKEY_KEYS:
    for _sid, _d in SMARTKEY_UNIVERSE:
        assert not lookup(_d, _k)[1], ("smartkeys universe must stay free of D14b paths", _k, _d)


def regex_of(atom):
    key, typ, cs, pat = atom
    if typ == GLOB:
        return fnmatch.translate(pat)
    if typ == LITERAL:
        return re.escape(pat)
    return pat


_ROW_CACHE = {}


def oracle_row(atom, uname):
    """(compile outcome, [truth code per environment])"""
    ck = (atom, uname)
    if ck in _ROW_CACHE:
        return _ROW_CACHE[ck]
    key, typ, cs, pat = atom
    envs = UNIVERSES[uname]
    try:
        rx = re.compile(regex_of(atom), 0 if cs else re.IGNORECASE)
        comp = 0
    except re.error:
        comp, rx = 1, None
    except OverflowError:
        comp, rx = 2, None
    except Exception as e:    # noqa
        comp, rx = type(e).__name__.encode(), None
    tvs = []
    for (sid, data) in envs:
        if rx is None:
            tvs.append(0)
            continue
        if key is None:
            value, thr = ("" if sid is None else sid), False
        else:
            fault = getattr(data, "fault", None)
            if fault is not None and fault[0] == key:
                # the environment itself raises here; documented: that exception is the result of the call
                tvs.append(b"ValueError" if issubclass(fault[1], ValueError) else fault[1].__name__.encode())
                continue
            value, thr = lookup(data, key)
            if value is _NOTFOUND or value is None:
                value = ""
            elif not isinstance(value, str):
                try:
                    value = str(value)
                except Exception as e:     # noqa  (a value whose __str__ fails)
                    tvs.append(type(e).__name__.encode())
                    continue
        tvs.append((1 if rx.fullmatch(value) is not None else 0) + (2 if thr else 0))
    _ROW_CACHE[ck] = (comp, tvs)
    return comp, tvs


def atoms_of(e):
    if e[0] == "atom":
        return [e[1]]
    return [a for x in e[1:] for a in atoms_of(x)]


# ------------------------------------------------------------------ sx helpers
def sxs(s):
    if all(ord(ch) < 256 for ch in s):
        return "#" + s.encode("latin-1").hex()
    return "(" + " ".join(str(ord(ch)) for ch in s) + ")"


def sx_atom(a):
    key, typ, cs, pat = a
    return "(" + " ".join(["0" if key is None else sxs(key), str(typ), "1" if cs else "0", sxs(pat)]) + ")"


def sx_expr(e):
    k = e[0]
    if k == "atom":
        return "(0 " + sx_atom(e[1]) + ")"
    if k == "not":
        return "(1 " + sx_expr(e[1]) + ")"
    return "(" + ("2 " if k == "and" else "3 ") + sx_expr(e[1]) + " " + sx_expr(e[2]) + ")"


def un_str(x):
    if isinstance(x, bytes):
        return x.decode("latin-1")
    return "".join(chr(c) for c in x)


def un_atom(x):
    k, t, cs, p = x
    return (None if isinstance(k, int) else un_str(k), t, bool(cs), un_str(p))


def un_expr(x):
    if x[0] == 0:
        return ("atom", un_atom(x[1]))
    if x[0] == 1:
        return ("not", un_expr(x[1]))
    return ("and" if x[0] == 2 else "or", un_expr(x[1]), un_expr(x[2]))


# overflow mapped to ParseError; TypeError of nested lookup escapes; "(and)" accepted; evaluation raises
# RecursionError beyond 900 nested closure calls (nominal: the real threshold is Python's recursion limit minus the
# frames in use, about 960-990 here; nothing between 400 and 1000 levels is generated)
EVAL_DEPTH_LIMIT = 900
CURRENT = (0, 1, 1, EVAL_DEPTH_LIMIT)


# ------------------------------------------------------------------ mutations
def mutations(toks, rng, budget):
    """token-level and character-level mutations of a printed expression"""
    n = len(toks)
    out = []
    for i in range(n):
        out.append(("delete", toks[:i] + toks[i + 1:]))
        out.append(("duplicate", toks[:i + 1] + toks[i:]))
        if i + 1 < n:
            out.append(("swap", toks[:i] + [toks[i + 1], toks[i]] + toks[i + 2:]))
        kind, t = toks[i]
        if kind == "kw":
            # glue the keyword to its neighbours
            if i > 0 and toks[i - 1][0] == "ws":
                out.append(("glue-left", toks[:i - 1] + toks[i:]))
            if i + 1 < n and toks[i + 1][0] == "ws":
                out.append(("glue-right", toks[:i + 1] + toks[i + 2:]))
            out.append(("kw-case", toks[:i] + [("kw", t.upper())] + toks[i + 1:]))
            out.append(("kw-other", toks[:i] + [("kw", {"and": "or", "or": "and", "not": "and"}[t])] + toks[i + 1:]))
        if kind == "atom":
            for q in "'\"":
                for j in [k for k, ch in enumerate(t) if ch == q]:
                    out.append(("drop-quote", toks[:i] + [("atom", t[:j] + t[j + 1:])] + toks[i + 1:]))
            if t.startswith("@"):
                out.append(("bad-prefix", toks[:i] + [("atom", "@x" + t[1:])] + toks[i + 1:]))
                out.append(("bad-prefix", toks[:i] + [("atom", t.replace("_", "-", 1))] + toks[i + 1:]))
                out.append(("bad-prefix", toks[:i] + [("atom", t[1:])] + toks[i + 1:]))
                out.append(("bad-option", toks[:i] + [("atom", re.sub(r"^(@[a-z_]+)", r"\1/x", t, 1))] + toks[i + 1:]))
                out.append(("bad-option", toks[:i] + [("atom", re.sub(r"^(@[a-z_]+)", r"\1/ii", t, 1))] + toks[i + 1:]))
                out.append(("upper-prefix", toks[:i] + [("atom", t[:4].upper() + t[4:])] + toks[i + 1:]))
            else:
                out.append(("bad-prefix", toks[:i] + [("atom", "@" + t)] + toks[i + 1:]))
            if "\\" in t:
                j = t.index("\\")
                out.append(("bad-escape", toks[:i] + [("atom", t[:j + 1] + "n" + t[j + 2:])] + toks[i + 1:]))
                out.append(("bad-escape", toks[:i] + [("atom", t[:j + 1])] + toks[i + 1:]))
            out.append(("empty-atom", toks[:i] + [("atom", re.sub(r"[^@]*$", "", t))] + toks[i + 1:]))
            out.append(("atom-ws", toks[:i] + [("atom", t[:len(t) // 2] + " " + t[len(t) // 2:])] + toks[i + 1:]))
        if kind == "ws":
            out.append(("ws-to-x", toks[:i] + [("ws", "_")] + toks[i + 1:]))
    out.append(("unbalanced", [("(", "(")] + toks))
    out.append(("unbalanced", toks + [(")", ")")]))
    out.append(("unbalanced", toks + [("(", "(")]))
    for g in (" x", "x", "@", "'", " and", " or ", " not", "()", " @id_glob@", "\\", " ''", "\"\""):
        out.append(("trailing", toks + [("atom", g)]))
    for g in ("and ", "or ", "x ", ")", "not", "not "):
        out.append(("leading", [("atom", g)] + toks))
    s = text(toks)
    for _ in range(4):
        if s:
            j = rng.randrange(len(s))
            out.append(("char-delete", [("atom", s[:j] + s[j + 1:])]))
            out.append(("char-insert", [("atom", s[:j] + rng.choice("@()'\"\\ :/i\tx") + s[j:])]))
    if budget is not None and len(out) > budget:
        out = rng.sample(out, budget)
    return out


def trees(alpha, nodes):
    """all trees with exactly `nodes` nodes over the alphabet"""
    if nodes == 1:
        for a in alpha:
            yield a
        return
    for t in trees(alpha, nodes - 1):
        yield Not(t)
    for nl in range(1, nodes - 1):
        nr = nodes - 1 - nl
        for l in trees(alpha, nl):
            for r in trees(alpha, nr):
                yield And(l, r)
                yield Or(l, r)


FIXED_REJECT = ["", " ", "\t\n", "()", "( )", "and", "or", "not", "not ", "(", ")", "@", "@@", "''x", "a b", "a)", "(a",
                "a and", "a or", "and a", "a and and b", "a not b", "a and or b", "not and", "@id_glob@",
                "@id_glob", "@id_glob/", "@id_glob/i", "@id_glob/i@", "@data_glob:", "@data_glob:k", "@data_glob:k@",
                "@data_glob:@x", "@data_glob:''@x", "@data_glob:\"\"@x", "@data_glob/i@x", "@id_glob:k@x",
                "@id_glob@x@y", "x@y", "@id_re@(", "@id_re@'('", "@id_re@'['", "@data_re:k@'*'", "@id_re@a{4294967296}",
                "@data_re/i:k@a{4294967296}", "@id_re@'a{4294967296}' or (", "'a", "\"a", "'a\\", "'a\\n'", "'a\\\"'",
                "\"a\\'\"", "@id_glob@'a' 'b'", "\"a\"and b", "a and\"b\"", "a and'b'", "(a)and(b)", "(a)andb", "a and(b)",
                "not(a)", "nota", "not'a'", "a or(b)or c", "(a)or(b)", "(a)orb", "a\x1cand\x85b", "a\xa0or\x1fb",
                "a\u2003and\u3000b", "a\u200band b", "a\ufeffand b", "a\u2003and\u1680b", "ANd", "a AND b", "a && b", "a and (b", "a and b)",
                "((a)", "(a))", "(a)(b)", "(a) (b)", "a(b)", "a()", "not not a", "not (not a)", "not(not(a))", "a andnot b",
                "a and not b", "a and not(b)", "a and(not b)", "a or not b and c", "@id_glob @x", "@ id_glob@x",
                "@id_glob@ x", "@data_glob:k @x", "@data_glob: k@x", "@data_glob:k@ x", "@data_glob:a(b@x",
                "@data_glob:k@a(b", "@data_glob:k@a)b", "@data_glob:'k'x@v", "@data_glob:k'@v", "@data_glob:k@'v'x",
                "@data_glob:k@v'", "@id_glob@a'b", "@id_glob@a\\b", "a\\ b", "@id_literal@a\\", "@id_literal@'a\\\\'"]


# ------------------------------------------------------------------ the check
def call(s, env):
    sid, data = env
    try:
        r = SM.match(s, system_id=sid, system_data=data)
    except ValueError:
        return b"ValueError"
    except RecursionError:
        return b"RecursionError"
    except Exception as e:   # noqa
        return type(e).__name__.encode()
    if r is True:
        return 1
    if r is False:
        return 0
    return ("returned:" + type(r).__name__).encode()


def call_matcher(m, env):
    sid, data = env
    try:
        r = m.matches(system_id=sid, system_data=data)
    except ValueError:
        return b"ValueError"
    except Exception as e:   # noqa
        return type(e).__name__.encode()
    if r is True:
        return 1
    if r is False:
        return 0
    return ("returned:" + type(r).__name__).encode()


class C18(Check):
    ident = "C18"
    technique = ("Coq proof (parse . print = id for every legal layout, evaluation = documented truth table, "
                 "only failure ParseError, cache transparent) + differential correspondence over bounded trees, "
                 "layouts and mutations")
    rule = ("case = (expression string, intended tree or none, universe); all trees with <= N nodes over a 35-atom "
            "alphabet (<= 3 nodes) and a 3/4-atom alphabet (deeper), each printed in the layouts min / parens / glued / "
            "ws / tabs / requote / random; token- and character-level mutations without intended tree; systematic escape family (quoting style x key/pattern x "
            "character after a backslash); random token soup; fixed list of "
            "boundary strings; non-trivial = string with an operator, parenthesis, quote or escape, or rejected; "
            "distinct by (string, universe)")
    assumptions = [
        "oracle: re.compile fails only with re.error or OverflowError (anything else escapes in code and model alike)",
        "oracle: fnmatch.translate(p) always compiles (validated by a fuzz run in every check)",
        "oracle: regexp.fullmatch / str(value) / dict lookup do not raise on the data of the universe",
        "data values are None/str/int/float/bool/list/tuple/dict; nesting far below Python's recursion limit",
    ]
    search_budget_s = 150

    _kinds = None

    def _count(self, kind):
        if self._kinds is None:
            self._kinds = {}
        self._kinds[kind] = self._kinds.get(kind, 0) + 1

    # ---- generation
    def gen(self, tier, rng):
        quick = tier == "quick"
        layouts = ["min", "parens", "glued", "ws", "tabs", "requote", "rand"]
        for s in FIXED_REJECT:
            yield {"s": s, "exp": None, "u": "mut", "kind": "fixed"}
        # histories on one cached expression / one Matcher over a data object that changes between the calls
        # project-own mapping type with keys that contain the path separator (flat key vs nested path)
        for s in SMARTKEY_EXPRS:
            self._count("smartkeys")
            yield {"s": s, "exp": None, "u": "smartkeys", "kind": "smartkeys", "matcher": True}
        for s in HIST_EXPRS:
            self._count("history")
            yield {"s": s, "exp": None, "u": "hist", "kind": "history"}
        # every atom in every legal style, alone and under not
        for a in ALPHABET:
            for st in legal_styles(a[1]):
                e = ("atom", a[1], st)
                yield self.printed(e, "min", rng)
                yield self.printed(Not(e), "min", rng)
                yield self.printed(And(e, Not(e)), "glued", rng)
        # all trees over the full alphabet
        maxfull = 3
        for nodes in range(1, maxfull + 1):
            for t in trees(ALPHABET, nodes):
                if nodes == 3 and quick and t[0] in ("and", "or"):
                    # quick: thin the quadratic part deterministically over layouts
                    lays = [layouts[(hash_tree(t) + j) % len(layouts)] for j in range(2)]
                else:
                    lays = layouts
                for m in lays:
                    yield self.printed(t, m, rng)
        # deeper trees over the small alphabets
        deep = [(4, SMALL)] if quick else [(4, SMALL4), (5, SMALL)]
        for nodes, alpha in deep:
            for t in trees(alpha, nodes):
                for m in (layouts if not quick else ["min", "glued", "rand"]):
                    yield self.printed(t, m, rng)
        if not quick:
            for _ in range(3000):
                t = random_tree(rng, rng.randrange(5, 12), ALPHABET)
                yield self.printed(t, "rand", rng)
        else:
            for _ in range(300):
                t = random_tree(rng, rng.randrange(4, 9), ALPHABET)
                yield self.printed(t, "rand", rng)
        # mutations
        seeds = []
        for a in ALPHABET:
            seeds.append(("atom", a[1], a[2]))
        srng = rng
        pool = list(trees(ALPHABET[:6] + ALPHABET[11:13] + ALPHABET[19:24:2] + ALPHABET[31:33], 3))
        for t in srng.sample(pool, min(len(pool), 60 if quick else 150)):
            seeds.append(t)
        for t in trees(SMALL, 4):
            if srng.random() < (0.15 if quick else 1.0):
                seeds.append(t)
        for _ in range(40 if quick else 150):
            seeds.append(random_tree(srng, srng.randrange(3, 8), ALPHABET))
        seen = set()
        for t in seeds:
            for m in (("min", "glued") if quick else ("min", "glued", "ws", "rand")):
                toks = print_expr(t, m, rng)
                for kind, mt in mutations(toks, rng, 40 if quick else 60):
                    s = text(mt)
                    if s in seen:
                        continue
                    seen.add(s)
                    self._count("mut:" + kind)
                    yield {"s": s, "exp": None, "u": "mut", "kind": "mut:" + kind}
        # systematic escape family: every quoting style x {key, pattern} x every character class after a
        # backslash (wrapping quote, other quote, backslash, letter, digit, space, @, parentheses, newline,
        # end of input), at the start / middle / end of the quoted text, alone and inside a compound expression;
        # plus the same characters after a backslash in unquoted position.  The model decides validity.
        for s in escape_family():
            if s in seen:
                continue
            seen.add(s)
            self._count("escape")
            yield {"s": s, "exp": None, "u": "mut", "kind": "escape"}
        # line breaks and every other kind of whitespace before / inside / after rejected (and accepted) strings:
        # every error position (start, middle, end of string) x every whitespace kind, through match() and matcher()
        for s in whitespace_family():
            if s in seen:
                continue
            seen.add(s)
            self._count("wsbreak")
            yield {"s": s, "exp": None, "u": "mut", "kind": "wsbreak", "matcher": True}
        # legal inputs at and beyond natural limits (length, nesting depth, number of operands, every character)
        for s in limits_family(quick):
            if s in seen:
                continue
            seen.add(s)
            self._count("limits")
            yield {"s": s, "exp": None, "u": "mut", "kind": "limits", "matcher": True}
        # invalid regular expressions by error class (classified by calling re.compile directly): re.error with a
        # position, re.error without a position (variable-width look-behind), OverflowError; valid ones for contrast
        for s, cls in bad_regex_family():
            if s in seen:
                continue
            seen.add(s)
            self._count("badre:" + cls)
            yield {"s": s, "exp": None, "u": "mut", "kind": "badre:" + cls}
        # random token soup: no structure assumed at all
        soup = ["a", "b*", "and", "or", "not", " ", "  ", "\t", "(", ")", "@", "'", "\"", "\\", ":", "/", "i", "@id_glob@", "@id_re/i@",
                "@data_glob:", "@data_literal/:", "k", "@x", "'a b'", "\"q\\\"\"", "\x85", "\u2003", "*", "[", "{9}", "\\\\"]
        for _ in range(3000 if quick else 30000):
            s = "".join(rng.choice(soup) for _ in range(rng.randrange(1, 9)))
            if s in seen or has_bare_keyword(s):     # the D14c family has its dedicated cases
                continue
            seen.add(s)
            self._count("soup")
            yield {"s": s, "exp": None, "u": "mut", "kind": "soup"}
        # dedicated cases of the known findings (few, last)
        for s in ["@data_glob:a:b@*", "x or @data_glob:a:b@*", "not @data_re:a:0@.*", "@data_literal:l:x@y and a",
                  "@data_glob/i:'a:b:c'@\"\""]:
            yield {"s": s, "exp": None, "u": "d14b", "kind": "d14b"}
        for s in ["(and)", "a or (or)", "( not)", "not (and)"]:
            yield {"s": s, "exp": None, "u": "main", "kind": "d14c"}
        # D26: legal chains of about 1000 operands; parsing loops, evaluation recurses once per operand.  The documented
        # value is True for the id "a" / "abc" and False otherwise
        for s in [" or ".join(["a", "b"] * 500), " and ".join(["*a*", "*b*"] * 500),
                  "(" + " and ".join(["a*"] * 1000) + ") or b"]:
            yield {"s": s, "exp": None, "u": "mut", "kind": "d26", "matcher": True}

    def printed(self, t, mode, rng):
        toks = print_expr(t, mode, rng)
        self._count("printed:" + mode)
        return {"s": text(toks), "exp": strip_style(t), "u": "main", "kind": "printed:" + mode}

    def search(self, rng, deadline):
        """re-print trees in all layouts, thorough-sized"""
        import time
        for case in self.gen("thorough", rng):
            if time.time() > deadline:
                return
            if case["kind"] in ("d14b", "d14c"):
                continue
            yield case

    # ---- implementation
    def impl(self, c):
        envs = UNIVERSES[c["u"]]
        clear = getattr(getattr(SM, "_expression_from_string_cached", None), "cache_clear", None)
        if clear:
            clear()
        if c["u"] == "hist":
            # live objects, changed in place between the calls; second pass through ONE Matcher object
            first = [call(c["s"], env) for env in hist_script()]
            try:
                m = SM.matcher(c["s"])
                second = [call_matcher(m, env) for env in hist_script()]
            except ValueError:
                second = [b"ValueError"] * len(envs)
            except Exception as e:    # noqa
                second = [type(e).__name__.encode()] * len(envs)
            return [first, second]
        first = [call(c["s"], env) for env in envs]
        if c.get("matcher"):
            # cached use through the public matcher() / Matcher.matches()
            try:
                m = SM.matcher(c["s"])
                second = [call_matcher(m, env) for env in envs]
            except ValueError:
                second = [b"ValueError"] * len(envs)
            except Exception as e:    # noqa
                second = [type(e).__name__.encode()] * len(envs)
            return [first, second]
        second = [call(c["s"], env) for env in envs]
        return [first, second]

    def canon(self, obs):
        return [list(obs[0]), list(obs[1])]

    # ---- model
    def line_with(self, c, obs, table):
        envs = UNIVERSES[c["u"]]
        rows = "(" + " ".join("(" + sx_atom(a) + " " + sx(row[0]) + " " + sx(row[1]) + ")" for a, row in table.items()) + ")"
        exp = "()" if c["exp"] is None else "(" + sx_expr(c["exp"]) + ")"
        var = c.get("var", CURRENT)
        return "(0 " + " ".join([sxs(c["s"]), exp, sx(list(var)), str(len(envs)), rows, sx(obs)]) + ")"

    def line(self, c, obs):
        table = {a: oracle_row(a, c["u"]) for a in (atoms_of(c["exp"]) if c["exp"] is not None else [])}
        return self.line_with(c, obs, table)

    def evaluate(self, cases):
        obs = [self.impl(c) for c in cases]
        tables = [{a: oracle_row(a, c["u"]) for a in (atoms_of(c["exp"]) if c["exp"] is not None else [])}
                  for c in cases]
        results = [None] * len(cases)
        pending = list(range(len(cases)))
        for _round in range(64):
            lines = [self.line_with(cases[i], obs[i], tables[i]) for i in pending]
            outs = run_model(self.ident, lines)
            nxt = []
            for i, ln, out in zip(pending, lines, outs):
                if out.startswith("!") or out.startswith("#"):
                    raise RuntimeError(f"{self.ident}: driver rejected case {ln[:300]} -> {out[:100]}")
                r = unsx(out)
                need = None
                for pr in (r[5], r[6]):
                    if pr[0] == 2 and pr[1][:1] == b"?":
                        need = un_atom(unsx(pr[1][1:].decode("latin-1")))
                        break
                if need is not None and need not in tables[i]:
                    tables[i][need] = oracle_row(need, cases[i]["u"])
                    nxt.append(i)
                else:
                    results[i] = (cases[i], obs[i], r[0], common.names(r[1]), common.names(r[2]), r[3:])
            pending = nxt
            if not pending:
                break
        if pending:
            raise RuntimeError("oracle rounds did not converge")
        return results

    def fails(self, case):
        """used while minimising: do not walk from a failure into the known D14b family"""
        (c, o, m, fm, fi, rest), = self.evaluate([case])
        if fi and case["kind"] != "d14b" and self.is_d14b(case, o, m, fi, rest):
            return False
        return bool(fi)

    def is_d14b(self, case, o, m, fi, rest):
        cur, ref, wanted = rest[2], rest[3], rest[4]
        if self.canon(o) != m or not deep_eq(cur, ref) or set(fi) != {"value_equals_documented_semantics"}:
            return False
        diff = [(x, env) for x, w, env in zip(o[0], wanted, UNIVERSES[case["u"]]) if x != w]
        return bool(diff) and all(x == b"TypeError" and isinstance(env[1], SmartLookupDict) for x, env in diff)

    def model_should_hold(self, c):
        return c["kind"] not in ("d14b", "d14c", "d26")

    # ---- known findings
    def match_known(self, entry, case, failed):
        key = (case["s"], case["u"], case["kind"])
        if getattr(self, "_mk_cache", (None,))[0] != key:      # one evaluation per case, not one per known entry
            try:
                self._mk_cache = (key, self.evaluate([case])[0])
            except Exception:
                return False
        (c, o, m, fm, fi, rest) = self._mk_cache[1]
        if not fi or self.canon(o) != m:
            return False          # the model of the current code must reproduce the behaviour exactly
        cur, ref, wanted = rest[2], rest[3], rest[4]
        if entry["id"] == "D14b":
            return self.is_d14b(case, o, m, fi, rest)
        if entry["id"] == "D26":
            # exactly: a legal expression (reference parse ok) nested deeper than the nominal limit along the operands
            # evaluated first, every call raised RecursionError, and the model of the current code says the same
            return (set(fi) == {"legal_expression_raised_RecursionError"} and ref[0] == 0 and deep_eq(cur, ref)
                    and spine_of(ref[1]) > EVAL_DEPTH_LIMIT
                    and all(x == b"RecursionError" for x in o[0] + o[1]))
        if entry["id"] == "D14c":
            return cur[0] == 0 and ref[0] == 1 and set(fi) == {"rejected_with_ValueError"} \
                and has_bare_keyword(case["s"])
        return False

    # ---- reporting helpers
    def nontrivial(self, c, obs):
        s = c["s"]
        if any(ch in s for ch in "()'\"\\") or any(ch.isspace() for ch in s) or obs[0][:1] == [b"ValueError"]:
            return (s, c["u"])
        return None

    def show(self, c):
        return {"expression": c["s"], "expression_repr": repr(c["s"]), "intended_tree": c["exp"], "universe": c["u"],
                "kind": c["kind"],
                "environments": [[i, sid, type(d).__name__, repr(d) + (" fault=" + repr((d.fault[0], d.fault[1].__name__))
                                                                           if getattr(d, "fault", None) else "")]
                                 for i, (sid, d) in enumerate(UNIVERSES[c["u"]])]}

    def shrink(self, c):
        if c["kind"] == "d26":
            return
        e = c["exp"]
        if e is not None and e[0] != "atom":
            for sub in e[1:]:
                toks = print_expr(sub, "min")
                yield dict(c, s=text(toks), exp=strip_style(sub))
            yield dict(c, s=text(print_expr(e, "min")), exp=e)
        s = c["s"]
        for i in range(len(s)):
            yield dict(c, s=s[:i] + s[i + 1:], exp=None, kind="shrunk")

    # ---- checks outside the case scheme
    def extra_checks(self, tier, rng, report):
        fails = report.setdefault("extra_failing", [])
        report["hist"].update(self._kinds or {})
        classes = {}
        for pat in BAD_REGEXES:
            classes[regex_class(pat)] = classes.get(regex_class(pat), 0) + 1
        report["extra"]["invalid_regex_classes"] = classes
        for need in ("error-with-pos", "error-without-pos", "overflow", "valid"):
            if not classes.get(need):
                fails.append(({"_extra": True, "what": "invalid-regex family has no member of class " + need},
                              ["generator:invalid_regex_classes"], None, None))
        # 1. the model's is_space against str.isspace on every code point
        top = 0x110000
        cps = list(range(top)) if tier != "quick" else list(range(0x3200)) + list(range(0x3200, top, 61))
        lines = ["(1 (" + " ".join(str(c) for c in cps[i:i + 20000]) + "))" for i in range(0, len(cps), 20000)]
        outs = run_model(self.ident, lines)
        k = 0
        bad = []
        for out in outs:
            for b in unsx(out)[0]:
                if bool(b) != chr(cps[k]).isspace():
                    bad.append(cps[k])
                k += 1
        report["extra"]["isspace_codepoints_compared"] = k
        if bad:
            fails.append(({"_extra": True, "what": "is_space table differs from str.isspace", "codepoints": bad[:20]},
                          ["corr:isspace_table"], None, None))
        # 2. oracle hypothesis: translated glob patterns and escaped literals always compile
        alpha = "[]!^-\\*?{}()|+.$a1, :<>&~#\n"
        n = 20000 if tier == "quick" else 200000
        badp = []
        for _ in range(n):
            p = "".join(rng.choice(alpha) for _ in range(rng.randrange(0, 12)))
            for rx in (fnmatch.translate(p), re.escape(p)):
                try:
                    re.compile(rx, re.IGNORECASE)
                except Exception as e:    # noqa
                    badp.append((p, type(e).__name__))
        report["extra"]["glob_compile_fuzz"] = n
        if badp:
            fails.append(({"_extra": True, "what": "fnmatch.translate/re.escape output does not compile", "patterns": badp[:5]},
                          ["oracle:glob_always_compiles"], None, None))
        # 3. the Matcher class agrees with match()
        badm = []
        for a in ALPHABET[:12]:
            s = print_atom(a[1], a[2])
            for env in UNIVERSE:
                try:
                    r1 = SM.matcher(s).matches(system_id=env[0], system_data=env[1])
                    r2 = SM.match(s, system_id=env[0], system_data=env[1])
                    if r1 is not r2 or str(SM.matcher(s)) != s:
                        badm.append((s, env[0]))
                except Exception as e:    # noqa
                    badm.append((s, type(e).__name__))
        if badm:
            fails.append(({"_extra": True, "what": "Matcher.matches differs from match", "cases": badm[:5]},
                          ["matcher_equals_match"], None, None))


def escape_family():
    follow = ["'", '"', "\\", "n", "0", " ", "@", "(", ")", "\n", "\t", "i", ":", "/", None]   # None = end of input
    key_hosts = [("@data_literal:", "@v"), ("@data_glob/i:", "@v"), ("@data_re/:", "@'v'")]
    pat_hosts = [("@data_literal:k@", ""), ("@id_re@", ""), ("@id_glob/i@", ""), ("", ""), ("@data_glob:'k'@", "")]
    for hosts in (key_hosts, pat_hosts):
        for (before, after) in hosts:
            for q in ("'", '"', ""):
                for pre in ("", "x"):
                    for post in ("", "y"):
                        for ch in follow:
                            if ch is None:
                                cores = [before + q + pre + "\\"]
                            else:
                                core = before + q + pre + "\\" + ch + post + q + after
                                cores = [core, before + q + pre + "\\" + ch + post]      # also unterminated
                            for core in cores:
                                yield core
                                yield "a or not (" + core + " and b)"
                                yield core + " or b"


BAD_REGEXES = ["(", ")", "[", "*a", "a**", "a{2,1}", "\\", "(?z)", "a)", "[b-a]", "(?P<1>a)", "\\1", "(?P<n>a)(?P<n>b)",
               "(?P=x)", "(?i", "(?(9)a)", "+", "(?a)(?L)x", "a b(", "x'y[", 'x"y\\',
               "(?<=a*)b", "x(?<!y+)z", "(?<=web|db)-.*", "(?<!a|bc)d", "(?<=a+)", "(?<=a b*)'c",
               "a{4294967296}", "a{1,4294967296}", "(a){4294967296}", "a b{99999999999}",
               "a{3}", "(?<=ab)c", "(?i)a", "a|b"]


def regex_class(pat):
    try:
        re.compile(pat)
        return "valid"
    except re.error as e:
        return "error-with-pos" if getattr(e, "pos", None) is not None else "error-without-pos"
    except OverflowError:
        return "overflow"
    except RecursionError:
        return "recursion"      # boundary: not generated
    except Exception as e:      # noqa
        return "other-" + type(e).__name__


def bad_regex_family():
    for pat in BAD_REGEXES:
        cls = regex_class(pat)
        if cls == "recursion":
            continue
        for host in ("@id_re@", "@id_re/i@", "@data_re:k@", "@data_re/i:'k'@", "@id_glob@", "@data_literal:k@"):
            for st in (UNQ, SQ, DQ):
                if st == UNQ and not unquoted_legal(pat):
                    continue
                core = host + quote(pat, st)
                for s in (core, "a or not (" + core + " and b)", core + " or b", "b and " + core, "(" + core + ")",
                          "not " + core + " or (", core + " and"):
                    yield s, cls


WS_KINDS = ["\n", "\r\n", "\r", "\x0b", "\x0c", "\x1c", "\x1d", "\x1e", "\x1f", "\x85", "\xa0", "\u2028", "\u2029", "\u3000",
            " ", "\t", "\n\n", " \n", "\n ", "\n\t\n", "\u200b", "\\n"]
WS_BASES = ["(abc", "(abc or def", "abc and (def or ghi", "not (abc", "abc and", "abc or", "not", "", "(", ")", "abc)", "abc def",
            "and abc", "abc and and def", "abc not def", "@id_re@'('", "@id_glob@", "@data_glob:k@", "@data_glob:k", "'abc",
            "'abc\\", "@x@y", "abc @", "(abc))", "abc and (", "(abc or def) ghi", "@id_re@a{4294967296}", "@id_re@'(?<=a*)b'",
            "((abc)", "not not", "abc or not", "@data_literal:'k'x@v",
            "abc", "abc and def", "(abc or def) and not ghi", "not(abc)", "@data_glob:k@v*", "'a b' or \"c\"", "((abc))"]


def whitespace_family():
    for base in WS_BASES:
        cuts = [i for i in range(len(base) + 1)
                if i == 0 or i == len(base) or base[i - 1] in " ()@'\":" or base[i] in " ()@'\":"]
        for w in WS_KINDS:
            for i in cuts:
                yield base[:i] + w + base[i:]
            yield w + base + w
            yield base.replace(" ", w)
            yield base.replace(" ", " " + w) + w


def limits_family(quick):
    ns = [255, 256, 257, 2048] + ([] if quick else [4096, 10000])
    for n in ns:
        yield "not " + "a" * n
        yield "*" + "a" * n + " or b*"
        yield "'" + "a " * n + "'"
        yield "@data_literal:" + "k" * n + "@v1 or not " + "@data_glob:'" + "k " * n + "'@''"
        yield "@id_re@" + "a?" * min(n, 1000) + " or a"
        yield "a" + " " * n + "and" + "\n" * n + "b"
        yield " " * n + "a" + "\t" * n
    # number of operands: the parser loops, but evaluation recurses once per operand of a left-nested chain, so
    # chains beyond Python's recursion limit (~1000 frames) raise RecursionError - stated boundary, kept below it
    for n in [2, 3, 16, 17, 64, 65, 255, 256, 257, 400]:
        yield " or ".join(["a", "b"] * (n // 2) + ["c"] * (n % 2))
        yield " and ".join(["not b"] * n)
        yield " or ".join(["a and b"] * n)
        yield " and ".join(["(a or not b)"] * n)
    for d in [1, 2, 15, 16, 17, 31, 32, 33, 63, 64, 65, 100]:
        yield "(" * d + "a" + ")" * d
        yield "( " * d + "a or b" + " )" * d
        yield "not " * d + "a"
        yield "not(" * d + "a" + ")" * d
        yield "(" * d + "a" + ")" * (d - 1)
        yield "(" * d + "a" + ")" * (d + 1)
        yield "(a and " * d + "b" + ")" * d
        yield "a or (" * d + "b" + ")" * d
    # every character (control, ASCII, Latin-1, some beyond) inside quoted and unquoted patterns and keys
    cps = list(range(0, 0x100)) + [0x100, 0x130, 0x131, 0x17f, 0x212a, 0x3b1, 0x430, 0x5d0, 0x2000, 0x200b, 0x2028, 0x2029, 0x202f,
                                   0x205f, 0x3000, 0xfeff, 0xfffd, 0xffff, 0x10000, 0x1f600, 0x10ffff]
    for cp in cps:
        ch = chr(cp)
        yield "x" + ch + "y"
        yield "'" + quote("x" + ch + "y", SQ)[1:-1] + "'"
        yield '@id_literal@"' + quote(ch, DQ)[1:-1] + '" or a'
        yield "@data_literal:'" + quote("k" + ch, SQ)[1:-1] + "'@v or a"
        yield "@data_literal:k" + ch + "@v or a"


def deep_eq(a, b):
    """equality of nested lists without recursion (parse results of very long chains are deeply nested)"""
    stack = [(a, b)]
    while stack:
        x, y = stack.pop()
        if isinstance(x, list) and isinstance(y, list):
            if len(x) != len(y):
                return False
            stack.extend(zip(x, y))
        elif isinstance(x, list) or isinstance(y, list) or x != y:
            return False
    return True


def spine_of(x):
    """nesting along the first-evaluated operands of an expression in sx form (iterative: the tree may be deep)"""
    n = 1
    while x[0] != 0:
        x = x[1]
        n += 1
    return n


def has_bare_keyword(s):
    return re.search(r"(^|[\s(])(and|or|not)\)", s) is not None


def hash_tree(t):
    import zlib
    return zlib.crc32(repr(strip_style(t)).encode())


def random_tree(rng, nodes, alpha):
    if nodes <= 1:
        return rng.choice(alpha)
    k = rng.random()
    if k < 0.25 or nodes == 2:
        return Not(random_tree(rng, nodes - 1, alpha))
    nl = rng.randrange(1, nodes - 1)
    l, r = random_tree(rng, nl, alpha), random_tree(rng, nodes - 1 - nl, alpha)
    return And(l, r) if k < 0.65 else Or(l, r)


if __name__ == "__main__":
    raise SystemExit(C18().main())
