"""
C09, request-port part: every datagram sent to the TFTP request port is answered with nothing, exactly one
well-formed ERROR, or - for a read request decoded as RFC 1350/2347 prescribe - a transfer start, and never
reaches the catch-all of TftpServer._run.

Runs the REAL TftpServer._process_request on a server object whose `_socket` is a recording fake and whose
`_handle_read` is replaced ON THE INSTANCE by a recorder (no transfer thread is started), and compares with the
extracted model coq/theories/Tftp/RequestPort.v (driver ocaml/bin/c09port, entry C09/PortEntry.v).

Used by harness/c09.py through `port_checks(tier, rng, report)`; `python harness/c09_port.py [--tier T]` runs
it alone.
"""
import itertools
import logging
import sys
import time

import common
from common import sx, unsx, names
import tftp_common as T
from vinegar.tftp import server as S
from vinegar.tftp.protocol import TransferMode

REQ = ("::1", 40001, 0, 0)
DST = ("::1", 69, 0, 0)
ALPHABET = [0, 1, 2, 3, 4, 5, 6, 8, 9, 0x61, 0xff]

HANDLER_SETS = [
    [("const", True)],
    [("const", False)],
    [("prefix", b"a")],
    [("const", False), ("exact", b"f"), ("const", True)],
    [("exact", b""), ("prefix", b"aa")],
    [("prefix", b"a"), ("prefix", b"a")],
    [("const", True), ("const", True), ("const", True)],
    [],
]


class PredHandler(S.TftpRequestHandler):
    """scripted request handler: can_handle is a predicate on the decoded filename"""
    def __init__(self, spec):
        self.spec = spec

    def can_handle(self, filename, context):
        kind, arg = self.spec
        if kind == "const":
            return arg
        name = filename.encode("latin-1", "replace")
        if kind == "prefix":
            return name.startswith(arg)
        return name == arg

    def handle(self, filename, client_address, server_address, context):
        raise AssertionError("no transfer is run by the request-port check")


def handler_sx(spec):
    kind, arg = spec
    return [0, bool(arg)] if kind == "const" else ([1, arg] if kind == "prefix" else [2, arg])


class _RecSock:
    def __init__(self, events):
        self.events = events

    def sendto(self, data, addr):
        self.events.append(("send", bytes(data), addr))


class _ExcLog(logging.Handler):
    def __init__(self):
        super().__init__()
        self.records = []

    def emit(self, record):
        if record.exc_info:
            self.records.append(record.exc_info[0].__name__ if record.exc_info[0] else "exc")


class Port:
    """one real TftpServer per handler set, never started"""
    def __init__(self, specs):
        self.specs = specs
        self.events = []
        self.handlers = [PredHandler(s) for s in specs]
        self.server = S.TftpServer(self.handlers, bind_address="::1", bind_port=0)
        self.server._socket = _RecSock(self.events)
        hs = self.handlers
        ev = self.events

        def recorder(filename, transfer_mode, options, client_address, server_address, handler_function,
                     handler_context):
            owner = getattr(handler_function, "__self__", None)
            idx = next((i for i, h in enumerate(hs) if h is owner), 99)
            ev.append(("start", filename, transfer_mode, dict(options), client_address, server_address, idx))
        self.server._handle_read = recorder       # instance attribute: /repo is not edited

    def react(self, datagram, exclog):
        """canonical observation of what the port did for one datagram"""
        del self.events[:]
        n0 = len(exclog.records)
        try:
            self.server._process_request(bytes(datagram), REQ, DST)
        except Exception:                          # what TftpServer._run would log with logger.exception
            self.events.append(("logexc",))
        obs = []
        for e in self.events:
            if e[0] == "send":
                p = T.parse_packet(e[1])
                obs.append(p if (p[0] == 5 and e[2] == REQ) else [99, e[1]])
            elif e[0] == "start":
                _, fn, mode, opts, cli, srv, idx = e
                ok = cli == REQ and srv == DST and isinstance(mode, TransferMode)
                if not ok:
                    obs.append([99, repr(e).encode("latin-1", "replace")[:200]])
                else:
                    obs.append([1, fn.encode("latin-1", "replace"), int(mode),
                                [[k.encode("latin-1", "replace"), v.encode("latin-1", "replace")] for k, v in opts.items()],
                                idx])
            else:
                obs.append([4])
        if len(exclog.records) > n0:
            obs.append([4])
        return obs


# ----------------------------------------------------------------------------- generators
def all_datagrams(maxlen):
    for n in range(0, maxlen + 1):
        for d in itertools.product(ALPHABET, repeat=n):
            yield bytes(d)


FILENAMES = [b"f", b"a", b"aa/b.cfg", b"pxelinux.0", b"", b"F", b"a b", b"/abs", b"..", b"a\xffb", b"\xe4", b"x" * 40]
MODES = [b"octet", b"OCTET", b"OcTeT", b"netascii", b"NETASCII", b"NetAscii", b"mail", b"MAIL", b"Mail",
         b"binary", b"", b"octet ", b"oct\xffet", b"octe"]
OPT_NAMES = [b"blksize", b"BLKSIZE", b"timeout", b"tsize", b"windowsize", b"", b"x", b"t\xfcsize"]
OPT_VALUES = [b"0", b"8", b"512", b"1428", b"65464", b"", b"abc", b"1\xff2"]


def rrq(fn, mode, opts):
    d = b"\x00\x01" + fn + b"\x00" + mode + b"\x00"
    for k, v in opts:
        d += k + b"\x00" + v + b"\x00"
    return d


def grammar_rrqs(rng, count):
    for _ in range(count):
        opts = [(rng.choice(OPT_NAMES), rng.choice(OPT_VALUES)) for _k in range(rng.choice([0, 0, 1, 2, 3]))]
        yield rrq(rng.choice(FILENAMES), rng.choice(MODES), opts)


def mutations(rng, d):
    """missing NULs, extra NULs, non-ASCII bytes, truncation, odd option lists, other opcodes, padding"""
    nul = [i for i, b in enumerate(d) if b == 0 and i >= 2]
    for i in nul:
        yield d[:i] + d[i + 1:]                    # missing NUL
        yield d[:i] + b"\x00" + d[i:]              # extra NUL
    if len(d) > 2:
        i = rng.randrange(2, len(d))
        yield d[:i] + bytes([rng.choice([0x80, 0xff, 0xc3])]) + d[i:]
        yield d[:i] + bytes([rng.choice([0x80, 0xff, 0x00, 0x41])]) + d[i + 1:]
        yield d[:rng.randrange(0, len(d))]         # truncated
    yield d + rng.choice(OPT_NAMES) + b"\x00"       # option name without value
    yield d + rng.choice(OPT_NAMES)                 # ... and without terminator
    yield d + b"\x00"
    yield bytes([rng.choice([0, 0, 1, 0xff]), rng.choice([0, 2, 3, 4, 5, 6, 7, 9, 0xff])]) + d[2:]
    yield d[:1] + d[2:]


def long_packets(rng, count):
    """512..600 byte packets: long file names, many options, trailing garbage"""
    for _ in range(count):
        n = rng.randrange(512, 601)
        k = rng.random()
        if k < 0.3:
            d = rrq(b"a" * (n - 9), b"octet", [])
        elif k < 0.6:
            opts = []
            d = rrq(b"f", b"octet", opts)
            while len(d) < n:
                opts.append((rng.choice(OPT_NAMES), rng.choice(OPT_VALUES)))
                d = rrq(b"f", b"octet", opts)
        elif k < 0.8:
            d = rrq(b"f", b"netascii", [(b"blksize", b"9" * (n - 30))])
        else:
            d = bytes([0, rng.choice([1, 1, 2, 4, 5, 7])]) + bytes(rng.randrange(256) for _ in range(n - 2))
        yield d
        yield d[:-1]
        yield d + b"\x00"


def gen_cases(tier, rng):
    quick = tier == "quick"
    maxlen = 4 if quick else 5
    k = 0
    for d in all_datagrams(maxlen):
        k += 1
        yield (d, k % len(HANDLER_SETS))
    for d in grammar_rrqs(rng, 1500 if quick else 15000):
        for hs in ((rng.randrange(len(HANDLER_SETS)),) if quick else (0, rng.randrange(1, len(HANDLER_SETS)))):
            yield (d, hs)
        for m in mutations(rng, d):
            yield (m, rng.randrange(len(HANDLER_SETS)))
    for hs in range(len(HANDLER_SETS)):            # every handler set against plain requests
        for fn in FILENAMES:
            for mode in (b"octet", b"NETASCII", b"mail"):
                yield (rrq(fn, mode, []), hs)
                yield (rrq(fn, mode, [(b"blksize", b"1428"), (b"BLKSIZE", b"8"), (b"blksize", b"9")]), hs)
    for d in long_packets(rng, 100 if quick else 1500):
        yield (d, rng.randrange(len(HANDLER_SETS)))


# ----------------------------------------------------------------------------- evaluation
def line(d, hs_index, obs):
    return sx([[d, [handler_sx(s) for s in HANDLER_SETS[hs_index]]], obs])


def evaluate(cases, ports, exclog):
    obs = [ports[h].react(d, exclog) for (d, h) in cases]
    outs = common.run_model("c09port", [line(d, h, o) for (d, h), o in zip(cases, obs)])
    res = []
    for (d, h), o, out in zip(cases, obs, outs):
        if out.startswith("!") or out.startswith("#"):
            raise RuntimeError(f"c09port: driver rejected case {d!r} -> {out[:100]}")
        r = unsx(out)
        res.append(((d, h), o, r[0], names(r[1]), names(r[2])))
    return res


def shrink(case, ports, exclog):
    """greedy: drop bytes, then handlers are left alone (the handler set is part of the fixed scope)"""
    d, h = case
    improved = True
    steps = 0
    while improved and steps < 300:
        improved = False
        for i in range(len(d)):
            cand = d[:i] + d[i + 1:]
            steps += 1
            (_, _o, _m, _fm, fi), = evaluate([(cand, h)], ports, exclog)
            if fi:
                d = cand
                improved = True
                break
    return (d, h)


def show(case):
    d, h = case
    # "content"/"events" are present so that the show() of the TFTP transfer checks (C01.show) can print the case
    return {"_extra": True, "part": "request-port", "datagram_hex": d.hex(),
            "datagram": common._jsonable(d), "handlers": [[k, common._jsonable(a)] for (k, a) in HANDLER_SETS[h]],
            "content": bytes(d), "events": []}


def port_checks(tier, rng, report):
    """append failures to report['extra_failing']; add counts to report['evaluations'] and report['extra']"""
    t0 = time.time()
    exclog = _ExcLog()
    logger = logging.getLogger("vinegar.tftp.server")
    old_level, old_prop = logger.level, logger.propagate
    logger.addHandler(exclog)
    logger.setLevel(logging.DEBUG)
    logger.propagate = False
    stats = {"port_evaluations": 0, "port_disagreements": 0, "port_impl_failures": 0, "port_model_failures": 0,
             "port_reactions": {"nothing": 0, "error1": 0, "error2": 0, "error4": 0, "start": 0, "other": 0}}
    failing = []
    try:
        ports = [Port(specs) for specs in HANDLER_SETS]
        batch = []

        def flush():
            for (case, o, m, fm, fi) in evaluate(batch, ports, exclog):
                stats["port_evaluations"] += 1
                key = ("nothing" if not o else
                       "start" if o[0][0] == 1 and len(o) == 1 else
                       f"error{o[0][1]}" if o[0][0] == 5 and len(o) == 1 and o[0][1] in (1, 2, 4) else "other")
                stats["port_reactions"][key] += 1
                if o != m:
                    stats["port_disagreements"] += 1
                if fm:
                    stats["port_model_failures"] += 1
                if fi or o != m:
                    stats["port_impl_failures"] += 1
                    if len(failing) < 5:
                        failing.append((case, fi or ["C09:port_reaction"], o, m))
            del batch[:]
        for case in gen_cases(tier, rng):
            batch.append(case)
            if len(batch) >= 4000:
                flush()
                if len(failing) >= 5:
                    break
        flush()
        out = []
        for (case, fi, o, m) in failing[:2]:
            small = shrink(case, ports, exclog) if fi else case
            (_, o2, m2, _fm, fi2), = evaluate([small], ports, exclog)
            if not fi2:
                small, o2, m2, fi2 = case, o, m, fi
            out.append((show(small), fi2, common._jsonable(o2), common._jsonable(m2)))
    finally:
        logger.removeHandler(exclog)
        logger.setLevel(old_level)
        logger.propagate = old_prop
    stats["port_wall_s"] = round(time.time() - t0, 1)
    report.setdefault("extra_failing", []).extend(out)
    report["evaluations"] = report.get("evaluations", 0) + stats["port_evaluations"]
    report["disagreements"] = report.get("disagreements", 0) + stats["port_disagreements"]
    report["impl_failures"] = report.get("impl_failures", 0) + stats["port_impl_failures"]
    report.setdefault("extra", {}).update(stats)
    return out


def main(argv=None):
    import argparse
    import json
    import os
    import random
    ap = argparse.ArgumentParser()
    ap.add_argument("--tier", default="quick")
    args = ap.parse_args(argv)
    b = common.ensure_built("C09", ("c09port",))
    if not b.ok:
        print("build broken:", b.broken)
        print(b.log[-2000:])
        return 2
    seed = int(os.environ.get("VERIF_SEED", "0") or 0)
    report = {"evaluations": 0, "extra": {}}
    out = port_checks(args.tier, random.Random(seed * 1000003 + 909), report)
    print(json.dumps(report["extra"]))
    for (case, fi, o, m) in out:
        print("FAILURE", fi, json.dumps({k: v for k, v in case.items() if k not in ("content", "events")}))
        print("   impl :", o)
        print("   model:", m)
    print(f"[C09-port] tier={args.tier} evaluations={report['evaluations']} failures={len(out)}")
    return 1 if out else 0


if __name__ == "__main__":
    raise SystemExit(main())
