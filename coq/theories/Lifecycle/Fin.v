(* Exhaustive boolean quantification over small finite types (used to discharge the local
   proof obligations of PoolProofs by computation over ALL values of the finite globals). *)
From Coq Require Import Bool.
From VF Require Import Lifecycle.Pool.

Definition all_bool (f : bool -> bool) : bool := f true && f false.
Lemma all_bool_ok f : all_bool f = true -> forall b, f b = true.
Proof. unfold all_bool. intros H b. apply andb_prop in H. destruct H, b; assumption. Qed.

Definition all_lk (f : lk -> bool) : bool := f LFree && f LCaller && f LMain.
Lemma all_lk_ok f : all_lk f = true -> forall b, f b = true.
Proof.
  unfold all_lk. intros H b. apply andb_prop in H. destruct H as [H H3].
  apply andb_prop in H. destruct H, b; assumption.
Qed.

Definition all_opt {A} (all : (A -> bool) -> bool) (f : option A -> bool) : bool :=
  f None && all (fun a => f (Some a)).
Lemma all_opt_ok {A} (all : (A -> bool) -> bool) :
  (forall f, all f = true -> forall a, f a = true) ->
  forall f, all_opt all f = true -> forall o, f o = true.
Proof.
  intros Hall f H o. unfold all_opt in H. apply andb_prop in H. destruct H as [H1 H2].
  destruct o as [a|]; [exact (Hall _ H2 a) | exact H1].
Qed.

Lemma implb_true_elim a b : implb a b = true -> a = true -> b = true.
Proof. destruct a, b; cbn; congruence. Qed.
