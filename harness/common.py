"""
Shared machinery of the checks: S-expression codec (mirror of coq/theories/Base/Sx.v),
driver invocation, build/assumption checks, verdict logic, shrinking, replay files,
known findings, evidence.

Every check is `python harness/<id>.py --tier quick|thorough [--replay FILE]` (wrapped by ./check).
The implementation under test is imported from VERIF_REPO (default /repo).
"""
import argparse
import fcntl
import hashlib
import json
import os
import random
import re
import subprocess
import sys
import time

VERIF = os.path.dirname(os.path.dirname(os.path.abspath(__file__)))
REPO = os.environ.get("VERIF_REPO", "/repo")
if REPO not in sys.path:
    sys.path.insert(0, REPO)
os.environ.setdefault("PYTHONHASHSEED", "0")
NPROC = int(os.environ.get("VERIF_JOBS", "16"))

STD_TRUSTED_BASE = [
    "Coq 8.16.1 kernel (coqc); vm_compute used for finite sweeps/witnesses; no native_compute",
    "no axioms: every theorem in Props.v reports 'Closed under the global context' (checked on every run)",
    "extraction: ExtrOcamlBasic only (bool/option/unit/list/prod/sumbool/andb/orb directives); OCaml 4.13",
    "unverified glue: ocaml/driver_body.ml (char<->N), harness/*.py (generators, fakes, canonicalisers, shrinker)",
    "correspondence model<->code is differential testing on the enumerated/sampled cases",
]


# ----------------------------------------------------------------------------- sx codec
def sx(o):
    """Python value -> sx text.  int/bool -> integer, bytes/str -> #hex, list/tuple -> ( ... )."""
    if o is True:
        return "1"
    if o is False:
        return "0"
    if isinstance(o, int):
        return str(o)
    if isinstance(o, (bytes, bytearray)):
        return "#" + bytes(o).hex()
    if isinstance(o, str):
        return "#" + o.encode("latin-1").hex()
    if isinstance(o, (list, tuple)):
        return "(" + " ".join(sx(x) for x in o) + ")"
    raise TypeError(f"cannot encode {o!r}")


_TOK = re.compile(r"\(|\)|#[0-9a-f]*|-?[0-9]+")


def unsx(text):
    """sx text -> nested python lists of int / bytes."""
    stack = [[]]
    pos = 0
    text = text.strip()
    for m in _TOK.finditer(text):
        if text[pos:m.start()].strip():
            raise ValueError(f"bad sx near {text[pos:m.start()]!r}")
        pos = m.end()
        t = m.group()
        if t == "(":
            stack.append([])
        elif t == ")":
            x = stack.pop()
            stack[-1].append(x)
        elif t[0] == "#":
            stack[-1].append(bytes.fromhex(t[1:]))
        else:
            stack[-1].append(int(t))
    if text[pos:].strip() or len(stack) != 1 or len(stack[0]) != 1:
        raise ValueError(f"bad sx: {text[:200]!r}")
    return stack[0][0]


def names(lst):
    """list of byte strings (clause names) -> list of str"""
    return [b.decode("latin-1") for b in lst]


# ----------------------------------------------------------------------------- build
def _sh(cmd, timeout, cwd=None):
    p = subprocess.run(cmd, shell=True, cwd=cwd, stdout=subprocess.PIPE, stderr=subprocess.STDOUT,
                       text=True, timeout=timeout)
    return p.returncode, p.stdout


class Build:
    """Result of bringing the Coq development and one driver up to date."""
    def __init__(self):
        self.ok = True
        self.broken = None        # name of the file/theorem that no longer checks
        self.log = ""
        self.obligations = 0
        self.discharged = 0
        self.axioms = []


def ensure_built(prop, extra_bins=()):
    """make the Coq project (incremental), regenerate the Print Assumptions transcript of
    theories/<prop>/Props.v, and compile the extracted driver(s).  Serialised by a lock."""
    b = Build()
    pid = prop.lower()
    os.makedirs(os.path.join(VERIF, "coq", "assumptions"), exist_ok=True)
    with open(os.path.join(VERIF, ".build.lock"), "w") as lk:
        fcntl.flock(lk, fcntl.LOCK_EX)
        coq = os.path.join(VERIF, "coq")
        rc, out = _sh(f"sh {VERIF}/tools/build_coq.sh 2>&1 | tail -60", 3600, VERIF)
        import glob as _glob
        props_files = sorted(_glob.glob(os.path.join(coq, "theories", prop, "*Props*.v")))
        if not props_files:
            b.ok = False
            b.broken = f"theories/{prop}/Props.v missing"
            return b
        b.obligations = sum(len(re.findall(r"^\s*Theorem\s", open(f).read(), re.M)) for f in props_files)
        for props_v in props_files:
            props_vo = props_v + "o"
            if not os.path.exists(props_vo) or os.path.getmtime(props_vo) < os.path.getmtime(props_v):
                b.ok = False
                m = re.search(r'File "\./(theories/[^"]+)", line (\d+)', out)
                b.broken = f"{m.group(1)}:{m.group(2)}" if m else os.path.relpath(props_v, coq)
                b.log = out[-3000:]
                return b
        if "Error" in out and f"theories/{prop}/" in out:
            b.ok = False
            b.broken = f"theories/{prop}"
            b.log = out[-3000:]
            return b
        # assumptions transcript (all property-theorem files of this property)
        tr = os.path.join(coq, "assumptions", f"{prop}.txt")
        newest = max(os.path.getmtime(f + "o") for f in props_files)
        if not os.path.exists(tr) or os.path.getmtime(tr) < newest:
            tmpd = os.path.join(coq, "assumptions", f"tmp_{prop}_{os.getpid()}")
            os.makedirs(tmpd, exist_ok=True)
            text = ""
            for props_v in props_files:
                rel = os.path.relpath(props_v, coq)
                base = os.path.basename(props_v)
                rc2, out2 = _sh(f"timeout 900 coqc -Q theories VF {rel} -o {tmpd}/{base}o", 1000, coq)
                if rc2 != 0:
                    _sh(f"rm -rf {tmpd}", 60)
                    b.ok = False
                    b.broken = rel
                    b.log = out2[-3000:]
                    return b
                text += out2
            _sh(f"rm -rf {tmpd}", 60)
            with open(tr, "w") as f:
                f.write(text)
        text = open(tr).read()
        n_print = sum(len(re.findall(r"^\s*Print Assumptions", open(f).read(), re.M)) for f in props_files)
        n_closed = text.count("Closed under the global context")
        axioms = re.findall(r"^([A-Za-z_][\w.']*)\s*:", text, re.M) if "Axioms:" in text else []
        b.axioms = axioms
        if n_closed < n_print:
            b.ok = False
            b.broken = f"theories/{prop}: {n_print - n_closed} Print Assumptions block(s) not closed under the global context: {axioms[:5]}"
            return b
        b.discharged = b.obligations
        # drivers
        for ident in (pid,) + tuple(extra_bins):
            src = os.path.join(VERIF, "ocaml", "gen", f"{ident}_model.ml")
            binp = os.path.join(VERIF, "ocaml", "bin", ident)
            if not os.path.exists(src):
                b.ok = False
                b.broken = f"extraction of {ident} missing"
                return b
            if (not os.path.exists(binp)) or os.path.getmtime(binp) < os.path.getmtime(src) \
                    or os.path.getmtime(binp) < os.path.getmtime(os.path.join(VERIF, "ocaml", "driver_body.ml")):
                rc3, out3 = _sh(f"./build.sh {ident}", 600, os.path.join(VERIF, "ocaml"))
                if rc3 != 0:
                    b.ok = False
                    b.broken = f"ocaml build of {ident}"
                    b.log = out3[-3000:]
                    return b
    return b


# ----------------------------------------------------------------------------- model runs
def run_model(ident, lines, jobs=None):
    """Feed sx lines to ocaml/bin/<ident>, sharded over processes; returns output lines (same order)."""
    if not lines:
        return []
    jobs = jobs or NPROC
    binp = os.path.join(VERIF, "ocaml", "bin", ident.lower())
    n = len(lines)
    jobs = max(1, min(jobs, (n + 199) // 200))
    shards = [lines[i::jobs] for i in range(jobs)]
    procs = []
    for sh in shards:
        p = subprocess.Popen([binp], stdin=subprocess.PIPE, stdout=subprocess.PIPE, text=True,
                             preexec_fn=lambda: __import__("resource").setrlimit(
                                 __import__("resource").RLIMIT_STACK,
                                 (__import__("resource").RLIM_INFINITY, __import__("resource").RLIM_INFINITY)))
        procs.append((p, sh))
    outs = []
    # write in threads to avoid pipe deadlock
    import threading
    results = [None] * len(procs)

    limit = int(os.environ.get("VERIF_MODEL_TIMEOUT", "3600"))

    def work(i, p, sh):
        try:
            o, _ = p.communicate("\n".join(sh) + "\n", timeout=limit)
            results[i] = o.split("\n")[:len(sh)]
        except subprocess.TimeoutExpired:
            p.kill()
            results[i] = None
    ths = [threading.Thread(target=work, args=(i, p, sh), daemon=True) for i, (p, sh) in enumerate(procs)]
    try:
        for t in ths:
            t.start()
        for t in ths:
            t.join()
    finally:
        for (p, _sh) in procs:          # never leave a driver behind (e.g. when the harness is interrupted)
            if p.poll() is None:
                try:
                    p.kill()
                except OSError:
                    pass
    out = [None] * n
    for j, res in enumerate(results):
        if res is None or len(res) != len(shards[j]):
            raise RuntimeError(f"driver {ident} died (shard {j}: {0 if res is None else len(res)}/{len(shards[j])} lines)")
        for k, line in enumerate(res):
            out[j + k * jobs] = line
    return out


# ----------------------------------------------------------------------------- known findings
def load_known():
    p = os.path.join(VERIF, "known_findings.json")
    if not os.path.exists(p):
        return []
    return json.load(open(p)).get("entries", [])


# ----------------------------------------------------------------------------- the check skeleton
class Check:
    """
    Skeleton shared by all properties.  A property module supplies:
      ident            "C08"
      gen(tier, rng)   -> iterable of cases (python objects, JSON-serialisable via show())
      impl(case)       -> observation (python object) from the real code
      line(case, obs)  -> sx text for the driver: (case impl_obs)
      canon(obs)       -> nested list/int/bytes comparable with unsx(model_obs)
      nontrivial(case, obs) -> hashable key or None
      shrink(case)     -> iterable of smaller cases (optional)
      show(case)       -> JSON-able readable form
      match_known(entry, case, failed) -> bool (optional)
    The driver answers  (model_obs failed_on_model failed_on_impl ...).
    """
    ident = "C00"
    technique = ""
    assumptions = []
    trusted_extra = []
    rule = ""
    extra_bins = ()
    search_budget_s = 120
    impl_canon_from_driver = False   # driver returns the canonical projection of the impl observation as 4th item

    def shrink(self, case):
        return ()

    def show(self, case):
        return case

    def match_known(self, entry, case, failed):
        return False

    def nontrivial(self, case, obs):
        return None

    def replay_extra(self, case):
        """replay one case of an additional part: -> (impl_obs, model_obs, failed_on_model, failed_on_impl) or None"""
        return None

    def extra_checks(self, tier, rng, report):
        """hook for checks that do not fit the case/obs scheme (real sockets, etc.)"""
        return

    def search(self, rng, deadline):
        """directed search for a failing input when proof or correspondence is broken:
        default = thorough generator with a fresh seed until the deadline."""
        for case in self.gen("thorough", rng):
            if time.time() > deadline:
                return
            yield case

    # -- evaluation of a batch: returns list of (case, impl_obs, model_obs, failed_model, failed_impl)
    def evaluate(self, cases):
        obs = [self.impl(c) for c in cases]
        lines = [self.line(c, o) for c, o in zip(cases, obs)]
        outs = run_model(self.ident, lines)
        res = []
        for c, o, ln, out in zip(cases, obs, lines, outs):
            if out.startswith("!") or out.startswith("#"):
                raise RuntimeError(f"{self.ident}: driver rejected case {ln[:300]} -> {out[:100]}")
            r = unsx(out)
            res.append((c, o, r[0], names(r[1]), names(r[2]), r[3:]))
        return res

    def fails(self, case):
        (c, o, m, fm, fi, _), = self.evaluate([case])
        return bool(fi)

    def minimise(self, case, budget_s=60):
        cur = case
        improved = True
        steps = 0
        t_end = time.time() + budget_s
        while improved and steps < 200 and time.time() < t_end:
            improved = False
            for cand in self.shrink(cur):
                if time.time() > t_end:
                    break
                steps += 1
                try:
                    if self.fails(cand):
                        cur = cand
                        improved = True
                        break
                except Exception:
                    continue
                if steps >= 200:
                    break
        return cur

    def write_replay(self, kind, case, detail):
        os.makedirs(os.path.join(VERIF, "replays"), exist_ok=True)
        shown = None
        if case is not None:
            # cases of additional parts (extra_checks) are plain dicts already
            shown = _jsonable(case) if (isinstance(case, dict) and case.get("_extra")) else self.show(case)
        blob = json.dumps({"property": self.ident, "kind": kind, "case": shown,
                           "detail": detail}, sort_keys=True, default=repr)
        h = hashlib.sha1(blob.encode()).hexdigest()[:12]
        path = os.path.join(VERIF, "replays", f"{self.ident}-{h}.json")
        doc = {"property": self.ident, "kind": kind,
               "case": shown,
               "case_pickle": _pickle_b64(case) if case is not None else None,
               "detail": detail, "seed": self.seed,
               "replay_cmd": f"./check {self.ident} --replay {path}"}
        with open(path, "w") as f:
            json.dump(doc, f, indent=1, default=repr)
        return path

    def main(self, argv=None):
        """run the check; a crash of the harness itself (e.g. the implementation did something the runner or the
        driver cannot even represent) is reported as a broken correspondence, not as a silent non-zero exit"""
        self._start_watchdog(argv)
        try:
            return self._main(argv)
        except SystemExit:
            raise
        except BaseException as ex:      # noqa: B902
            import traceback
            tb = traceback.format_exc()
            sys.stderr.write(tb)
            self.seed = getattr(self, 'seed', 0)
            self.tier = getattr(self, 'tier', 'quick')
            path = self.write_replay('no-failing-input-found', None,
                                     {'no_longer_checks': f'correspondence corr:{self.ident}: the harness could not evaluate the implementation ({type(ex).__name__}: {str(ex)[:300]})',
                                      'traceback': tb[-3000:]})
            try:
                b = Build(); b.obligations = 1
                self.write_evidence(b, {'evaluations': 0, 'disagreements': 0, 'impl_failures': 0, 'nontrivial': set(), 'samples': [], 'hist': {}, 'extra': {'harness_exception': repr(ex)[:300]}}, 0.0, 1)
            except Exception:
                pass
            print(f'VIOLATION property={self.ident} replay={path} no-failing-input-found')
            return 1

    def _start_watchdog(self, argv):
        """a check that does not come back is reported, not left hanging: a change that makes the implementation
        (or the harness driving it) wait for ever must end in a VIOLATION line like any other broken
        correspondence.  Limits are 20-40 times the normal run time (VERIF_QUICK_LIMIT / VERIF_THOROUGH_LIMIT, s)."""
        import faulthandler
        import threading
        args = list(sys.argv[1:] if argv is None else argv)
        tier = args[args.index("--tier") + 1] if "--tier" in args and args.index("--tier") + 1 < len(args) else "quick"
        limit = float(os.environ.get("VERIF_THOROUGH_LIMIT", 6 * 3600) if tier == "thorough"
                      else os.environ.get("VERIF_QUICK_LIMIT", 2400))

        def fire():
            try:
                self.seed = getattr(self, 'seed', 0)
                self.tier = getattr(self, 'tier', tier)
                sys.stderr.write(f"watchdog: check {self.ident} did not finish within {limit:.0f} s\n")
                faulthandler.dump_traceback(file=sys.stderr, all_threads=True)
                path = self.write_replay('no-failing-input-found', None,
                                         {'no_longer_checks': f'correspondence corr:{self.ident}: the check did not finish within '
                                                              f'{limit:.0f} s (the implementation or the harness driving it hangs)'})
                sys.stdout.write(f'VIOLATION property={self.ident} replay={path} no-failing-input-found\n')
                sys.stdout.flush()
            finally:
                os._exit(1)
        t = threading.Timer(limit, fire)
        t.daemon = True
        t.start()

    def _main(self, argv=None):
        ap = argparse.ArgumentParser()
        ap.add_argument("--tier", default=os.environ.get("VERIF_TIER", "quick"))
        ap.add_argument("--replay")
        args = ap.parse_args(argv)
        self.tier = args.tier if args.tier in ("quick", "thorough") else "quick"
        self.seed = int(os.environ.get("VERIF_SEED", "0") or 0)
        t0 = time.time()
        rng = random.Random(self.seed * 1000003 + int(self.ident[1:]))
        build = ensure_built(self.ident, self.extra_bins)
        cov = _start_coverage(self) if (self.tier == "thorough" or os.environ.get("VERIF_COVERAGE")) and not args.replay else None
        if args.replay:
            return self.do_replay(args.replay, build)
        violations = []      # (path, suffix)
        known_lines = []
        report = {"evaluations": 0, "disagreements": 0, "impl_failures": 0, "nontrivial": set(),
                  "samples": [], "hist": {}, "extra": {}}
        disagree_first = None
        failing = []
        model_fail_first = None
        if build.ok:
            # corpus first
            batch = []
            BATCH = 2000

            def flush():
                nonlocal disagree_first, model_fail_first
                if not batch:
                    return
                for (c, o, m, fm, fi, rest) in self.evaluate(batch):
                    report["evaluations"] += 1
                    k = self.nontrivial(c, o)
                    if k is not None:
                        report["nontrivial"].add(k)
                    if len(report["samples"]) < 5 and (k is not None) and report["evaluations"] % 97 in (1, 2, 3):
                        report["samples"].append({"case": self.show(c), "impl_obs": _jsonable(self.canon(o))})
                    io_c = rest[0] if (self.impl_canon_from_driver and rest) else self.canon(o)
                    # optional 5th item of the driver's answer: 1 iff the case satisfies the hypotheses of the
                    # property's theorems (Cxx_covered_cases); the rest is judged by the run-time checks only
                    if len(rest) >= 2 and rest[1] in (0, 1):
                        key = "cases_within_theorem_hypotheses" if rest[1] == 1 else "cases_outside_theorem_hypotheses"
                        report["extra"][key] = report["extra"].get(key, 0) + 1
                    if io_c != m:
                        report["disagreements"] += 1
                        if disagree_first is None:
                            disagree_first = (c, _jsonable(io_c), _jsonable(m))
                    if fm and model_fail_first is None and self.model_should_hold(c):
                        model_fail_first = (c, fm)
                    if fi:
                        report["impl_failures"] += 1
                        if len(failing) < 20:
                            failing.append((c, fi, _jsonable(self.canon(o)), _jsonable(m)))
                batch.clear()
            for case in self.corpus():
                batch.append(case)
            flush()
            for case in self.gen(self.tier, rng):
                if not self.accept_case(case):
                    # the driver cannot run this case on the tree as it is (see accept_case of the check)
                    report["extra"]["cases_skipped_by_the_driver"] = report["extra"].get("cases_skipped_by_the_driver", 0) + 1
                    continue
                batch.append(case)
                if len(batch) >= BATCH:
                    flush()
                    if len(failing) >= 20:
                        break
            flush()
            self.extra_checks(self.tier, rng, report)
            failing.extend(report.get("extra_failing", []))
        # ---- verdict
        seen_known = set()
        for (c, fi, io, mo) in failing:
            is_extra = isinstance(c, dict) and c.get("_extra")
            if is_extra:
                cmin, fi2, io2, mo2 = c, fi, io, mo
            else:
                cmin = self.minimise(c)
                try:
                    (_, o2, m2, _fm2, fi2, _), = self.evaluate([cmin])
                    io2, mo2 = _jsonable(self.canon(o2)), _jsonable(m2)
                    if not fi2:
                        cmin, fi2, io2, mo2 = c, fi, io, mo
                except Exception:
                    cmin, fi2, io2, mo2 = c, fi, io, mo
            kn = None
            for e in load_known():
                if e.get("property") == self.ident and e.get("status") == "known" and self.match_known(e, cmin, fi2):
                    kn = e
                    break
            if kn is not None:
                if kn["id"] not in seen_known:
                    seen_known.add(kn["id"])
                    known_lines.append(f"KNOWN-FINDING: property={self.ident} {kn['what']}")
                continue
            path = self.write_replay("failing-input", cmin,
                                     {"failed_clauses": fi2, "impl_obs": io2, "model_obs": mo2})
            violations.append((path, ""))
            break   # one replay is enough
        if not violations and (not build.ok or disagree_first is not None or model_fail_first is not None):
            # proof or correspondence broken without a failing input so far: directed search
            found = None
            if build.ok or os.path.exists(os.path.join(VERIF, "ocaml", "bin", self.ident.lower())):
                deadline = time.time() + (self.search_budget_s if self.tier == "quick" else 4 * self.search_budget_s)
                srng = random.Random(self.seed + 7919)
                batch2 = []
                try:
                    for case in self.search(srng, deadline):
                        batch2.append(case)
                        if len(batch2) >= 500:
                            for (c, o, m, fm, fi, _) in self.evaluate(batch2):
                                report["evaluations"] += 1
                                if fi and not any(e.get("property") == self.ident and e.get("status") == "known"
                                                  and self.match_known(e, c, fi) for e in load_known()):
                                    found = (c, fi, o, m)
                                    break
                            batch2 = []
                            if found or time.time() > deadline:
                                break
                    if not found and batch2:
                        for (c, o, m, fm, fi, _) in self.evaluate(batch2):
                            if fi and not any(e.get("property") == self.ident and e.get("status") == "known"
                                              and self.match_known(e, c, fi) for e in load_known()):
                                found = (c, fi, o, m)
                                break
                except Exception as ex:      # driver missing etc.
                    report["extra"]["search_error"] = repr(ex)
            if found:
                c, fi, o, m = found
                cmin = self.minimise(c)
                path = self.write_replay("failing-input", cmin, {"failed_clauses": fi,
                                                                 "impl_obs": _jsonable(self.canon(o)), "model_obs": _jsonable(m)})
                violations.append((path, ""))
            else:
                if not build.ok:
                    detail = {"no_longer_checks": f"theorem/proof: {build.broken}", "log": build.log}
                    path = self.write_replay("no-failing-input-found", None, detail)
                elif model_fail_first is not None and disagree_first is None:
                    detail = {"no_longer_checks": f"theorem {self.ident}_holds does not cover generated case (model fails clause {model_fail_first[1]})"}
                    path = self.write_replay("no-failing-input-found", model_fail_first[0], detail)
                else:
                    detail = {"no_longer_checks": f"correspondence corr:{self.ident} (model vs implementation observation)",
                              "impl_obs": disagree_first[1], "model_obs": disagree_first[2]}
                    path = self.write_replay("no-failing-input-found", disagree_first[0], detail)
                violations.append((path, " no-failing-input-found"))
        if cov is not None:
            report["extra"]["anchor_coverage"] = _stop_coverage(cov, self)
        if self.tier == "thorough" and build.ok:
            rc, out = _sh(f"timeout 1500 coqchk -silent -o -Q theories VF {self.coqchk_modules()} 2>&1 | tail -30", 1600,
                          os.path.join(VERIF, "coq"))
            m = re.search(r"\* Axioms:(.*?)\n\s*\n", out, re.S)
            report["extra"]["coqchk"] = {"axioms": (m.group(1).strip() if m else "unparsed"),
                                         "ok": ("CONTEXT SUMMARY" in out)}
            if "CONTEXT SUMMARY" not in out:
                path = self.write_replay("no-failing-input-found", None,
                                         {"no_longer_checks": f"coqchk VF.{self.ident}.Props", "log": out[-2000:]})
                violations.append((path, " no-failing-input-found"))
        wall = time.time() - t0
        self.write_evidence(build, report, wall, len(violations))
        for ln in known_lines:
            print(ln)
        for (p, suffix) in violations:
            print(f"VIOLATION property={self.ident} replay={p}{suffix}")
        print(f"[{self.ident}] tier={self.tier} seed={self.seed} evaluations={report['evaluations']} "
              f"nontrivial={len(report['nontrivial'])} disagreements={report['disagreements']} "
              f"impl_failures={report['impl_failures']} theorems={build.discharged}/{build.obligations} "
              f"wall={wall:.1f}s")
        return 1 if violations else 0

    def coqchk_modules(self):
        import glob as _glob
        fs = sorted(_glob.glob(os.path.join(VERIF, "coq", "theories", self.ident, "*Props*.v")))
        return " ".join(f"VF.{self.ident}.{os.path.basename(f)[:-2]}" for f in fs)

    def model_should_hold(self, case):
        return True

    def accept_case(self, case):
        """False: the harness cannot drive this case against the tree as it is (e.g. a configuration outside the
        public constructor's ranges when only the public path is available); counted in the evidence, not judged"""
        return True

    def corpus(self):
        d = os.path.join(VERIF, "corpus", self.ident)
        if not os.path.isdir(d):
            return
        for fn in sorted(os.listdir(d)):
            if fn.endswith(".json"):
                doc = json.load(open(os.path.join(d, fn)))
                if doc.get("case_pickle"):
                    yield _unpickle_b64(doc["case_pickle"])

    def do_replay(self, path, build):
        doc = json.load(open(path))
        if doc.get("case_pickle") is None:
            print(f"replay {path}: kind={doc['kind']}: {doc['detail'].get('no_longer_checks')}")
            print("build ok" if build.ok else f"build broken: {build.broken}")
            return 0 if build.ok else 1
        case = _unpickle_b64(doc["case_pickle"])
        if isinstance(case, dict) and case.get("_extra"):
            # a case of one of the check's additional parts (extra_checks): the part replays it itself, or, where it
            # has no single-case replay, the whole quick check is run again (same verdict rules)
            r = self.replay_extra(case)
            if r is None:
                print(f"replay {path}: this case belongs to a part of the check without a single-case replay; "
                      f"running the quick check again")
                return self._main(["--tier", "quick"])
            (o, m, fm, fi) = r
            print("case      :", json.dumps(_jsonable(case), default=repr))
            print("impl obs  :", _jsonable(o))
            print("model obs :", _jsonable(m))
            print("failed clauses on implementation:", fi)
            print("failed clauses on model         :", fm)
            if fi:
                print(f"VIOLATION property={self.ident} replay={path}")
                return 1
            if _jsonable(o) != _jsonable(m):
                print(f"VIOLATION property={self.ident} replay={path} no-failing-input-found")
                return 1
            return 0
        (c, o, m, fm, fi, rest_), = self.evaluate([case])
        print("case      :", json.dumps(self.show(c), default=repr))
        print("impl obs  :", _jsonable(self.canon(o)))
        print("model obs :", _jsonable(m))
        print("failed clauses on implementation:", fi)
        print("failed clauses on model         :", fm)
        if fi:
            print(f"VIOLATION property={self.ident} replay={path}")
            return 1
        if (rest_[0] if (self.impl_canon_from_driver and rest_) else self.canon(o)) != m:
            print(f"VIOLATION property={self.ident} replay={path} no-failing-input-found")
            return 1
        return 0

    def write_evidence(self, build, report, wall, nviol):
        os.makedirs(os.path.join(VERIF, "evidence"), exist_ok=True)
        cov = {
            "obligations": max(build.obligations, 1),
            "discharged": build.discharged,
            "checker_cmd": f"make -C coq (coqc 8.16.1, full .vo build) + coqc theories/{self.ident}/Props.v with Print Assumptions; "
                           f"thorough tier additionally coqchk -o",
            "trusted_base": STD_TRUSTED_BASE + list(self.trusted_extra),
            "axioms_reported": build.axioms,
            "evaluations": report["evaluations"],
            "distinct_nontrivial": len(report["nontrivial"]),
            "rule": self.rule,
            "samples": report["samples"][:5] or [{"note": "no sample"}],
            "correspondence_disagreements": report["disagreements"],
            "impl_property_failures": report["impl_failures"],
            "input_distribution": report["hist"] or {"note": "see rule; per-family counts are in the extra keys where the check records them"},
            "exhaustive": False,
        }
        cov.update(report["extra"])
        ev = {"property_id": self.ident, "tier": self.tier, "seed": self.seed, "level": "proof",
              "coverage": cov, "assumptions": list(self.assumptions), "wall_s": round(wall, 2),
              "violations": nviol}
        # evidence describes runs against /repo only; self-tests against scratch copies (VERIF_REPO) go elsewhere
        if os.path.realpath(REPO) == os.path.realpath("/repo"):
            out = os.path.join(VERIF, "evidence", f"{self.ident}.json")
        else:
            os.makedirs(os.path.join(VERIF, "replays"), exist_ok=True)
            out = os.path.join(VERIF, "replays", f"evidence-{self.ident}-scratch.json")
        with open(out, "w") as f:
            json.dump(ev, f, indent=1, default=repr)


def _anchor_spec(ident):
    """anchor files of the property and, per file, the function names named in anchors.mechanism[].where"""
    files, funcs = [], {}
    for line in open(os.path.join(VERIF, "properties.jsonl")):
        d = json.loads(line)
        if d["id"] != ident:
            continue
        files = list(d["anchors"]["files"])
        for m in d["anchors"].get("mechanism", []):
            for part in (m.get("where") or "").split(";"):
                part = part.strip()
                if ":" not in part:
                    continue
                f, names = part.split(":", 1)
                f = f.strip()
                for nm in re.split(r"[,/]| and ", names):
                    nm = re.sub(r"\(.*?\)", "", nm).strip().split(".")[-1].strip()
                    if re.fullmatch(r"[A-Za-z_][A-Za-z0-9_]*", nm or ""):
                        funcs.setdefault(f, set()).add(nm)
    return files, funcs


def _anchor_files(ident):
    return [os.path.join(REPO, f) for f in _anchor_spec(ident)[0]]


def _start_coverage(check):
    """line coverage of the property's anchored functions while the real code runs (evidence only)"""
    if getattr(check, "no_coverage", False) or check.ident in ("C19", "C20"):
        return None      # those harnesses drive threads with their own sys.settrace scheduler
    try:
        import coverage
        files = _anchor_files(check.ident)
        if not files:
            return None
        c = coverage.Coverage(data_file=None, branch=False, include=files, config_file=False)
        c.start()
        return c
    except Exception:
        return None


def _stop_coverage(c, check):
    import ast
    out = {}
    try:
        c.stop()
        files, funcs = _anchor_spec(check.ident)
        for rel in files:
            f = os.path.join(REPO, rel)
            try:
                (_fn, stmts, _excl, missing, _fmt) = c.analysis2(f)
                stmts, missing = set(stmts), set(missing)
                entry = {"file_statements": len(stmts), "file_percent": round(100.0 * (len(stmts) - len(missing)) / max(1, len(stmts)), 1)}
                want = funcs.get(rel, set())
                if want:
                    tree = ast.parse(open(f).read())
                    per = {}
                    for node in ast.walk(tree):
                        if isinstance(node, (ast.FunctionDef, ast.AsyncFunctionDef)) and node.name in want:
                            lines = set(range(node.lineno, node.end_lineno + 1))
                            st = stmts & lines
                            ms = missing & lines
                            per[node.name] = {"statements": len(st), "missing_lines": sorted(ms)[:60],
                                              "percent": round(100.0 * (len(st) - len(ms)) / max(1, len(st)), 1)}
                    entry["anchored_functions"] = per
                out[rel] = entry
            except Exception as ex:
                out[rel] = {"error": repr(ex)[:100]}
    except Exception as ex:
        out["error"] = repr(ex)[:200]
    return out


def _jsonable(o):
    if isinstance(o, (bytes, bytearray)):
        try:
            s = bytes(o).decode("ascii")
            if s.isprintable():
                return "b:" + s
        except UnicodeDecodeError:
            pass
        return "x:" + bytes(o).hex()
    if isinstance(o, (list, tuple)):
        return [_jsonable(x) for x in o]
    if isinstance(o, dict):
        return {str(k): _jsonable(v) for k, v in o.items()}
    return o


def _pickle_b64(o):
    import base64
    import pickle
    return base64.b64encode(pickle.dumps(o)).decode()


def _unpickle_b64(s):
    import base64
    import pickle
    return pickle.loads(base64.b64decode(s))


def hist(report, key):
    report["hist"][key] = report["hist"].get(key, 0) + 1


def all_chunkings(n, maxparts=None):
    """all compositions of n (ways to split n bytes into successive reads)"""
    if n == 0:
        yield []
        return
    for first in range(1, n + 1):
        for restc in all_chunkings(n - first):
            yield [first] + restc


# ----------------------------------------------------------------------------- ports for real UDP servers
_udp_port_next = [0]


def free_udp_port():
    """A UDP port for a real TftpServer of a harness.  TftpServer sets SO_REUSEADDR on its socket; with bind_port=0 the
    kernel may then hand out a port that another SO_REUSEADDR UDP socket - the TFTP server of ANOTHER check running at
    the same time - already uses, and datagrams go astray between the two processes (seen as a false alarm when checks
    ran in parallel).  So harnesses pick the port themselves: below the ephemeral range, starting at a place that depends
    on the process id, and probed with a socket that does NOT set SO_REUSEADDR (its bind fails if anybody holds the port)."""
    import socket as _s
    if not _udp_port_next[0]:
        _udp_port_next[0] = 20000 + (os.getpid() * 97) % 11000
    for _ in range(12000):
        port = _udp_port_next[0]
        _udp_port_next[0] = 20000 + (port - 20000 + 1) % 11900
        t = _s.socket(_s.AF_INET6, _s.SOCK_DGRAM)
        try:
            t.bind(("::", port))
            return port
        except OSError:
            continue
        finally:
            t.close()
    return 0


def die_with_parent():
    """initializer of worker processes: a worker is killed when its parent goes away for whatever reason, so that no
    orphan keeps the check's stdout pipe open (a caller reading the pipe would wait for ever)"""
    try:
        import ctypes
        import signal
        ctypes.CDLL("libc.so.6", use_errno=True).prctl(1, signal.SIGKILL)      # PR_SET_PDEATHSIG
        if os.getppid() == 1:
            os._exit(0)
    except Exception:   # noqa
        pass
