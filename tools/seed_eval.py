#!/usr/bin/env python3
"""
tools/seed_eval.py <seed_dir> <property id> [--tier quick] [--keep-as NAME]

Confirms a seeded change (patch.diff + demo.py + meta.json) in a scratch worktree of /repo:
  1. the patch applies, 2. the pinned test suite still passes with it, 3. demo.py fails with it
  and passes without it; then runs ./check <id> against the patched worktree (VERIF_REPO) and
  reports the verdict.  With --keep-as the seed is copied to /verif/seeded/<NAME>/ with the
  confirmation and check result recorded in meta.json.  The scratch worktree is removed.
"""
import json
import os
import shutil
import subprocess
import sys
import tempfile

V = os.path.dirname(os.path.dirname(os.path.abspath(__file__)))


def sh(cmd, cwd=None, timeout=3600, env=None):
    p = subprocess.run(cmd, shell=True, cwd=cwd, stdout=subprocess.PIPE, stderr=subprocess.STDOUT, text=True,
                       timeout=timeout, env=env)
    return p.returncode, p.stdout


def main():
    seed = os.path.abspath(sys.argv[1])
    prop = sys.argv[2]
    tier = "quick"
    keep = None
    extra_checks = []
    args = sys.argv[3:]
    while args:
        a = args.pop(0)
        if a == "--tier":
            tier = args.pop(0)
        elif a == "--keep-as":
            keep = args.pop(0)
        elif a == "--also":
            extra_checks.append(args.pop(0))
    wt = tempfile.mkdtemp(prefix="vseed.", dir="/tmp")
    os.rmdir(wt)
    res = {"property": prop, "seed": seed}
    try:
        rc, out = sh(f"git -C /repo worktree add -q --detach {wt} HEAD")
        assert rc == 0, out
        env = dict(os.environ, PYTHONPATH=wt, REPO=wt, PYTHONHASHSEED="0", PYTHONDONTWRITEBYTECODE="1")
        rc0, out0 = sh(f"/venv/bin/python {seed}/demo.py {wt}", cwd=wt, env=env, timeout=900)
        res["demo_without_change"] = {"exit": rc0, "tail": out0[-300:]}
        rc, out = sh(f"git apply {seed}/patch.diff", cwd=wt)
        res["applies"] = rc == 0
        if rc != 0:
            res["apply_error"] = out[-500:]
        else:
            rc1, out1 = sh(f"/venv/bin/python {seed}/demo.py {wt}", cwd=wt, env=env, timeout=900)
            res["demo_with_change"] = {"exit": rc1, "tail": out1[-300:]}
            rct, outt = sh("/venv/bin/python -m pytest -q -p no:cacheprovider --timeout=900 2>&1 | tail -1", cwd=wt, env=env)
            res["tests_with_change"] = outt.strip()
            res["confirmed"] = (rc0 == 0 and rc1 != 0 and "146 passed" in outt)
            verdicts = {}
            for pid in [prop] + extra_checks:
                envc = dict(os.environ, VERIF_REPO=wt)
                rcc, outc = sh(f"./check {pid} --tier {tier}", cwd=V, env=envc, timeout=7200)
                lines = [ln for ln in outc.split("\n") if ln.startswith("VIOLATION") or ln.startswith("KNOWN-FINDING") or ln.startswith("[")]
                v = {"exit": rcc, "lines": lines[-4:]}
                for ln in lines:
                    if ln.startswith("VIOLATION"):
                        path = ln.split("replay=")[1].split()[0]
                        try:
                            doc = json.load(open(path))
                            v["replay_kind"] = doc["kind"]
                            v["failed_clauses"] = doc["detail"].get("failed_clauses")
                            v["case"] = doc.get("case")
                        except Exception as ex:
                            v["replay_error"] = repr(ex)
                verdicts[pid] = v
            res["checks"] = verdicts
    finally:
        sh(f"git -C /repo worktree remove --force {wt}")
        shutil.rmtree(wt, ignore_errors=True)
    print(json.dumps(res, indent=1, default=repr)[:6000])
    if keep:
        dst = os.path.join(V, "seeded", keep)
        os.makedirs(dst, exist_ok=True)
        for fn in ("patch.diff", "demo.py"):
            if os.path.abspath(os.path.join(seed, fn)) != os.path.abspath(os.path.join(dst, fn)):
                shutil.copy(os.path.join(seed, fn), os.path.join(dst, fn))
        meta = {}
        try:
            meta = json.load(open(os.path.join(seed, "meta.json")))
        except Exception:
            pass
        meta["confirmation"] = {k: res.get(k) for k in ("applies", "demo_without_change", "demo_with_change",
                                                         "tests_with_change", "confirmed")}
        meta["what_was_run"] = ("tools/seed_eval.py: git worktree of /repo HEAD; demo.py without change; git apply patch.diff; "
                                "demo.py with change; pinned pytest suite with change; ./check with VERIF_REPO=<worktree>")
        meta["check_results"] = {pid: {"exit": v["exit"], "verdict_lines": v["lines"], "replay_kind": v.get("replay_kind"),
                                       "failed_clauses": v.get("failed_clauses")} for pid, v in res.get("checks", {}).items()}
        json.dump(meta, open(os.path.join(dst, "meta.json"), "w"), indent=1, default=repr)


if __name__ == "__main__":
    main()
