"""C17 - Jinja engine: edits always show up; includes and python-module access confined.

Real engines from vinegar.template.jinja.get_instance in a temp directory: every history of
{edit / delete a template or an included / imported file, render} is replayed against one long-lived
engine with a forced mtime change per edit; the outputs are compared with the extracted Coq model
(Jinja/Engine.v) and judged by the extracted `holds` against the cache-free specification.
The _PythonHelper allow-list is driven directly and through templates.
"""
import atexit
import itertools
import os
import shutil
import tempfile

import common
from common import Check, sx
from vinegar.template import jinja as J

ROOT = "/r"                         # canonical name of the temp directory in the model
_T = None
_clock = [1_700_000_000]


def tmp():
    global _T
    if _T is None:
        _T = os.path.realpath(tempfile.mkdtemp(prefix="verif-c17-"))
        atexit.register(shutil.rmtree, _T, True)
    return _T


# ----------------------------------------------------------------------------- template contents
def src(content):
    """model content -> Jinja source"""
    items, export = content
    out = []
    for n, (kind, s) in enumerate(items):
        if kind == 0:
            out.append(s)
        elif kind == 1:
            out.append("{{ %s }}" % s)
        elif kind == 2:
            out.append("{%% include '%s' %%}" % s)
        else:
            out.append("{%% import '%s' as m%d %%}{{ m%d.v }}" % (s, n, n))
    out.append("{%% set v = '%s' %%}" % export)
    return "".join(out)


MAIN_INCLUDES = ["inc.txt", "../inc.txt", "sub/inc.txt", "./inc.txt", "../sub/./inc.txt", "nosuch.txt"]


def main_content(k):
    inc = MAIN_INCLUDES[k % len(MAIN_INCLUDES)]
    return ([(0, "M%d[" % k), (1, "a"), (0, "]"), (2, inc), (0, "|"), (3, "lib.txt"), (0, ".")], "XM%d" % k)


def inc_content(tag, k):
    its = [(0, "%s%d<" % (tag, k)), (1, "b"), (0, ">")]
    if k % 2:
        its.append((2, "leaf.txt"))
    return (its, "X%s%d" % (tag, k))


def lib_content(tag, k):
    return ([(0, "ignored")], "%s%d" % (tag, k))


def leaf_content(tag):
    return ([(0, "(%s)" % tag)], "")


SETUP = [("sub/main.txt", main_content(0)), ("inc.txt", inc_content("I", 0)), ("sub/inc.txt", inc_content("J", 0)),
         ("lib.txt", lib_content("L", 0)), ("sub/lib.txt", lib_content("K", 0)),
         ("leaf.txt", leaf_content("leaf")), ("sub/leaf.txt", leaf_content("subleaf")),
         ("main.txt", ([(0, "R["), (1, "a"), (1, "z"), (0, "]"), (2, "inc.txt"), (3, "sub/lib.txt")], ""))]

# history alphabet: (code, description)
ALPHA = ["Em", "Ei", "Ej", "El", "Ek", "Di", "Dj", "R", "Rr"]


def expand(history):
    """history over ALPHA -> list of concrete steps ('edit', relpath, content|None) / ('render', relname, ctx)"""
    steps = [("edit", p, c) for p, c in SETUP]
    ed = itertools.count(1)
    for h in history:
        k = next(ed)
        if h == "Em":
            steps.append(("edit", "sub/main.txt", main_content(k)))
        elif h == "Ei":
            steps.append(("edit", "inc.txt", inc_content("I", k)))
        elif h == "Ej":
            steps.append(("edit", "sub/inc.txt", inc_content("J", k)))
        elif h == "El":
            steps.append(("edit", "lib.txt", lib_content("L", k)))
        elif h == "Ek":
            steps.append(("edit", "sub/lib.txt", lib_content("K", k)))
        elif h == "Di":
            steps.append(("edit", "inc.txt", None))
        elif h == "Dj":
            steps.append(("edit", "sub/inc.txt", None))
        elif h == "R":
            steps.append(("render", "sub/main.txt", [("a", "ca%d" % k), ("b", "cb%d" % k)]))
        elif h == "Rr":
            steps.append(("render", "main.txt", [("b", "rb%d" % k), ("z", "cz")]))
    return steps


# ----------------------------------------------------------------------------- real engine
def write_file(path, text):
    os.makedirs(os.path.dirname(path), exist_ok=True)
    with open(path, "w") as f:
        f.write(text)
    _clock[0] += 3
    t = _clock[0] * 1_000_000_000 + 1234567
    os.utime(path, ns=(t, t))           # every edit changes mtime (and with it the stat version)


def run_engine(c):
    T = tmp()
    for name in os.listdir(T):
        shutil.rmtree(os.path.join(T, name), ignore_errors=True) if os.path.isdir(os.path.join(T, name)) \
            else os.unlink(os.path.join(T, name))
    cfg = {"cache_enabled": c["cache"], "relative_includes": c["rel"]}
    if c["root"]:
        cfg["root_dir"] = T
    if c["base"]:
        cfg["context"] = dict(c["base"])
    old = os.getcwd()
    os.chdir(T)
    try:
        eng = J.get_instance(cfg)
        out = []
        for st in expand(c["history"]):
            if st[0] == "edit":
                p = os.path.join(T, st[1])
                if st[2] is None:
                    if os.path.exists(p):
                        os.unlink(p)
                else:
                    write_file(p, src(st[2]))
            else:
                name = st[1] if (c["root"] or c["relname"]) else os.path.join(T, st[1])
                try:
                    out.append((0, eng.render(name, dict(st[2])).encode("utf-8")))
                except FileNotFoundError:
                    out.append((1,))
                except TypeError:
                    out.append((2,))
                except RecursionError:
                    out.append((3,))
                except Exception as ex:          # noqa
                    out.append((0, ("!exception:" + type(ex).__name__).encode()))
        return out
    finally:
        os.chdir(old)


def run_helper(c):
    allow = c["allow"]
    eng = J.get_instance({"provide_python_modules": allow[0] if c.get("as_str") else list(allow)})
    helper = eng._environment.globals["python"]
    res = []
    if c.get("via_template"):
        T = tmp()
        p = os.path.join(T, "py.txt")
        for m in c["queries"]:
            with open(p, "w") as f:
                f.write("{{ python['%s.__name__'] }}" % m)
            _clock[0] += 3
            os.utime(p, ns=(_clock[0] * 10**9, _clock[0] * 10**9))
            try:
                res.append(eng.render(p, {}) != "")
            except RuntimeError:
                res.append(False)
    else:
        for m in c["queries"]:
            try:
                helper._check_access(m)
                res.append(True)
            except RuntimeError:
                res.append(False)
    return (res, len(helper._cache))


ENTRIES = ["os", "osx", "os.path", "o", "os.", "os.*", "*", ".*", "o.*", "os.path.*", ""]
MODULES = ENTRIES + ["os.pathx", "os.path.sub", "x", "os..", "osx.y", "o.s", "os.*.x"]
REAL_MODULES = ["os", "os.path", "posixpath", "json", "json.decoder", "o" + "s"]


class C17(Check):
    ident = "C17"
    technique = ("Coq proof (cache invariant of jinja2's template cache under the loaders' up-to-date callbacks; "
                 "normpath/join model; allow-list characterisation and cache transparency) + differential "
                 "correspondence against real engines in a temp directory")
    rule = ("engine case = (root_dir or not, cache_enabled, relative_includes, base context or not, absolute or relative "
            "template name, history over {edit main / included / imported file in two directories, delete included "
            "file, render two templates} after a fixed setup); all histories ending in a render up to length 4 (quick) / "
            "5 (thorough, sampled) for all 8 configurations; allow case = (allow-list of 1-2 confusable entries, query "
            "sequence with repetitions); non-trivial = history with an edit before a render, or an allow-list query "
            "sequence; distinct by (configuration, history) resp. (allow-list)")
    assumptions = [
        "every edit changes the file's stat version and mtime (forced by the harness with os.utime)",
        "jinja2 3.1: templates are cached per name and revalidated through the loader's up-to-date callback, "
        "called without arguments; includes/imports are resolved through get_template at render time",
        "imported files contain no include/import of their own (jinja2 caches the module of an imported template)",
        "fewer than 400 distinct template names per engine (jinja2's LRU cache size)",
    ]
    trusted_extra = ["harness/c17.py: generation of Jinja source from model contents, exception -> result mapping"]

    def configs(self):
        for root in (False, True):
            for cache in (True, False):
                for rel in (True, False):
                    yield root, cache, rel

    def gen(self, tier, rng):
        maxlen = 4 if tier == "quick" else 5
        n = 0
        for root, cache, rel in self.configs():
            for L in range(1, maxlen + 1):
                hists = [h + (r,) for h in itertools.product(ALPHA, repeat=L - 1) for r in ("R", "Rr")]
                if L >= 4:
                    k = 260 if tier == "quick" else (1500 if L == 4 else 2500)
                    hists = rng.sample(hists, min(k, len(hists)))
                for h in hists:
                    n += 1
                    yield {"kind": 0, "root": root, "cache": cache, "rel": rel,
                           "base": [("a", "CFG"), ("z", "Z")] if n % 3 == 0 else [],
                           "relname": (n % 5 == 0), "history": list(h)}
        # allow-lists
        qs = MODULES + list(reversed(MODULES))
        for a in ENTRIES:
            yield {"kind": 1, "allow": [a], "queries": qs, "limit": 1024}
            if a:
                yield {"kind": 1, "allow": [a], "queries": qs, "limit": 1024, "as_str": True}
        for a in ENTRIES:
            for b in ENTRIES:
                if a != b:
                    yield {"kind": 1, "allow": [a, b], "queries": qs[::2] + qs[1::2], "limit": 1024}
        for allow in (["os"], ["os.*"], ["os.path"], ["*"], ["json.*", "posixpath"], ["o.*"], ["os.path.*"], ["js*"]):
            yield {"kind": 1, "allow": allow, "queries": REAL_MODULES + REAL_MODULES, "limit": 1024, "via_template": True}
        # the reset of the result cache at 1024 entries
        many = [("q.m%d" % i) if i % 2 == 0 else ("m%d" % i) for i in range(1030)]
        yield {"kind": 1, "allow": ["m7", "q.*"], "queries": many + ["m7", "q.m0", "m1029", "q.m1028", "m5"] + many[:40],
               "limit": 1024}
        yield {"kind": 1, "allow": ["m7", "q.*"], "queries": many[:1024] + many[:1024] + ["zz", "m7", "q.m0"], "limit": 1024}
        if tier != "quick":
            for _ in range(300):
                allow = [rng.choice(ENTRIES) for _ in range(rng.randrange(1, 4))]
                yield {"kind": 1, "allow": allow, "queries": [rng.choice(MODULES) for _ in range(40)], "limit": 1024}

    def impl(self, c):
        if c["kind"] == 0:
            return run_engine(c)
        return run_helper(c)

    def line(self, c, obs):
        if c["kind"] == 0:
            def P(rel):
                return (ROOT + "/" + rel).encode()
            steps = []
            for st in expand(c["history"]):
                if st[0] == "edit":
                    ct = [] if st[2] is None else [[[[k, s.encode()] for k, s in st[2][0]], st[2][1].encode()]]
                    steps.append([0, P(st[1]), ct])
                else:
                    name = st[1].encode() if (c["root"] or c["relname"]) else P(st[1])
                    steps.append([1, name, [[k.encode(), v.encode()] for k, v in st[2]]])
            cfg = [[ROOT.encode()] if c["root"] else [], bool(c["cache"]), bool(c["rel"]), ROOT.encode(), False,
                   [[k.encode(), v.encode()] for k, v in c["base"]]]
            return sx([0, cfg, steps, self.canon(obs)])
        return sx([1, 1, c["limit"], [a.encode() for a in c["allow"]], [q.encode() for q in c["queries"]],
                   self.canon(obs)])

    def canon(self, obs):
        if isinstance(obs, tuple):
            return [1, [int(b) for b in obs[0]], obs[1]]
        return [0, [list(r) for r in obs]]

    def nontrivial(self, c, obs):
        if c["kind"] == 0:
            h = c["history"]
            if any(x[0] in "ED" for x in h[:-1]):
                return (c["root"], c["cache"], c["rel"], bool(c["base"]), c["relname"], tuple(h))
            return None
        return ("allow", tuple(c["allow"]), c.get("as_str", False), c.get("via_template", False), len(c["queries"]))

    def show(self, c):
        if c["kind"] == 0:
            return {"root_dir": c["root"], "cache_enabled": c["cache"], "relative_includes": c["rel"],
                    "config_context": c["base"], "relative_template_name": c["relname"], "history": c["history"],
                    "legend": "setup writes 8 files; Em/Ei/Ej/El/Ek edit sub/main, inc, sub/inc, lib, sub/lib; Di/Dj delete "
                              "inc, sub/inc; R renders sub/main.txt, Rr renders main.txt",
                    "steps": [list(s[:2]) + ([src(s[2])] if s[0] == "edit" and s[2] else [s[2]]) for s in expand(c["history"])][8:]}
        return {"allow": c["allow"], "queries": c["queries"][:60], "n_queries": len(c["queries"]),
                "as_str": c.get("as_str", False), "via_template": c.get("via_template", False)}

    def shrink(self, c):
        if c["kind"] == 0:
            h = c["history"]
            for i in range(len(h) - 1):
                yield dict(c, history=h[:i] + h[i + 1:])
            if c["base"]:
                yield dict(c, base=[])
            if c["relname"]:
                yield dict(c, relname=False)
        else:
            q = c["queries"]
            if len(q) > 1:
                yield dict(c, queries=q[:len(q) // 2])
                yield dict(c, queries=q[len(q) // 2:])
                for i in range(min(len(q), 40)):
                    yield dict(c, queries=q[:i] + q[i + 1:])
            if len(c["allow"]) > 1:
                for i in range(len(c["allow"])):
                    yield dict(c, allow=c["allow"][:i] + c["allow"][i + 1:])


if __name__ == "__main__":
    raise SystemExit(C17().main())
