(* C09, request-port part: property theorems (to be re-exported from C09/Props.v).
   Only statements closed by lemmas of Tftp/RequestPortProofs.v. *)
From Coq Require Import String.
From Coq Require Import List NArith ZArith Bool.
From VF Require Import Base.Sx Tftp.Codec Tftp.NegSpec Tftp.CodecProofs Tftp.Transfer Tftp.RequestPort
  Tftp.RequestPortProofs C09.PortEntry.
Import ListNotations.
Open Scope N_scope.

(* [serve_one_v pcurrent f port0 sendable hs d] is one iteration of the serve loop of the code as it is now,
   for a datagram d from UDP source port 0 (port0 = true) or from another requester, to whom sendto()
   works (sendable = true) or fails with OSError for a reason outside the datagram (EPERM, ENETUNREACH),
   with the injected fault f (None = none).  For a requester other than port 0 it is
   [serve_one_f f sendable hs d], the function the theorems about codes and decoding speak about. *)
Theorem C09_current_ordinary : forall f sendable hs d,
  serve_one_v pcurrent f false sendable hs d = serve_one_f f sendable hs d.
Proof. exact serve_one_v_ordinary. Qed.
Print Assumptions C09_current_ordinary.

(* For EVERY datagram from EVERY source and every list of request handlers the modelled port code returns
   normally (no exception reaches the catch-all of TftpServer._run) and its reaction is: nothing, exactly
   one ERROR with code 1, 2 or 4, or exactly one transfer start whose (filename, mode, options) are the
   decoding of the datagram, with a mode other than mail, handled by the first accepting handler; a
   datagram from source port 0 gets no reaction at all, whatever its bytes. *)
Theorem C09_request_port_total : forall port0 hs d,
  exists acts, process_request_v pcurrent None port0 true hs d = Ok acts /\
               serve_one_v pcurrent None port0 true hs d = acts /\ reaction_ok hs d acts /\ (port0 = true -> acts = []).
Proof. exact request_port_total_v. Qed.
Print Assumptions C09_request_port_total.

Theorem C09_request_port_no_internal_error : forall port0 hs d, ~ In ALogExc (serve_one_v pcurrent None port0 true hs d).
Proof.
  intros port0 hs d. destruct (request_port_total_v port0 hs d) as [acts [_ [-> [H _]]]].
  inversion H; cbn; intuition discriminate.
Qed.
Print Assumptions C09_request_port_no_internal_error.

(* which reaction for which datagram: short -> nothing; unknown opcode -> nothing; WRQ -> ERROR 2;
   DATA/ACK/ERROR/OACK -> ERROR 4; undecodable RRQ or mode mail -> ERROR 4; no handler -> ERROR 1 *)
Theorem C09_request_port_codes : forall hs d,
  ((length d < 2)%nat -> serve_one true hs d = []) /\
  (forall hi lo r, d = hi :: lo :: r ->
     (u16 hi lo = 2 -> serve_one true hs d = [ASendError 2]) /\
     (3 <= u16 hi lo <= 6 -> serve_one true hs d = [ASendError 4]) /\
     (u16 hi lo = 0 \/ 7 <= u16 hi lo -> serve_one true hs d = []) /\
     (u16 hi lo = 1 -> decode_rrq d = None -> serve_one true hs d = [ASendError 4]) /\
     (u16 hi lo = 1 -> forall fn o, decode_rrq d = Some (fn, Mail, o) -> serve_one true hs d = [ASendError 4]) /\
     (u16 hi lo = 1 -> forall fn m o, decode_rrq d = Some (fn, m, o) -> m <> Mail ->
        first_accepting hs O fn = None -> serve_one true hs d = [ASendError 1])).
Proof. exact request_port_codes. Qed.
Print Assumptions C09_request_port_codes.

(* a well-formed RFC 1350/2347 read request (clean = NUL-free ASCII; mode in any letter case) starts a
   transfer with exactly the file name, mode and option dictionary the client meant *)
Theorem C09_request_decoding_is_rfc : forall sendable hs fn md m opts i,
  clean fn -> clean md -> mode_of_str md = Some m -> m <> Mail ->
  Forall (fun p => clean (fst p) /\ clean (snd p)) opts ->
  first_accepting hs O fn = Some i ->
  serve_one sendable hs (encode_rrq fn md opts) = [AStart fn m (dict_of opts) i].
Proof. exact request_decoding_is_rfc. Qed.
Print Assumptions C09_request_decoding_is_rfc.

(* ... and only datagrams of that shape start a transfer *)
Theorem C09_start_only_for_rfc_shape : forall sendable hs d f m o i,
  In (AStart f m o i) (serve_one sendable hs d) ->
  exists fn md opts,
    d = encode_rrq fn md opts /\ nul_free fn /\ nul_free md /\ pairs_nul_free opts /\
    f = ascii_ignore fn /\ mode_of_str (ascii_ignore md) = Some m /\ m <> Mail /\
    o = dict_of (map ascii_pair opts) /\ first_accepting hs O f = Some i.
Proof. exact start_only_for_rfc_shape. Qed.
Print Assumptions C09_start_only_for_rfc_shape.

(* the executable checker used on the implementation's reactions accepts the model of the current code for
   EVERY case: any source (port 0 included, without exemption), any injected fault.  This is also the tie
   between the theorems and the evaluated cases (the entry answers covered = 1 for every case). *)
Theorem C09_port_holds : forall f port0 sendable hs d,
  port_check f port0 sendable hs d (serve_one_v pcurrent f port0 sendable hs d) = [].
Proof. exact port_check_model. Qed.
Print Assumptions C09_port_holds.
Theorem C09_port_covered_cases : forall f port0 sendable hs d,
  port_check f port0 sendable hs d (serve_one_v pcurrent f port0 sendable hs d) = [].
Proof. exact port_check_model. Qed.
Print Assumptions C09_port_covered_cases.

(* source port 0: no reaction whatever the bytes, whatever the handlers, whether or not sendto would work;
   only an exception injected at the (debug) log statement is seen *)
Theorem C09_port0_no_reaction : forall f sendable hs d,
  serve_one_v pcurrent f true sendable hs d = match f with Some (SLog, _) => [ALogExc] | _ => [] end.
Proof. exact port0_no_reaction. Qed.
Print Assumptions C09_port0_no_reaction.

(* a reply that the environment does not let through (sendto raises OSError although the requester's port
   is not 0): the same reaction is attempted once, the OSError is logged by the catch-all exactly when a
   reply was due, nothing else changes - an environment fault like the injected ones *)
Theorem C09_request_port_unsendable : forall f port0 sendable hs d,
  serve_one_v pcurrent f port0 sendable hs d = expected_obs f port0 sendable hs d.
Proof. exact serve_one_v_spec. Qed.
Print Assumptions C09_request_port_unsendable.

(* D22 (repaired by 7078de3): before the repair a datagram from source port 0 got the normal reaction; the
   one reply was attempted, sendto failed with OSError and the catch-all logged it with a traceback.
   The general description of that behaviour ... *)
Theorem C09_D22_behaviour : forall f port0 sendable hs d,
  serve_one_v pv_D22 f port0 sendable hs d = serve_one_f f (sendable && negb port0) hs d /\
  serve_one false hs d = port_spec hs d ++ (if existsb is_send (port_spec hs d) then [ALogExc] else []).
Proof. intros. split; [apply serve_one_v_D22|apply request_port_unsendable]. Qed.
Print Assumptions C09_D22_behaviour.
(* ... and a witness that the checker rejects it: a write request from source port 0 *)
Theorem C09_refuted_D22_port0 :
  serve_one_v pv_D22 None true true [HConst true] [0; 2] = [ASendError 2; ALogExc] /\
  port_check None true true [HConst true] [0; 2] (serve_one_v pv_D22 None true true [HConst true] [0; 2]) <> [] /\
  serve_one_v pcurrent None true true [HConst true] [0; 2] = [].
Proof. exact port_check_refuted_D22. Qed.
Print Assumptions C09_refuted_D22_port0.

(* the constructor of _TftpReadRequest, which runs in the request-port thread, cannot raise on option
   values: int() is reached only for strings the FULL-match regular expression accepts, even with
   int() modelled as raising on everything that is not a plain digit string *)
Theorem C09_transfer_constructor_total : forall fn m o i, m <> Mail -> start_transfer fn m o i = Ok [AStart fn m o i].
Proof. exact start_transfer_ok. Qed.
Print Assumptions C09_transfer_constructor_total.

(* Fault dimension: a callee of the request-port thread raises ANY exception (RuntimeError of Thread.start,
   MemoryError, KeyError, a custom class, OSError, ...) at the log statement / socket_address_to_str, in
   prepare_context or can_handle of the i-th handler, at the handle lookup or at Thread.start.  If control
   reaches that station the catch-all logs the exception and nothing else happens for this datagram; if it
   does not, nothing changes.  For source port 0 only the log statement is reached. *)
Theorem C09_request_port_faulted : forall st e port0 sendable hs d,
  serve_one_v pcurrent (Some (st, e)) port0 sendable hs d =
  if reaches_v st port0 hs d then [ALogExc] else serve_one_v pcurrent None port0 sendable hs d.
Proof. exact request_port_faulted_v. Qed.
Print Assumptions C09_request_port_faulted.

(* the log statement is reached for every datagram; Thread.start and the handle lookup exactly when a
   transfer would be started *)
Theorem C09_fault_reach : forall hs d,
  reaches SLog hs d = true /\
  (forall st, st = SThreadStart \/ st = SHandleLookup ->
     reaches st hs d = existsb (fun a => match a with AStart _ _ _ _ => true | _ => false end) (port_spec hs d)).
Proof. intros hs d. split; [apply reaches_log|intros st H; apply reaches_start_iff; exact H]. Qed.
Print Assumptions C09_fault_reach.

(* the serve loop survives every Exception and keeps serving: each datagram that arrives (truncated to 512
   bytes by recvfrom) gets the reaction it would get alone, whichever faults were injected and whatever
   arrived before it *)
Theorem C09_serve_loop_survives : forall hs reqs,
  run_loop_v pcurrent catch_all hs reqs =
  map (fun r => serve_one_v pcurrent (fst (fst r)) (fst (snd (fst r))) (snd (snd (fst r))) hs
                            (firstn MAX_REQUEST_PACKET_SIZE (snd r))) reqs.
Proof. exact run_loop_v_total. Qed.
Print Assumptions C09_serve_loop_survives.

(* loops the code does not have: leaving on OSError (old model of a dead socket), catching only OSError and
   ValueError *)
Theorem C09_serve_loop_break_refuted :
  exists hs reqs,
    (length (run_loop_v pcurrent break_on_oserror_policy hs reqs) < length reqs)%nat /\
    length (run_loop_v pcurrent catch_all hs reqs) = length reqs.
Proof. exact run_loop_v_break_refuted. Qed.
Print Assumptions C09_serve_loop_break_refuted.
Theorem C09_serve_loop_narrow_catch_refuted :
  exists hs reqs,
    (length (run_loop_v pcurrent only_oserror_valueerror hs reqs) < length reqs)%nat /\
    length (run_loop_v pcurrent catch_all hs reqs) = length reqs.
Proof. exact run_loop_v_narrow_catch_refuted. Qed.
Print Assumptions C09_serve_loop_narrow_catch_refuted.

(* non-vacuity: a mixed-case request with a duplicated option name is decoded and handed to the
   second handler; a request without the final NUL is refused *)
Example C09_port_nonvacuous :
  serve_one true [HExact (lit "x"); HPrefix (lit "pxe")]
    (encode_rrq (lit "pxelinux.0") (lit "OcTeT") [(lit "blksize", lit "1428"); (lit "tsize", lit "0"); (lit "blksize", lit "9")])
  = [AStart (lit "pxelinux.0") Octet [(lit "blksize", lit "9"); (lit "tsize", lit "0")] 1] /\
  serve_one true [HConst true] (0 :: 1 :: lit "f" ++ 0 :: lit "octet") = [ASendError 4] /\
  serve_one true [HConst true] [0; 9; 1; 2] = [] /\ serve_one true [] [0] = [] /\
  (* near-numbers as option values do not disturb the port: the transfer starts, negotiation ignores them *)
  serve_one true [HConst true] (encode_rrq (lit "f") (lit "octet") [(lit "blksize", lit "1024x"); (lit "TIMEOUT", lit "5s")])
  = [AStart (lit "f") Octet [(lit "blksize", lit "1024x"); (lit "TIMEOUT", lit "5s")] 0] /\
  (* a write request and a well-formed read request from source port 0: no reaction at all *)
  serve_one_v pcurrent None true true [HConst true] [0; 2] = [] /\
  serve_one_v pcurrent None true false [HConst true] (encode_rrq (lit "f") (lit "octet") []) = [] /\
  (* a write request from a requester the environment does not let us answer: one attempt, logged *)
  serve_one_v pcurrent None false false [HConst true] [0; 2] = [ASendError 2; ALogExc].
Proof. vm_compute. repeat split; reflexivity. Qed.
