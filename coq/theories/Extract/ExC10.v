From Coq Require Import ExtrOcamlBasic.
From Coq Require Extraction.
From VF Require Import Base.Sx C10.Entry.
Definition main := wrap entry.
Extraction "../ocaml/gen/c10_model.ml" main.
