From VF Require Import C04.Entry.
Theorem C04_stub : True. Proof. exact I. Qed.
Print Assumptions C04_stub.
