(* Proofs about the SQLite store/source/handler model. *)
From Coq Require Import String.
From Coq Require Import List NArith ZArith Bool Arith Lia Sorted Permutation.
From VF Require Import Base.Sx Sqlite.Model.
Import ListNotations.
Open Scope N_scope.

(* ---------- keys ---------- *)
Lemma str_eqb_true a b : str_eqb a b = true -> a = b.
Proof. unfold str_eqb; destruct (list_eq_dec N.eq_dec a b); [auto|discriminate]. Qed.
Lemma str_eqb_refl a : str_eqb a a = true.
Proof. unfold str_eqb; destruct (list_eq_dec N.eq_dec a a); congruence. Qed.
Lemma str_eqb_false a b : str_eqb a b = false -> a <> b.
Proof. unfold str_eqb; destruct (list_eq_dec N.eq_dec a b); [discriminate|auto]. Qed.
Lemma tkey_eqb_true a b : tkey_eqb a b = true -> a = b.
Proof.
  destruct a, b. unfold tkey_eqb. cbn. intros H. apply andb_true_iff in H. destruct H as [H1 H2].
  apply str_eqb_true in H1, H2. congruence.
Qed.
Lemma tkey_eqb_refl a : tkey_eqb a a = true.
Proof. unfold tkey_eqb. now rewrite !str_eqb_refl. Qed.
Lemma tkey_eqb_sym a b : tkey_eqb a b = tkey_eqb b a.
Proof.
  destruct (tkey_eqb a b) eqn:E.
  - apply tkey_eqb_true in E. subst. now rewrite tkey_eqb_refl.
  - destruct (tkey_eqb b a) eqn:E'; [|reflexivity]. apply tkey_eqb_true in E'. subst. now rewrite tkey_eqb_refl in E.
Qed.

(* ---------- the table is a finite map ---------- *)
Lemma tlookup_tset_same k t m : tlookup k (tset k t m) = Some t.
Proof.
  induction m as [|[k' t'] m IH]; cbn [tset tlookup]; [now rewrite tkey_eqb_refl|].
  destruct (tkey_eqb k k') eqn:E; cbn [tlookup]; [now rewrite tkey_eqb_refl|]. now rewrite E.
Qed.
Lemma tlookup_tset_other k k' t m : tkey_eqb k' k = false -> tlookup k' (tset k t m) = tlookup k' m.
Proof.
  intros Hne. induction m as [|[k2 t2] m IH]; cbn [tset tlookup]; [now rewrite Hne|].
  destruct (tkey_eqb k k2) eqn:E; cbn [tlookup].
  - apply tkey_eqb_true in E. subst k2. now rewrite Hne.
  - now rewrite IH.
Qed.
Lemma tlookup_filter_drop (p : tkey -> bool) k m : p k = false ->
  tlookup k (filter (fun e => p (fst e)) m) = None.
Proof.
  intros Hp. induction m as [|[k' t'] m IH]; [reflexivity|]. cbn [filter fst].
  destruct (p k') eqn:E; [|exact IH]. cbn [tlookup].
  destruct (tkey_eqb k k') eqn:E'; [|exact IH]. apply tkey_eqb_true in E'. subst. congruence.
Qed.
Lemma tlookup_tdel_same k m : tlookup k (tdel k m) = None.
Proof. unfold tdel. apply (tlookup_filter_drop (fun x => negb (tkey_eqb k x))). now rewrite tkey_eqb_refl. Qed.
Lemma tlookup_tdel_other k k' m : tkey_eqb k' k = false -> tlookup k' (tdel k m) = tlookup k' m.
Proof.
  intros Hne. unfold tdel. induction m as [|[k2 t2] m IH]; [reflexivity|]. cbn [filter fst].
  destruct (tkey_eqb k k2) eqn:E; cbn [negb tlookup].
  - apply tkey_eqb_true in E. subst k2. now rewrite Hne.
  - now rewrite IH.
Qed.
Lemma tlookup_tdelall_same s k m : tlookup (s, k) (tdelall s m) = None.
Proof.
  unfold tdelall. apply (tlookup_filter_drop (fun x => negb (str_eqb s (fst x)))). cbn. now rewrite str_eqb_refl.
Qed.
Lemma tlookup_tdelall_other s s' k m : str_eqb s s' = false -> tlookup (s', k) (tdelall s m) = tlookup (s', k) m.
Proof.
  intros Hne. unfold tdelall. induction m as [|[[s2 k2] t2] m IH]; [reflexivity|]. cbn [filter fst].
  destruct (str_eqb s s2) eqn:E; cbn [negb tlookup].
  - apply str_eqb_true in E. subst s2. unfold tkey_eqb at 1. cbn [fst snd].
    destruct (str_eqb s' s) eqn:E2; [apply str_eqb_true in E2; subst; now rewrite str_eqb_refl in Hne|]. exact IH.
  - now rewrite IH.
Qed.

(* keys stay unique (PRIMARY KEY) *)
Definition wf (m : tbl) : Prop := NoDup (map fst m).
Lemma tset_keys k t m : In k (map fst m) -> map fst (tset k t m) = map fst m.
Proof.
  induction m as [|[k' t'] m IH]; [intros []|]. cbn [tset map fst].
  destruct (tkey_eqb k k') eqn:E; cbn [map fst].
  - apply tkey_eqb_true in E. now subst.
  - intros [H|H]; [subst; now rewrite tkey_eqb_refl in E|]. now rewrite IH.
Qed.
Lemma tset_keys_new k t m : ~ In k (map fst m) -> map fst (tset k t m) = map fst m ++ [k].
Proof.
  induction m as [|[k' t'] m IH]; [reflexivity|]. cbn [tset map fst]. intros Hn.
  destruct (tkey_eqb k k') eqn:E.
  - apply tkey_eqb_true in E. subst. exfalso. apply Hn. now left.
  - cbn [map fst app]. rewrite IH; [reflexivity|]. intros H. apply Hn. now right.
Qed.
Lemma NoDup_filter {A} (p : A -> bool) l : NoDup l -> NoDup (filter p l).
Proof.
  induction 1 as [|x l Hn Hd IH]; cbn [filter]; [constructor|].
  destruct (p x); [|exact IH]. constructor; [|exact IH]. intros H. apply filter_In in H. tauto.
Qed.
Lemma map_fst_filter (p : tkey -> bool) (m : tbl) :
  map fst (filter (fun e => p (fst e)) m) = filter p (map fst m).
Proof. induction m as [|[k t] m IH]; [reflexivity|]. cbn [filter map fst]. destruct (p k); cbn [map fst]; now rewrite IH. Qed.
Lemma NoDup_snoc {A} (l : list A) x : NoDup l -> ~ In x l -> NoDup (l ++ [x]).
Proof.
  induction 1 as [|y l Hn Hd IH]; intros Hx; cbn [app]; [constructor; [intros []|constructor]|].
  constructor.
  - intros H. apply in_app_or in H. destruct H as [H|[H|[]]]; [auto|]. subst. apply Hx. now left.
  - apply IH. intros H. apply Hx. now right.
Qed.
Definition tkey_eq_dec : forall a b : tkey, {a = b} + {a <> b}.
Proof. decide equality; apply (list_eq_dec N.eq_dec). Defined.
Lemma wf_apply m o : wf m -> wf (apply_mop m o).
Proof.
  unfold wf. intros H. destruct o as [s k t|s k|s]; cbn [apply_mop].
  - destruct (in_dec tkey_eq_dec (s, k) (map fst m)) as [Hi|Hn].
    + now rewrite tset_keys.
    + rewrite tset_keys_new by exact Hn. now apply NoDup_snoc.
  - unfold tdel. rewrite (map_fst_filter (fun x => negb (tkey_eqb (s, k) x))). now apply NoDup_filter.
  - unfold tdelall. rewrite (map_fst_filter (fun x => negb (str_eqb s (fst x)))). now apply NoDup_filter.
Qed.
Lemma wf_nil : wf [].
Proof. constructor. Qed.

(* under unique keys, membership is lookup *)
Lemma wf_in_lookup m k t : wf m -> (In (k, t) m <-> tlookup k m = Some t).
Proof.
  unfold wf. induction m as [|[k' t'] m IH]; intros Hw; [split; [intros []|discriminate]|].
  cbn [map fst] in Hw. inversion Hw as [|x l Hn Hd]; subst. cbn [tlookup In].
  destruct (tkey_eqb k k') eqn:E.
  - apply tkey_eqb_true in E. subst k'. split.
    + intros [H|H]; [congruence|]. exfalso. apply Hn. apply (in_map fst) in H. exact H.
    + intros H. left. congruence.
  - split.
    + intros [H|H]; [inversion H; subst; now rewrite tkey_eqb_refl in E|]. now apply IH.
    + intros H. right. now apply IH.
Qed.

(* ---------- ORDER BY ---------- *)
Section SortFacts.
  Variable A : Type.
  Variable leb : A -> A -> bool.
  Hypothesis leb_total : forall a b, leb a b = false -> leb b a = true.
  Let le a b := leb a b = true.

  Lemma ins_In x y l : In y (ins leb x l) <-> y = x \/ In y l.
  Proof.
    induction l as [|z l IH]; cbn [ins In]; [intuition|].
    destruct (leb x z); cbn [In]; [intuition|]. rewrite IH. intuition.
  Qed.
  Lemma isort_In y l : In y (isort leb l) <-> In y l.
  Proof. induction l as [|x l IH]; [reflexivity|]. cbn [isort In]. rewrite ins_In, IH. intuition. Qed.

  Lemma ins_sorted x l : Sorted le l -> Sorted le (ins leb x l).
  Proof.
    induction 1 as [|z l Hs IH Hh]; cbn [ins]; [repeat constructor|].
    destruct (leb x z) eqn:E.
    - constructor; [constructor; assumption|]. constructor. exact E.
    - constructor; [exact IH|]. apply leb_total in E.
      destruct l as [|w l]; cbn [ins]; [constructor; exact E|].
      destruct (leb x w); constructor; [exact E|]. inversion Hh; assumption.
  Qed.
  Lemma isort_sorted l : Sorted le (isort leb l).
  Proof. induction l as [|x l IH]; [constructor|]. cbn [isort]. now apply ins_sorted. Qed.
End SortFacts.

Lemma str_leb_total a : forall b, str_leb a b = false -> str_leb b a = true.
Proof.
  induction a as [|x a IH]; intros b; [discriminate|]. destruct b as [|y b]; [reflexivity|]. cbn [str_leb].
  destruct (x <? y) eqn:E1; [discriminate|]. destruct (y <? x) eqn:E2; [reflexivity|]. apply IH.
Qed.
Lemma tkey_leb_total a b : tkey_leb a b = false -> tkey_leb b a = true.
Proof.
  unfold tkey_leb. destruct (str_eqb (fst a) (fst b)) eqn:E.
  - apply str_eqb_true in E. rewrite E, str_eqb_refl. apply str_leb_total.
  - destruct (str_eqb (fst b) (fst a)) eqn:E'; [apply str_eqb_true in E'; rewrite E', str_eqb_refl in E; discriminate|].
    apply str_leb_total.
Qed.

(* what the reading statements return, in terms of the map *)
Theorem rows_spec s m k t : wf m -> (In (k, t) (rows s m) <-> tlookup (s, k) m = Some t).
Proof.
  intros Hw. unfold rows. rewrite isort_In, in_map_iff. rewrite <- wf_in_lookup by exact Hw. split.
  - intros ([[s' k'] t'] & Heq & Hin). apply filter_In in Hin. destruct Hin as [Hin Hs]. cbn in Heq, Hs.
    apply str_eqb_true in Hs. inversion Heq; subst. exact Hin.
  - intros Hin. exists ((s, k), t). split; [reflexivity|]. apply filter_In. split; [exact Hin|]. cbn. apply str_eqb_refl.
Qed.
Theorem rows_sorted s m : Sorted (fun a b => str_leb (fst a) (fst b) = true) (rows s m).
Proof. unfold rows. apply isort_sorted. intros a b. apply str_leb_total. Qed.

Theorem find_systems_spec k t m x : wf m -> (In x (find_systems k t m) <-> tlookup (x, k) m = Some t).
Proof.
  intros Hw. unfold find_systems. rewrite isort_In, in_map_iff. rewrite <- wf_in_lookup by exact Hw. split.
  - intros ([[s' k'] t'] & Heq & Hin). apply filter_In in Hin. destruct Hin as [Hin Hs]. cbn in Heq, Hs.
    apply andb_true_iff in Hs. destruct Hs as [H1 H2]. apply str_eqb_true in H1, H2. subst. exact Hin.
  - intros Hin. exists ((x, k), t). split; [reflexivity|]. apply filter_In. split; [exact Hin|]. cbn. now rewrite !str_eqb_refl.
Qed.
Theorem find_systems_sorted k t m : Sorted (fun a b => str_leb a b = true) (find_systems k t m).
Proof. unfold find_systems. apply isort_sorted. apply str_leb_total. Qed.

Lemma dedup_In x l : In x (dedup l) <-> In x l.
Proof.
  induction l as [|y l IH]; [reflexivity|]. cbn [dedup].
  destruct (existsb (str_eqb y) l) eqn:E; cbn [In]; rewrite IH; [|tauto].
  split; [auto|]. intros [H|H]; [|exact H]. subst. apply existsb_exists in E. destruct E as (z & Hz & Hq).
  apply str_eqb_true in Hq. now subst.
Qed.
Theorem list_systems_spec m x : In x (list_systems m) <-> exists k t, In ((x, k), t) m.
Proof.
  unfold list_systems. rewrite isort_In, dedup_In, in_map_iff. split.
  - intros ([[s k] t] & Heq & Hin). cbn in Heq. subst. eauto.
  - intros (k & t & Hin). exists ((x, k), t). auto.
Qed.
Theorem list_systems_sorted m : Sorted (fun a b => str_leb a b = true) (list_systems m).
Proof. unfold list_systems. apply isort_sorted. apply str_leb_total. Qed.
Theorem dump_spec m e : In e (dump m) <-> In e m.
Proof. unfold dump. apply isort_In. Qed.

(* ---------- any sequence through any handles = operations on the one map ---------- *)
Lemma do_step_mop_indep O H st m : fst (do_step O H st m) = fst (do_step O H st []).
Proof.
  destruct st as [i o|i q|i r|b|o]; cbn [do_step]; try reflexivity.
  - destruct (nth_error (stores H) i) as [strict|]; [|reflexivity].
    destruct o; cbn [store_step]; try reflexivity.
  - destruct (nth_error (sources H) i); reflexivity.
Qed.
Lemma do_step_l_indep O H st lk m :
  fst (fst (do_step_l O H st lk m)) = fst (fst (do_step_l O H st lk [])) /\
  snd (do_step_l O H st lk m) = snd (do_step_l O H st lk []) /\
  snd (do_step_l O H st lk m) = lock_after [st] lk.
Proof.
  pose proof (do_step_mop_indep O H st m) as Hi.
  destruct st as [i o|i q|i r|b|o]; cbn [do_step_l lock_after]; try (split; [reflexivity|split; reflexivity]);
    destruct (do_step O H _ m) as [[x|] res]; destruct (do_step O H _ []) as [[y|] res']; cbn [fst] in Hi;
    try discriminate; destruct lk; cbn [fst snd]; repeat split; congruence.
Qed.
(* the statements a step sequence stands for: they depend on the steps and on the lock, not on the table *)
Fixpoint effects (O : oracle) (H : handles) (steps : list step) (lk : bool) : list (option mop) :=
  match steps with
  | [] => []
  | st :: r => fst (fst (do_step_l O H st lk [])) :: effects O H r (snd (do_step_l O H st lk []))
  end.
Theorem final_is_fold O H : forall steps lk m, final O H steps lk m = fold_left apply_omop (effects O H steps lk) m.
Proof.
  induction steps as [|st r IH]; intros lk m; [reflexivity|].
  cbn [final effects fold_left]. destruct (do_step_l_indep O H st lk m) as (H1 & H2 & _).
  rewrite IH, H1, H2. reflexivity.
Qed.
Lemma wf_final O H : forall steps lk m, wf m -> wf (final O H steps lk m).
Proof.
  induction steps as [|st r IH]; intros lk m Hw; [exact Hw|]. cbn [final]. apply IH.
  destruct (fst (fst (do_step_l O H st lk m))); cbn [apply_omop]; [now apply wf_apply|exact Hw].
Qed.
Lemma lock_after_cons st r lk : lock_after (st :: r) lk = lock_after r (lock_after [st] lk).
Proof. destruct st; reflexivity. Qed.
(* the snapshots of [run] are the states of [final] on the prefixes *)
Theorem run_snapshots O H : forall steps lk m n res d,
  nth_error (run O H steps lk m) n = Some (res, d) ->
  d = dump (final O H (firstn (S n) steps) lk m) /\
  res = view (nth n steps (SStore 0 OList))
             (snd (fst (do_step_l O H (nth n steps (SStore 0 OList)) (lock_after (firstn n steps) lk)
                                  (final O H (firstn n steps) lk m)))).
Proof.
  induction steps as [|st r IH]; intros lk m n res d Hn; [destruct n; discriminate|].
  cbn [run] in Hn. destruct (do_step_l O H st lk m) as [[mo rs] lk'] eqn:Hd.
  destruct n as [|n].
  - cbn in Hn. inversion Hn; subst. cbn [firstn final nth lock_after]. rewrite Hd. cbn [fst snd]. split; reflexivity.
  - cbn [nth_error] in Hn. apply IH in Hn. cbn [firstn final nth]. rewrite Hd. cbn [fst snd].
    rewrite lock_after_cons. destruct (do_step_l_indep O H st lk m) as (_ & _ & H3). rewrite Hd in H3. cbn [snd] in H3.
    rewrite <- H3. exact Hn.
Qed.

(* database locked: a step that would write reports OperationalError and writes nothing; others unaffected *)
Theorem locked_step O H st m : (forall b, st <> SLock b) ->
  match do_step O H st m with
  | (Some _, _) => do_step_l O H st true m = (None, RRaise EOperational, true)
  | (None, res) => do_step_l O H st true m = (None, res, true)
  end.
Proof.
  intros Hn. destruct st as [i o|i q|i r|b|o]; try (exfalso; eapply Hn; reflexivity); cbn [do_step_l];
    destruct (do_step O H _ m) as [[x|] res]; reflexivity.
Qed.
Theorem unlocked_step O H st m : (forall b, st <> SLock b) ->
  do_step_l O H st false m = (fst (do_step O H st m), snd (do_step O H st m), false).
Proof.
  intros Hn. destruct st as [i o|i q|i r|b|o]; try (exfalso; eapply Hn; reflexivity); cbn [do_step_l];
    destruct (do_step O H _ m) as [[x|] res]; reflexivity.
Qed.

(* ---------- strict JSON values ---------- *)
Section PvInd.
  Variable P : pv -> Prop.
  Hypothesis HNone : P PNone.
  Hypothesis HBool : forall b, P (PBool b).
  Hypothesis HInt : forall z, P (PInt z).
  Hypothesis HFloat : forall r, P (PFloat r).
  Hypothesis HStr : forall s, P (PStr s).
  Hypothesis HList : forall l, Forall P l -> P (PList l).
  Hypothesis HTuple : forall l, Forall P l -> P (PTuple l).
  Hypothesis HDict : forall l, Forall (fun kv => P (snd kv)) l -> P (PDict l).
  Hypothesis HOther : forall e, P (POther e).
  Fixpoint pv_ind' (v : pv) : P v :=
    match v with
    | PNone => HNone | PBool b => HBool b | PInt z => HInt z | PFloat r => HFloat r | PStr s => HStr s
    | PList l => HList l ((fix go (l : list pv) : Forall P l :=
                             match l with [] => Forall_nil _ | x :: r => Forall_cons x (pv_ind' x) (go r) end) l)
    | PTuple l => HTuple l ((fix go (l : list pv) : Forall P l :=
                               match l with [] => Forall_nil _ | x :: r => Forall_cons x (pv_ind' x) (go r) end) l)
    | PDict l => HDict l ((fix go (l : list (pkey * pv)) : Forall (fun kv => P (snd kv)) l :=
                             match l with
                             | [] => Forall_nil _
                             | kv :: r => Forall_cons kv (pv_ind' (snd kv)) (go r)
                             end) l)
    | POther e => HOther e
    end.
End PvInd.

(* Python dicts have pairwise different keys *)
Fixpoint wf_pv (v : pv) : Prop :=
  match v with
  | PList l | PTuple l => (fix go (l : list pv) : Prop := match l with [] => True | x :: r => wf_pv x /\ go r end) l
  | PDict l => NoDup (map fst l) /\
               (fix go (l : list (pkey * pv)) : Prop := match l with [] => True | kv :: r => wf_pv (snd kv) /\ go r end) l
  | _ => True
  end.

Lemma pkey_eqb_true a b : pkey_eqb a b = true -> a = b.
Proof.
  destruct a, b; cbn; try discriminate; intros H; try reflexivity.
  - f_equal. now apply str_eqb_true.
  - f_equal. now apply Z.eqb_eq.
  - f_equal. now apply Bool.eqb_prop.
Qed.
Lemma dset_new k v l : ~ In k (map fst l) -> dset k v l = l ++ [(k, v)].
Proof.
  induction l as [|[k' v'] l IH]; [reflexivity|]. cbn [dset map fst]. intros Hn.
  destruct (pkey_eqb k k') eqn:E.
  - apply pkey_eqb_true in E. subst. exfalso. apply Hn. now left.
  - cbn [app]. rewrite IH; [reflexivity|]. intros H. apply Hn. now right.
Qed.
Lemma build_nodup : forall items acc, NoDup (map fst acc ++ map fst items) ->
  fold_left (fun a (kv : pkey * pv) => dset (fst kv) (snd kv) a) items acc = acc ++ items.
Proof.
  induction items as [|[k v] items IH]; intros acc Hn; cbn [fold_left]; [now rewrite app_nil_r|].
  cbn [map fst] in Hn. cbn [fst snd].
  rewrite dset_new.
  - rewrite IH; [now rewrite <- app_assoc|]. rewrite map_app. cbn [map fst]. now rewrite <- app_assoc.
  - apply NoDup_remove_2 in Hn. intros H. apply Hn. apply in_or_app. now left.
Qed.

Lemma omapl_id (l : list pv) : Forall (fun x => json_image x = Some x) l -> omapl json_image l = Some l.
Proof. induction 1 as [|x l Hx Hl IH]; [reflexivity|]. cbn [omapl]. now rewrite Hx, IH. Qed.

(* accepted values come back unchanged *)
Theorem strict_values_roundtrip : forall v, wf_pv v -> check_value v = true -> json_image v = Some v.
Proof.
  induction v as [| | | | |l IH|l IH|l IH|e] using pv_ind'; intros Hw Hc; try reflexivity; try discriminate.
  - cbn [json_image]. rewrite omapl_id; [reflexivity|].
    cbn [check_value] in Hc. cbn [wf_pv] in Hw.
    induction IH as [|x l Hx Hl IHl]; constructor.
    + apply Hx; [tauto|]. cbn [forallb] in Hc. apply andb_true_iff in Hc. tauto.
    + apply IHl; [tauto|]. cbn [forallb] in Hc. apply andb_true_iff in Hc. tauto.
  - cbn [wf_pv] in Hw. destruct Hw as [Hnd Hw]. cbn [check_value] in Hc. cbn [json_image].
    assert (Hgo : (fix go (l0 : list (pkey * pv)) : option (list (pkey * pv)) :=
                     match l0 with
                     | [] => Some []
                     | (k, x) :: r =>
                         match key_image k, json_image x, go r with
                         | Some k', Some x', Some r' => Some ((KStr k', x') :: r')
                         | _, _, _ => None
                         end
                     end) l = Some l).
    { clear Hnd. induction IH as [|[k x] l Hx Hl IHl]; [reflexivity|].
      apply andb_true_iff in Hc. destruct Hc as [Hc Hc2]. apply andb_true_iff in Hc. destruct Hc as [Hk Hcx].
      destruct Hw as [Hwx Hwl]. cbn [snd] in Hx, Hwx.
      destruct k; try discriminate. cbn [key_image]. rewrite (Hx Hwx Hcx), (IHl Hwl Hc2). reflexivity. }
    rewrite Hgo. cbn [option_map]. rewrite build_nodup; [reflexivity|]. exact Hnd.
Qed.

(* rejected values: the top-level shapes the check refuses are exactly those that do not survive *)
Theorem rejected_tuple l : check_value (PTuple l) = false /\ json_image (PTuple l) <> Some (PTuple l).
Proof. split; [reflexivity|]. cbn [json_image]. destruct (omapl json_image l); discriminate. Qed.
Theorem rejected_other e : check_value (POther e) = false /\ json_image (POther e) = None.
Proof. split; reflexivity. Qed.
Lemma image_keys_str : forall l l',
  (fix go (l0 : list (pkey * pv)) : option (list (pkey * pv)) :=
     match l0 with
     | [] => Some []
     | (k, x) :: r =>
         match key_image k, json_image x, go r with
         | Some k', Some x', Some r' => Some ((KStr k', x') :: r')
         | _, _, _ => None
         end
     end) l = Some l' -> Forall (fun kv => key_is_str (fst kv) = true) l'.
Proof.
  induction l as [|[k x] l IH]; intros l' H; [inversion H; constructor|].
  destruct (key_image k); [|discriminate]. destruct (json_image x); [|discriminate].
  match type of H with match ?g with _ => _ end = _ => destruct g as [r'|] eqn:Hg end; [|discriminate].
  inversion H; subst. constructor; [reflexivity|]. now apply IH.
Qed.
Lemma dset_keys_str k v l : key_is_str k = true -> Forall (fun kv : pkey * pv => key_is_str (fst kv) = true) l ->
  Forall (fun kv : pkey * pv => key_is_str (fst kv) = true) (dset k v l).
Proof.
  intros Hk. induction 1 as [|[k' v'] l Hx Hl IH]; cbn [dset]; [repeat constructor; exact Hk|].
  destruct (pkey_eqb k k'); constructor; auto.
Qed.
Theorem rejected_nonstr_key l k v : In (k, v) l -> key_is_str k = false ->
  json_image (PDict l) <> Some (PDict l).
Proof.
  intros Hin Hk H. cbn [json_image] in H.
  match type of H with option_map _ ?g = _ => destruct g as [items|] eqn:Hg end; [|discriminate].
  cbn [option_map] in H. inversion H as [H']. apply image_keys_str in Hg.
  assert (Hall : forall items acc, Forall (fun kv : pkey * pv => key_is_str (fst kv) = true) items ->
                 Forall (fun kv : pkey * pv => key_is_str (fst kv) = true) acc ->
                 Forall (fun kv : pkey * pv => key_is_str (fst kv) = true)
                        (fold_left (fun a (kv : pkey * pv) => dset (fst kv) (snd kv) a) items acc)).
  { induction items0 as [|[k0 v0] items0 IHi]; intros acc Hi Ha; [exact Ha|]. cbn [fold_left].
    inversion Hi; subst. apply IHi; [assumption|]. now apply dset_keys_str. }
  specialize (Hall items [] Hg (Forall_nil _)). rewrite H' in Hall.
  rewrite Forall_forall in Hall. specialize (Hall (k, v) Hin). cbn in Hall. congruence.
Qed.

(* ---------- the data source's key prefix ---------- *)
Fixpoint dfind (k : pkey) (l : list (pkey * pv)) : option pv :=
  match l with [] => None | (k', v) :: r => if pkey_eqb k k' then Some v else dfind k r end.
Fixpoint plookup (path : list str) (v : pv) : option pv :=
  match path with
  | [] => Some v
  | c :: r => match v with
              | PDict l => match dfind (KStr c) l with Some x => plookup r x | None => None end
              | _ => None
              end
  end.
Fixpoint rlookup (k : str) (l : list (str * str)) : option str :=
  match l with [] => None | (k', t) :: r => if str_eqb k k' then Some t else rlookup k r end.
Definition prefix_path (c : srccfg) : list str := if is_empty (prefix c) then [] else split_colon (prefix c) [].

Lemma plookup_wrap comps k d : plookup (comps ++ [k]) (wrap comps d) = plookup [k] d.
Proof.
  induction comps as [|c r IH]; [reflexivity|]. cbn [app wrap plookup dfind pkey_eqb].
  now rewrite str_eqb_refl.
Qed.
Lemma plookup_rows O k l :
  plookup [k] (PDict (map (fun kt : str * str => (KStr (fst kt), o_loads O (snd kt))) l))
  = option_map (o_loads O) (rlookup k l).
Proof.
  cbn [plookup]. induction l as [|[k' t] l IH]; [reflexivity|]. cbn [map fst snd dfind pkey_eqb rlookup].
  destruct (str_eqb k k'); [reflexivity|]. exact IH.
Qed.
Theorem prefix_get_consistent O c s m k :
  plookup (prefix_path c ++ [k]) (source_data O c s m) = option_map (o_loads O) (rlookup k (rows s m)).
Proof.
  unfold source_data, prefix_path. destruct (is_empty (prefix c)).
  - apply plookup_rows.
  - rewrite plookup_wrap. apply plookup_rows.
Qed.
Lemma strip_prefix_app p s : strip_prefix p (p ++ s) = Some s.
Proof. induction p as [|x p IH]; [reflexivity|]. cbn [app strip_prefix]. now rewrite N.eqb_refl. Qed.
Theorem prefix_find_consistent O c k v t m : find_enabled c = true ->
  source_step O c (QFind (if is_empty (prefix c) then k else prefix c ++ [58] ++ k) v (Some t)) m
  = ROpt (single (find_systems k t m)).
Proof.
  intros Hf. cbn [source_step]. unfold source_key. rewrite Hf. cbn [negb].
  destruct (is_empty (prefix c)); [reflexivity|].
  now rewrite app_assoc, strip_prefix_app.
Qed.
Theorem prefix_find_other O c key v txt m :
  is_empty (prefix c) = false -> strip_prefix (prefix c ++ [58]) key = None ->
  source_step O c (QFind key v txt) m = ROpt None.
Proof.
  intros He Hs. cbn [source_step]. unfold source_key. rewrite He, Hs. destruct (negb (find_enabled c)); reflexivity.
Qed.

(* ---------- the update handler ---------- *)
Theorem handler_not_post O c r : str_eqb (meth r) POST = false ->
  fst (handler_step O c r) = None.
Proof. intros H. unfold handler_step. destruct (context_system O c (uri r)); [|reflexivity]. now rewrite H. Qed.
Theorem handler_denied O c r : restricted c = true -> allowed r = false -> fst (handler_step O c r) = None.
Proof.
  intros H1 H2. unfold handler_step. destruct (context_system O c (uri r)); [|reflexivity].
  destruct (negb (str_eqb (meth r) POST)); [reflexivity|]. now rewrite H1, H2.
Qed.
Theorem handler_undecodable O c r k :
  (act c = ASetJson k /\ (body_bytes O r = None \/ exists raw, body_bytes O r = Some raw /\ o_jsonbody O raw = None)) \/
  (act c = ASetText k /\ (body_bytes O r = None \/ exists raw, body_bytes O r = Some raw /\ o_textbody O raw = None)) ->
  fst (handler_step O c r) = None.
Proof.
  intros H. unfold handler_step. destruct (context_system O c (uri r)); [|reflexivity].
  destruct (negb (str_eqb (meth r) POST)); [reflexivity|].
  destruct (restricted c && negb (allowed r)); [reflexivity|].
  destruct H as [[-> [Hb|(raw & Hb & Hj)]]|[-> [Hb|(raw & Hb & Hj)]]]; rewrite Hb; try reflexivity; now rewrite Hj.
Qed.
Definition configured_op (O : oracle) (c : hcfg) (r : request) (s : str) : option mop :=
  match act c with
  | ADeleteData => Some (MDelAll s)
  | ADeleteValue k => Some (MDel s k)
  | ASetValue k v txt => fst (set_checked s k v txt)
  | ASetJson k => match body_bytes O r with
                  | Some raw => match o_jsonbody O raw with Some (v, t) => fst (set_checked s k v (Some t)) | None => None end
                  | None => None end
  | ASetText k => match body_bytes O r with
                  | Some raw => match o_textbody O raw with Some (v, t) => fst (set_checked s k v (Some t)) | None => None end
                  | None => None end
  end.
Theorem handler_post_exact O c r s : context_system O c (uri r) = Some s -> str_eqb (meth r) POST = true ->
  (restricted c = false \/ allowed r = true) ->
  fst (handler_step O c r) = configured_op O c r s.
Proof.
  intros Hc Hm Ha. unfold handler_step, configured_op. rewrite Hc, Hm. cbn [negb].
  assert (Hr : restricted c && negb (allowed r) = false) by (destruct Ha as [->| ->]; [reflexivity|apply andb_false_r]).
  rewrite Hr. destruct (act c); try reflexivity.
  - destruct (body_bytes O r) as [raw|]; [|reflexivity]. destruct (o_jsonbody O raw) as [[v t]|]; reflexivity.
  - destruct (body_bytes O r) as [raw|]; [|reflexivity]. destruct (o_textbody O raw) as [[v t]|]; reflexivity.
Qed.
(* a request whose path does not address a system of this handler is not handled at all *)
Theorem handler_no_match O c r : context_system O c (uri r) = None -> handler_step O c r = (None, RNoMatch).
Proof. intros H. unfold handler_step. now rewrite H. Qed.

(* ---------- killed writer ---------- *)
Definition winit : wstate := {| w_tbl := []; w_done := 0; w_acked := 0 |}.
Definition winv (ops : list mop) (w : wstate) : Prop :=
  w_tbl w = fold_left apply_mop (firstn (w_done w) ops) [] /\
  (w_acked w <= w_done w <= S (w_acked w))%nat /\ (w_done w <= length ops)%nat.
Lemma firstn_snoc {A} (l : list A) n x : nth_error l n = Some x -> firstn (S n) l = firstn n l ++ [x].
Proof.
  revert n. induction l as [|y l IH]; intros [|n] H; try discriminate.
  - cbn in H. inversion H. reflexivity.
  - cbn [nth_error] in H. cbn [firstn app]. f_equal. now apply IH.
Qed.
Lemma wstep_inv ops w e w' : winv ops w -> wstep ops w e = Some w' -> winv ops w'.
Proof.
  intros (Ht & Ha & Hl) Hs. destruct e; cbn [wstep] in Hs.
  - destruct (Nat.eqb_spec (w_done w) (w_acked w)) as [He|]; [|discriminate].
    destruct (nth_error ops (w_done w)) as [o|] eqn:Hn; [|discriminate]. inversion Hs; subst w'. clear Hs.
    unfold winv. cbn [w_tbl w_done w_acked]. split; [|split].
    + rewrite (firstn_snoc _ _ _ Hn), fold_left_app, <- Ht. reflexivity.
    + lia.
    + apply nth_error_Some. congruence.
  - destruct (Nat.ltb_spec (w_acked w) (w_done w)); [|discriminate]. inversion Hs; subst w'.
    unfold winv. cbn [w_tbl w_done w_acked]. split; [exact Ht|split; [lia|exact Hl]].
Qed.
Theorem crash_prefix ops : forall tr w w', winv ops w -> wrun ops w tr = Some w' -> winv ops w'.
Proof.
  induction tr as [|e tr IH]; intros w w' Hi Hr; cbn [wrun] in Hr; [inversion Hr; now subst|].
  destruct (wstep ops w e) as [w1|] eqn:Hs; [|discriminate]. eapply IH; [|exact Hr]. eapply wstep_inv; eauto.
Qed.
Lemma winv_init ops : winv ops winit.
Proof. unfold winv, winit. cbn. repeat split; lia. Qed.
