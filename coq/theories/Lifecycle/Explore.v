(* Exhaustive exploration of all interleavings of a (small) pool: used by the correspondence to
   compute every final state the model can reach for a given set of caller threads, and to look for
   stuck states.  Worklist search with a visited list; [fuel] bounds the number of expansions. *)
From Coq Require Import List Arith Bool.
From VF Require Import Lifecycle.Pool.
Import ListNotations.

Fixpoint list_nat_eqb (a b : list nat) : bool :=
  match a, b with
  | [], [] => true
  | x :: a', y :: b' => Nat.eqb x y && list_nat_eqb a' b'
  | _, _ => false
  end.

Section Explore.
  Variables (G PC OP : Type).
  Variable lkof : G -> lk.
  Variable cstep : G -> bool -> PC -> option OP -> option (G * PC * bool).
  Variable mstep : G -> option G.
  Variable is_idle : PC -> bool.
  Variables (gcode : G -> nat) (pccode : PC -> nat) (opcode : OP -> nat).
  Notation st := (st G PC OP).

  Definition code (s : st) : list nat :=
    gcode (g s) :: (match lkof (g s) with LCaller => S (owner s) | _ => 0 end)
    :: flat_map (fun c => pccode (pc c) :: length (todo c) :: map opcode (todo c)) (callers s).

  Definition succs (s : st) : list st :=
    flat_map (fun ch => match step G PC OP lkof cstep mstep s ch with Some s' => [s'] | None => [] end)
             (choices G PC OP s).

  Fixpoint explore (fuel : nat) (work visited : list st) : list st * bool :=
    match fuel with
    | O => (visited, match work with [] => true | _ => false end)
    | S f =>
        match work with
        | [] => (visited, true)
        | s :: r =>
            if existsb (fun v => list_nat_eqb (code v) (code s)) visited then explore f r visited
            else explore f (succs s ++ r) (s :: visited)
        end
    end.
End Explore.
