(* C01 / C02 - end-to-end delivery theorems for the TFTP transfer model (declarative readings of
   what the monitor enforces).  Property theorems only; each is closed by a lemma from
   Tftp/DeliveryProofs.v or Tftp/Numbering.v.

   Vocabulary (Tftp/Delivery.v): [new_sends l] = the client-directed DATA/OACK packets of a trace
   whose send is not directly preceded by a time-out entry (first sends); [delivered l] = the
   concatenated payloads of the first DATA sends; [retransmissions_identical l] = every send
   directly after a time-out goes to the client and repeats the previous client packet;
   [lockstep l] = every first send but the very first is directly preceded by the receipt, from
   the client, of a datagram that classifies as the ACK of the previous packet's number;
   [ending_of c] = how the transfer ended; [coop_script c plans] = the time-stamped script of a
   client that acknowledges every packet, under one fault plan per packet (lost rounds, noise,
   ACK delay). *)
From Coq Require Import String.
From Coq Require Import List NArith ZArith Bool Arith Lia.
From VF Require Import Tftp.Readers Tftp.Codec Tftp.Transfer Tftp.Run Tftp.Monitor Tftp.MonitorProofs
  Tftp.Numbering Tftp.Delivery Tftp.DeliveryProofs.
Import ListNotations.
Open Scope Z_scope.

(* (1) safety, for EVERY script of incoming datagrams: the first sends are a prefix of the expected
   packet list (OACK, then DATA numbered by the wrap rule over split_blocks of the content), and
   every retransmission is identical to the packet it repeats *)
Theorem C01_new_sends_prefix : forall c, valid c ->
  prefix (new_sends (run_transfer_case c)) (fst (expected c)) /\
  retransmissions_identical (run_transfer_case c) /\
  lockstep (run_transfer_case c).
Proof. exact case_safety. Qed.
Print Assumptions C01_new_sends_prefix.

(* a transfer that ended normally has sent every expected packet once, in order, and the payloads
   of its DATA packets concatenate to the content (netascii: to the converted content) *)
Theorem C01_complete_transfer_delivers : forall c, valid c -> ending_of c = inr EDone ->
  new_sends (run_transfer_case c) = fst (expected c) /\ snd (expected c) = false /\
  delivered (run_transfer_case c) = wire_content c.
Proof. exact case_complete. Qed.
Print Assumptions C01_complete_transfer_delivers.

Theorem C01_complete_octet_transfer_delivers : forall c, valid c -> t_netascii c = false ->
  ending_of c = inr EDone -> delivered (run_transfer_case c) = t_content c.
Proof.
  intros c Hv Hn He. destruct (case_complete c Hv He) as (_ & _ & D). rewrite D. unfold wire_content. now rewrite Hn.
Qed.
Print Assumptions C01_complete_octet_transfer_delivers.

(* (2) liveness under bounded faults: a client that acknowledges every packet, where each packet
   (or its ACK) is lost in at most max_retries rounds, the good ACK arrives delta < timeout into
   the successful round, and any noise (ACKs of other numbers - stale, duplicate, future -,
   datagrams from foreign addresses; offsets within [0, delta], in any order) arrives before it:
   the transfer runs to its end, every expected packet is first-sent exactly once in order, and
   the client has been sent the content.  The ending is the overflow error exactly when ... see
   C01_overflow_iff. *)
Theorem C01_transfer_delivers : forall c plans, valid c -> t_proc c = 0 ->
  length plans = length (fst (expected c)) ->
  Forall (plan_ok (tmo (t_cfg c)) (t_retries c)) (combine (fst (expected c)) plans) ->
  t_events c = coop_script c plans ->
  ending_of c = inr (if snd (expected c) then EOverflow else EDone) /\
  new_sends (run_transfer_case c) = fst (expected c) /\
  (snd (expected c) = false -> delivered (run_transfer_case c) = wire_content c).
Proof. exact case_delivers. Qed.
Print Assumptions C01_transfer_delivers.

(* the same with noise ALSO inside the lost rounds (duplicate / stale / future ACKs and foreign
   datagrams arriving while the packet or its ACK is lost, at any offsets within the round): they
   are consumed without moving the deadline, the round still times out, the packet is resent, and
   the transfer completes as above.  [gcoop_script], [gplan_ok]: Tftp/Delivery.v *)
Theorem C01_transfer_delivers_noisy_rounds : forall c plans, valid c -> t_proc c = 0 ->
  length plans = length (fst (expected c)) ->
  Forall (gplan_ok (tmo (t_cfg c)) (t_retries c)) (combine (fst (expected c)) plans) ->
  t_events c = gcoop_script c plans ->
  ending_of c = inr (if snd (expected c) then EOverflow else EDone) /\
  new_sends (run_transfer_case c) = fst (expected c) /\
  (snd (expected c) = false -> delivered (run_transfer_case c) = wire_content c).
Proof. exact case_delivers_g. Qed.
Print Assumptions C01_transfer_delivers_noisy_rounds.

(* the overflow ending: exactly when wrapping is disabled and there are more than 65535 blocks *)
Theorem C01_overflow_iff : forall c, wrap_ok c ->
  snd (expected c) = match t_wrap c with
                     | Some _ => false
                     | None => (65535 <? N.of_nat (length (spec_blocks c)))%N
                     end.
Proof. exact case_overflow_iff. Qed.
Print Assumptions C01_overflow_iff.

(* (3) numbering in closed form *)
Theorem C01_blocknum_closed_form : forall w blocks, (w <= 65535)%N ->
  number_blocks (Some w) 0%N blocks = (numbered_by (num w) 0%N blocks, false) /\
  (forall i, nth_error (fst (number_blocks (Some w) 0%N blocks)) i =
             option_map (PData (num w (N.of_nat i + 1))) (nth_error blocks i)) /\
  (forall i, (1 <= i <= 65535)%N -> num w i = i) /\
  (forall i, (65536 <= i)%N -> num w i = (w + (i - 65536) mod (65536 - w))%N).
Proof. exact blocknum_closed_form. Qed.
Print Assumptions C01_blocknum_closed_form.

Theorem C01_nowrap_overflow : forall blocks, (65535 < N.of_nat (length blocks))%N ->
  number_blocks None 0%N blocks = (numbered_by (fun i => i) 0%N (firstn (N.to_nat 65535) blocks), true) /\
  N.of_nat (length (fst (number_blocks None 0%N blocks))) = 65535%N /\
  (forall i, nth_error (fst (number_blocks None 0%N blocks)) i =
             if (i <? N.to_nat 65535)%nat then option_map (PData (N.of_nat i + 1)) (nth_error blocks i) else None) /\
  NoDup (map pkt_num (fst (number_blocks None 0%N blocks))).
Proof. exact nowrap_overflow. Qed.
Print Assumptions C01_nowrap_overflow.

(* (4) C02: no datagram from the client before (max_retries + 1) x timeout (silence, or only
   foreign senders): exactly max_retries + 1 sends of the first packet, at k x timeout, no other
   packet to the client, and the transfer ends by releasing file and socket *)
Theorem C02_gives_up : forall c p0 rest, valid c -> t_proc c = 0 -> fst (expected c) = p0 :: rest ->
  quiet_before (Z.of_nat (S (t_retries c)) * tmo (t_cfg c)) (t_events c) ->
  ending_of c = inl OTimeout /\
  client_sends (run_transfer_case c) =
    map (fun j => (Z.of_nat j * tmo (t_cfg c), p0)) (seq 0 (S (t_retries c))) /\
  exists l0, run_transfer_case c = l0 ++ [TCloseFile; TCloseSock].
Proof. exact case_gives_up. Qed.
Print Assumptions C02_gives_up.

(* lock step, read at a position of the trace: a first send (not directly after a time-out) that
   is not the very first client packet comes directly after the receipt of the ACK of the
   previous client packet q *)
Theorem C02_lockstep_decl : forall c, valid c ->
  forall l1 e l2 p q, run_transfer_case c = l1 ++ e :: l2 ->
  client_pkt e = Some p -> is_timeout (last_ev None l1) = false -> last_pkt None l1 = Some q ->
  exists t d, last_ev None l1 = Some (TRecv t client d) /\ classify current d = CAck (want q).
Proof.
  intros c Hv l1 e l2 p q El Hp Ht Hq. destruct (case_safety c Hv) as (_ & _ & L).
  exact (lockstep_at _ l1 e l2 L El p q Hp Ht Hq).
Qed.
Print Assumptions C02_lockstep_decl.

(* ... and a send directly after a time-out entry repeats the previous client packet *)
Theorem C02_retransmission_decl : forall c, valid c ->
  forall l1 t a p l2, run_transfer_case c = l1 ++ TSend t a p :: l2 ->
  is_timeout (last_ev None l1) = true -> a = client /\ last_pkt None l1 = Some p.
Proof.
  intros c Hv l1 t a p l2 El Ht. destruct (case_safety c Hv) as (_ & R & _).
  exact (retrans_at _ l1 t a p l2 R El Ht).
Qed.
Print Assumptions C02_retransmission_decl.

(* ---------- non-vacuity ---------- *)
(* 17 bytes at blksize 8 (OACK + 3 DATA), max_retries 1, timeout 2 s = 2048 ticks.
   OACK: one lost round, then a foreign datagram and the ACK 5 ticks into the round;
   DATA 1: a duplicate ACK 0 and a future ACK 5 before the good ACK; DATA 2: lost once, late ACK;
   DATA 3: immediately. *)
Definition ex_plans : list plan :=
  [ {| lost := 1; noises := [(NForeign 7%N [1; 2; 3]%N, 3)]; delta := 5 |};
    {| lost := 0; noises := [(NAck 0%N, 1); (NAck 5%N, 2); (NForeign 9%N [0; 4; 0; 1]%N, 2)]; delta := 10 |};
    {| lost := 1; noises := [(NAck 1%N, 0)]; delta := 2047 |};
    {| lost := 0; noises := []; delta := 0 |} ].
Definition ex_base : tcase :=
  {| t_content := [1; 2; 3; 4; 5; 6; 7; 8; 9; 10; 11; 12; 13; 14; 15; 16; 17]%N; t_chunks := [3; 1; 5]%nat;
     t_netascii := false; t_options := [(lit "blksize", lit "8")];
     t_limits := {| max_bs := 65464; max_tmo := 30720; default_tmo := 2048 |}; t_retries := 1; t_wrap := Some 0%N;
     t_kind := KNoFileno; t_events := [];
     t_proc := 0; t_v := current; t_nv := ncurrent; t_na_always_skip := false |}.
Definition ex_coop : tcase :=
  {| t_content := t_content ex_base; t_chunks := t_chunks ex_base; t_netascii := false;
     t_options := t_options ex_base; t_limits := t_limits ex_base; t_retries := 1; t_wrap := Some 0%N;
     t_kind := KNoFileno; t_events := coop_script ex_base ex_plans;
     t_proc := 0; t_v := current; t_nv := ncurrent; t_na_always_skip := false |}.

Example C01_delivery_nonvacuous :
  valid ex_coop /\ length ex_plans = length (fst (expected ex_coop)) /\
  Forall (plan_ok (tmo (t_cfg ex_coop)) (t_retries ex_coop)) (combine (fst (expected ex_coop)) ex_plans) /\
  t_events ex_coop = coop_script ex_coop ex_plans /\
  ending_of ex_coop = inr EDone /\
  delivered (run_transfer_case ex_coop) = t_content ex_coop /\
  List.length (client_sends (run_transfer_case ex_coop)) = 6%nat /\
  List.length (new_sends (run_transfer_case ex_coop)) = 4%nat /\
  List.length (run_transfer_case ex_coop) = 21%nat.
Proof.
  split; [repeat split; cbn; lia|]. split; [vm_compute; reflexivity|]. split.
  - vm_compute combine. repeat constructor; cbn; try lia; try discriminate.
  - repeat split; vm_compute; reflexivity.
Qed.

(* noise inside lost rounds: the OACK is lost once while a foreign datagram and a stray ACK 7
   arrive; DATA 2 is lost once while a duplicate ACK 1 arrives late in the round *)
Definition ex_gplans : list gplan :=
  [ {| g_rounds := [[(NForeign 7%N [1]%N, 10); (NAck 7%N, 2047)]]; g_noises := []; g_delta := 1 |};
    {| g_rounds := []; g_noises := [(NAck 0%N, 0)]; g_delta := 3 |};
    {| g_rounds := [[(NAck 1%N, 2000)]]; g_noises := [(NAck 1%N, 0)]; g_delta := 100 |};
    {| g_rounds := []; g_noises := []; g_delta := 0 |} ].
Definition ex_gcoop : tcase :=
  {| t_content := t_content ex_base; t_chunks := t_chunks ex_base; t_netascii := false;
     t_options := t_options ex_base; t_limits := t_limits ex_base; t_retries := 1; t_wrap := Some 0%N;
     t_kind := KNoFileno; t_events := gcoop_script ex_base ex_gplans;
     t_proc := 0; t_v := current; t_nv := ncurrent; t_na_always_skip := false |}.
Example C01_delivery_noisy_rounds_nonvacuous :
  valid ex_gcoop /\ length ex_gplans = length (fst (expected ex_gcoop)) /\
  Forall (gplan_ok (tmo (t_cfg ex_gcoop)) (t_retries ex_gcoop)) (combine (fst (expected ex_gcoop)) ex_gplans) /\
  t_events ex_gcoop = gcoop_script ex_gcoop ex_gplans /\
  ending_of ex_gcoop = inr EDone /\
  delivered (run_transfer_case ex_gcoop) = t_content ex_gcoop /\
  List.length (client_sends (run_transfer_case ex_gcoop)) = 6%nat.
Proof.
  split; [repeat split; cbn; lia|]. split; [vm_compute; reflexivity|]. split.
  - vm_compute combine. repeat constructor; cbn; try lia; try discriminate.
  - repeat split; vm_compute; reflexivity.
Qed.

(* only foreign senders talk before (1 + 1) x 2048: two sends of the OACK, at 0 and 2048 *)
Definition ex_silent (evs : list event) : tcase :=
  {| t_content := t_content ex_base; t_chunks := []; t_netascii := false;
     t_options := t_options ex_base; t_limits := t_limits ex_base; t_retries := 1; t_wrap := Some 0%N;
     t_kind := KNoFileno; t_events := evs; t_proc := 0; t_v := current; t_nv := ncurrent; t_na_always_skip := false |}.
Example C02_gives_up_nonvacuous :
  let evs := [Recv 100 7%N [0; 4; 0; 0]%N; Recv 3000 9%N [1]%N; Recv 4096 client [0; 4; 0; 0]%N] in
  valid (ex_silent evs) /\
  quiet_before (Z.of_nat (S (t_retries (ex_silent evs))) * tmo (t_cfg (ex_silent evs))) evs /\
  ending_of (ex_silent evs) = inl OTimeout /\
  map fst (client_sends (run_transfer_case (ex_silent evs))) = [0; 2048].
Proof.
  cbv zeta. split; [repeat split; cbn; lia|]. split.
  - repeat constructor; cbn; intros; try discriminate; lia.
  - split; vm_compute; reflexivity.
Qed.

(* the behaviour before the repair of D1 (retry exhaustion fell through) violates these readings:
   after the last time-out of the OACK a DIFFERENT packet (DATA 1) is sent although nothing was
   acknowledged, and the transfer does not end after max_retries + 1 sends *)
Definition d1_silent : tcase :=
  {| t_content := [1; 2; 3]%N; t_chunks := []; t_netascii := false; t_options := [(lit "blksize", lit "8")];
     t_limits := {| max_bs := 65464; max_tmo := 30720; default_tmo := 2048 |}; t_retries := 1; t_wrap := Some 0%N;
     t_kind := KNoFileno; t_events := [];
     t_proc := 0; t_v := {| retry_fallthrough := true; errcode_raises := false; late_recv := false |}; t_nv := ncurrent; t_na_always_skip := false |}.
Theorem C02_refuted_D1_declarative :
  ~ retransmissions_identical (run_transfer_case d1_silent) /\
  List.length (client_sends (run_transfer_case d1_silent)) = 4%nat /\
  quiet_before (Z.of_nat (S (t_retries d1_silent)) * tmo (t_cfg d1_silent)) (t_events d1_silent).
Proof.
  split; [|split; [vm_compute; reflexivity|constructor]].
  intros H. vm_compute in H. decompose [and] H. discriminate.
Qed.
