"""C15 - SQLite state is one map; writes visible everywhere at once and survive a kill.

Operation sequences are issued through several real DataStore / SQLiteSource /
HttpSQLiteUpdateRequestHandler objects that share one temporary database file; after every step the
whole table is read by a second PROCESS (harness/c15_reader.py, raw sqlite3, long-lived connection).
Results and table snapshots are compared with the extracted model and judged by the extracted
checker.  extra_checks() runs a writer PROCESS (harness/c15_writer.py, real DataStore) that is
SIGKILLed after its n-th acknowledged operation; the table found afterwards must be the fold of a
prefix of the issued operations containing every acknowledged one.

Oracle tables (json.dumps / json.loads / int() / bytes.decode / urllib unquote / contains_ip_address)
are filled here by calling the libraries directly."""
import hashlib
import http.client
import io
import json
import os
import shutil
import signal
import socket
import sqlite3
import subprocess
import sys
import tempfile
import time
import urllib.parse

import common
from common import Check, sx

from vinegar.utils import sqlite_store
from vinegar.data_source import sqlite as sqlite_source
from vinegar.request_handler import sqlite_update
from vinegar.http.server import HttpRequestInfo
from vinegar.utils.socket import contains_ip_address

import logging
logging.getLogger("vinegar").setLevel(logging.CRITICAL + 1)     # handler exceptions are observed as status 500, not read from the log
HERE = os.path.dirname(os.path.abspath(__file__))
ERR = {"ValueError": 1, "TypeError": 2, "KeyError": 7, "OperationalError": 20, "IntegrityError": 21,
       "JSONDecodeError": 1, "UnicodeDecodeError": 1}


def errcode(e):
    return ERR.get(type(e).__name__, 97)


def u8(s):
    return s.encode("utf-8", "surrogatepass")


# ----------------------------------------------------------------------------- value encodings (mirror of Entry.v)
def enc_key(k):
    if isinstance(k, str):
        return [0, u8(k)]
    if isinstance(k, bool):
        return [2, k]
    if isinstance(k, int):
        return [1, k]
    if k is None:
        return [3]
    return [4]


def enc_pv(v, parents=()):
    if v is None:
        return [0]
    if isinstance(v, bool):
        return [1, v]
    if isinstance(v, int):
        return [2, v]
    if isinstance(v, float):
        return [3, u8(v.hex())]
    if isinstance(v, str):
        return [4, u8(v)]
    if isinstance(v, (list, tuple, dict)):
        if any(v is p for p in parents):
            return [8, 1]                 # a container that contains itself: ValueError (circular reference)
        ps = parents + (v,)
        if isinstance(v, list):
            return [5, [enc_pv(x, ps) for x in v]]
        if isinstance(v, tuple):
            return [6, [enc_pv(x, ps) for x in v]]
        return [7, [[enc_key(k), enc_pv(x, ps)] for k, x in v.items()]]
    return [8, 2]                         # set, bytes, ...: TypeError


def _shared_values():
    """JSON-safe values whose object graph is a DAG: the same list/dict OBJECT at two positions (YAML anchor/alias)"""
    disks = [1, 2]
    nic = {"mac": "02:00", "up": True}
    deep = {"x": [nic]}
    return [{"boot": disks, "data": disks}, [nic, nic], [disks, [disks], {"d": disks}], {"a": deep, "b": deep, "c": [deep, nic]},
            [[], []][:1] * 2]


def _other_containers():
    import collections
    import types
    return [collections.OrderedDict([("b", 1), ("a", 2)]), collections.defaultdict(list, {"k": [1]}),
            types.MappingProxyType({"a": 1}), collections.UserDict({"a": 1}), collections.UserList([1]),
            frozenset([1]), collections.deque([1]), range(3), collections.namedtuple("P", "x y")(1, 2), bytearray(b"x")]


def _cyclic_values():
    a = [1]
    a.append(a)
    b = {"k": 0}
    b["self"] = b
    c = [[], {"x": None}]
    c[1]["up"] = c
    d = [(1, 2)]
    d.append(d)                           # the tuple is met first: TypeError from the strict check
    e = [{1, 2}]
    e.insert(0, e)                        # the cycle is met first
    return [a, b, c, d, e]


def dumps_or_none(v):
    try:
        return json.dumps(v)
    except (TypeError, ValueError):
        return None


def enc_otxt(t):
    return [] if t is None else [u8(t)]


def short(b):
    """texts are opaque to the model: long ones are replaced by their digest (in operations and in snapshots alike)"""
    return b if len(b) <= 100000 else b"<long:" + hashlib.sha1(b).hexdigest().encode() + b":" + str(len(b)).encode() + b">"


def tobytes(o):
    if isinstance(o, bool):
        return int(o)
    if isinstance(o, (int, bytes)):
        return o
    if isinstance(o, bytearray):
        return bytes(o)
    if isinstance(o, str):
        return u8(o)
    return [tobytes(x) for x in o]


# ----------------------------------------------------------------------------- second process
class Reader:
    def __init__(self):
        self.p = None

    def start(self):
        if self.p is None or self.p.poll() is not None:
            self.p = subprocess.Popen([sys.executable, os.path.join(HERE, "c15_reader.py")], stdin=subprocess.PIPE,
                                      stdout=subprocess.PIPE, text=True, bufsize=1)
            import atexit
            atexit.register(self.stop)

    def stop(self):
        if self.p is not None and self.p.poll() is None:
            self.p.kill()

    def cmd(self, obj):
        self.start()
        self.p.stdin.write(json.dumps(obj) + "\n")
        self.p.stdin.flush()
        return json.loads(self.p.stdout.readline())

    def dump(self):
        r = self.cmd({"dump": 1})
        if isinstance(r, dict):
            return [[b"<reader-error>", u8(r["error"][:60]), b""]]
        return [[bytes(a), bytes(b), bytes(c)] for a, b, c in r]


READER = Reader()
_dir = None
_count = 0


def new_db():
    global _dir, _count
    if _dir is None:
        base = "/dev/shm" if os.path.isdir("/dev/shm") else None
        _dir = tempfile.mkdtemp(prefix="c15-", dir=base)
        import atexit
        atexit.register(shutil.rmtree, _dir, True)
    _count += 1
    return os.path.join(_dir, f"s{os.getpid()}_{_count}.db")


def connections_of(obj, depth=2):
    """the sqlite3 connections an object of the code under test holds, found by TYPE among its attributes (and
    the attributes of the objects it holds), not by attribute name"""
    found = []
    try:
        attrs = list(vars(obj).values())
    except TypeError:
        return found
    for v in attrs:
        if isinstance(v, sqlite3.Connection):
            found.append(v)
        elif depth > 0 and type(v).__module__.startswith("vinegar."):
            found.extend(connections_of(v, depth - 1))
    return found


def quick_busy(obj):
    # environment tuning only: a locked database must surface as an exception after 20 ms, not 5 s
    for conn in connections_of(obj):
        try:
            conn.execute("PRAGMA busy_timeout=20;")
        except Exception:      # noqa: BLE001
            pass


# ----------------------------------------------------------------------------- pools
SYS = ["a", "b", "", "A", "é", "e\u0301", "a b", "ab", "a?x", "a#b", "a%b", "a/b", "a+b", "node1", "node1?rack=7"]
KEYS = ["k", "", "flag", "k:x", "K", "ü", "u\u0308"]
VALUES = [None, True, False, 0, 1, -1, 1.0, -0.0, 0.1, 2 ** 63, 2 ** 64 + 1, -(10 ** 30), 1e308, float("inf"),
          float("nan"), "", "a", "1", "é€\U0001F600", "a\x00b", "\ud800", [], {}, [1, [2, {"k": None}]],
          {"a": {"b": [True, 1.5]}}, {"b": 1, "a": 2}, [1, 1.0, True], "null",
          # not JSON-safe
          (1, 2), [1, (2,)], {"a": (1,)}, {1: "x"}, {True: 1}, {None: 0}, {"1": "y", 1: "x"}, {(1, 2): 3}, {1, 2}, b"by",
          [[]], [{}], {"": ""}, 1e-320, 10 ** 20, "true", [None], "None", "false", "0", 0.0, [0], [""], {"": None}, [False], "\ufeffinstalled", "\ufeff", "x\ufeff", "\ufffe", " x ", "x\n"] + _cyclic_values() + _shared_values() + _other_containers()
PREFIXES = ["", "pre", "p:q", "p", "net", "p:q:r", "net:", ":x", "a::b", ":"]


def adversarial_lookup_keys(pre, key):
    """lookup keys in which "<prefix>:" occurs, but not (only) at position 0, and keys around the bare prefix;
    a source with that prefix must answer None unless the key STARTS with prefix + ":" """
    return ["x" + pre + ":" + key, "sub" + pre + ":" + key, "other:" + pre + ":" + key, key + ":" + pre + ":" + key,
            pre + ":" + pre + ":" + key, ":" + pre + ":" + key, pre, pre + ":", pre + key, pre + "::" + key,
            pre.upper() + ":" + key, pre + ":" + key, pre.split(":")[0] + ":" + key, pre + ":x:" + pre + ":" + key,
            " " + pre + ":" + key, pre[:-1] + ":" + key, pre + ":" + key + ":" + pre + ":"]


def twins(v):
    """values that are == to v in Python but have another JSON text (bool/int/float), nested too"""
    out = []
    if isinstance(v, bool):
        out = [int(v), float(v)]
    elif isinstance(v, int):
        out = [float(v)] + ([bool(v)] if v in (0, 1) else [])
    elif isinstance(v, float) and v == int(v):
        out = [int(v)] + ([bool(v)] if v in (0.0, 1.0) else [])
    elif isinstance(v, list):
        for i, x in enumerate(v):
            out += [v[:i] + [y] + v[i + 1:] for y in twins(x)]
    elif isinstance(v, dict):
        for k, x in v.items():
            out += [{**v, k: y} for y in twins(x)]
    return out
LOOKUP_KEYS = ["k", "p:q:k", "pre:k", "p:qk", "p:q:", "p:q", "pre:", "flag", "pre:flag", "p:q:flag", "p:q:k:x", ":k", "prek"]
URIS = ["/upd/a", "/upd/b?x=1", "/upd/", "/upd", "/other/a", "/upd/a%20b", "/upd/%41", "/upd/a%00", "/upd/%C3%A9",
        "/upd/a/b", "/upd/a?y=%00", "/updx/a", "/upd//", "/UPD/a",
        # system ids with characters that must stay percent-encoded in a path, with and without a real query string
        "/upd/a%3Fx", "/upd/a%3Fx?y=1", "/upd/node1%3Frack%3D7", "/upd/a%23b", "/upd/a%25b", "/upd/a%252Fb", "/upd/a%2Fb",
        "/upd/a+b", "/upd/a%20b?q=a%3Fb", "/upd/%C3%A9%3F", "/upd/a?x%3Fy", "/upd/a%3F", "/upd/a%3F%3F?z"]
# (uri, the system it addresses, the system a decode-before-cut / cut-at-# / plus-as-blank reading would hit)
SPECIAL_URIS = [("/upd/a%3Fx", "a?x", "a"), ("/upd/a%3Fx?y=1", "a?x", "a"), ("/upd/node1%3Frack%3D7", "node1?rack=7", "node1"),
                ("/upd/a%23b", "a#b", "a"), ("/upd/a%25b", "a%b", "a"), ("/upd/a%252Fb", "a%2Fb", "a/b"), ("/upd/a%2Fb", "a/b", "a"),
                ("/upd/a+b", "a+b", "a b"), ("/upd/a%20b?q=a%3Fb", "a b", "a"), ("/upd/%C3%A9%3F", "\u00e9?", "\u00e9"),
                ("/upd/a?x%3Fy", "a", "a?y"), ("/upd/a%3F", "a?", "a"), ("/upd/%C3%A9", "\u00e9", "e")]
BODIES = [b"\xef\xbb\xbfinstalled", b"\xef\xbb\xbf", b"a\xef\xbb\xbfb", b'\xef\xbb\xbf"x"', b'"\xef\xbb\xbfx"', b"\xef\xbf\xbe", b"\x00",
          b" x ", b"x\n", b"\r\n", b"0", b'""', b"null", b"false", b"[]", b"{}", b"0.0", b'"\xed\xa0\x80"', b'{"a": [1, 2.5, null]}', b'"x"', b"1e999", b"NaN", b"[1,", b"\xff", b"", b'{"a":1,"a":2}', b"12345678901234567890123",
          b"hello", b"\xc3\xa9", b"\xff\xfe", b"true", b" 1 ", b'"\\ud800"', b"1.0", b"-0.0", b"[1, 2] x"]
CLENS = ["=", "=", "=", None, "x", "0", "3", "-1", " 5 ", "1_0", "99"]


def _nest(depth, leaf, as_dict=False):
    v = leaf
    for _ in range(depth):
        v = {"d": v} if as_dict else [v]
    return v


# legal values at and beyond natural limits (lengths 255/256/4096, nesting 16/17/64, control characters)
LIMIT_VALUES = ["v" * 255, "v" * 256, "v" * 4096, _nest(16, 0), _nest(17, 0), _nest(64, None), _nest(17, "", True),
                _nest(64, [], True), "\x01\x1f\x7f", "\t\n\r", 2 ** 1000, -(2 ** 1000), 1e-310, 1.7976931348623157e308,
                list(range(300)), {str(i): i for i in range(200)}]
LIMIT_IDS = ["\ufeffa", "\ufeff", "s" * 255, "s" * 256, "s" * 4096, "\x01\x7f", " ", "\t", "a\nb"]


class Httpd:
    """ONE real vinegar HttpServer for the harness process (listening on ::1, ephemeral port).  It is constructed
    through its public interface with a single switching request handler that delegates prepare_context /
    can_handle / handle to the handler under test.  Requests are written as raw bytes so that the request target
    reaches the server exactly as given."""
    def __init__(self):
        self.server = None
        self.switch = None

    def port(self):
        if self.server is None:
            from vinegar.http import server as HS
            import pubscan

            class Switch(HS.HttpRequestHandler):
                current = None

                def prepare_context(self, uri):
                    return self.current.prepare_context(uri)

                def can_handle(self, uri, context):
                    return self.current.can_handle(uri, context)

                def handle(self, request_info, body, context):
                    return self.current.handle(request_info, body, context)
            self.switch = Switch()
            self.server = HS.HttpServer([self.switch], "::1", 0)
            self.server.start()
            self.base = pubscan.base_server(self.server)
            import atexit
            atexit.register(self.server.stop)
        return self.base.server_address[1]

    def request(self, handler, method, uri, clen, body):
        port = self.port()
        self.switch.current = handler
        head = f"{method} {uri} HTTP/1.1\r\nHost: localhost\r\nConnection: close\r\n"
        if clen is not None:
            head += f"Content-Length: {clen}\r\n"
        s = socket.create_connection(("::1", port), timeout=5)
        try:
            s.sendall(head.encode("latin-1") + b"\r\n" + body)
            s.shutdown(socket.SHUT_WR)
            data = b""
            while True:
                ch = s.recv(65536)
                if not ch:
                    break
                data += ch
        finally:
            s.close()
        return int(data.split(b" ", 2)[1])


HTTPD = Httpd()
HTTP_CLIENT = "::1"


def handler_pool():
    return [
        {"path": "/upd", "action": "set_value", "key": "flag", "value": True, "cal": None},
        {"path": "/upd/", "action": "set_value", "key": "k", "value": [1, "x", None], "cal": ["192.0.2.1"]},
        {"path": "/upd", "action": "set_value", "key": "k", "value": (1, 2), "cal": None},
        {"path": "/upd", "action": "delete_value", "key": "flag", "value": None, "cal": None},
        {"path": "/upd", "action": "delete_value", "key": "k", "value": None, "cal": ["192.0.2.1", "198.51.100.0/24"]},
        {"path": "/upd", "action": "delete_data", "key": None, "value": None, "cal": None},
        {"path": "/upd", "action": "delete_data", "key": None, "value": None, "cal": ["192.0.2.1"]},
        {"path": "/upd", "action": "set_json_value_from_request_body", "key": "k", "value": None, "cal": None},
        {"path": "/upd", "action": "set_json_value_from_request_body", "key": "flag", "value": None, "cal": ["192.0.2.1"]},
        {"path": "/upd", "action": "set_text_value_from_request_body", "key": "k", "value": None, "cal": None},
        {"path": "/upd", "action": "set_value", "key": "flag", "value": [1], "cal": ["::1", "192.0.2.1"]},
        {"path": "/upd", "action": "set_value", "key": "flag", "value": "", "cal": None},
        {"path": "/upd", "action": "set_value", "key": "flag", "value": _cyclic_values()[1], "cal": None},
        {"path": "/upd", "action": "set_value", "key": "k", "value": {1: "pxe", 2: "local"}, "cal": None},
        {"path": "/upd", "action": "set_value", "key": "flag", "value": {True: 1, None: 0}, "cal": None},
        {"path": "/upd", "action": "set_value", "key": "k", "value": ["x", ("y", 1)], "cal": None},
        {"path": "/upd", "action": "set_value", "key": "flag", "value": {"a": {"b": (1,)}}, "cal": ["::1", "192.0.2.1"]},
        {"path": "/upd", "action": "set_value", "key": "k", "value": {"1": "s", 1: "i"}, "cal": None},
        {"path": "/upd", "action": "set_value", "key": "k", "value": _shared_values()[0], "cal": None},
        {"path": "/upd", "action": "set_value", "key": "flag", "value": _shared_values()[3], "cal": None},
        {"path": "/upd", "action": "set_value", "key": "flag", "value": None, "cal": None},
        {"path": "/upd", "action": "set_value", "key": "k", "value": [], "cal": None},
        {"path": "/upd", "action": "set_value", "key": "", "value": {}, "cal": None},
        {"path": "/upd", "action": "delete_value", "key": "", "value": None, "cal": None},
        {"path": "/upd", "action": "set_value", "key": "flag", "value": 1, "cal": None},
        {"path": "/upd", "action": "set_value", "key": "flag", "value": 0, "cal": None},
        {"path": "/upd", "action": "set_value", "key": "k", "value": False, "cal": None},
        {"path": "/upd", "action": "set_value", "key": "k", "value": 1.0, "cal": None},
        {"path": "/upd", "action": "set_value", "key": "k", "value": [0, 1], "cal": None},
        {"path": "/upd", "action": "set_value", "key": "flag", "value": {"netboot": True}, "cal": None},
        {"path": "/upd", "action": "set_value", "key": "k", "value": {"a": [1, {"b": 0.0}]}, "cal": ["192.0.2.1"]},
    ]


def handler_config(h, path):
    cfg = {"request_path": h["path"], "action": h["action"], "db_file": path}
    if h["key"] is not None:
        cfg["key"] = h["key"]
    if h["action"] == "set_value":
        cfg["value"] = h["value"]
    if h["cal"] is not None:
        cfg["client_address_list"] = h["cal"]
    return cfg


def clen_of(req):
    return str(len(req["body"])) if req["clen"] == "=" else req["clen"]


class C15(Check):
    ident = "C15"
    technique = ("Coq proof about a finite-map model with atomic statements (map laws, strict JSON round trip, prefix "
                 "consistency, handler exactness, crash prefix) + differential correspondence on one database file "
                 "through several connections, a second reader process and a SIGKILLed writer process (partial: "
                 "SQLite atomicity/durability/visibility assumed, exercised)")
    rule = ("case = (3 stores (one non-strict), 2 sources, 2 handlers, <= 8 steps over them with boundary values); "
            "non-trivial = at least one effective write and one read/other-handle step after it; distinct by the whole "
            "case; kill runs counted separately in coverage.kill_runs")
    assumptions = ["SQLite executes one statement in autocommit mode atomically, durably and visibly to other connections "
                   "(assumed in the model; exercised by the second process and the kill runs, not proved)",
                   "json.loads(json.dumps(v)) = json_image v for the values of the case (checked per case)",
                   "contains_ip_address, int(), bytes.decode, urllib.parse.unquote are oracles (tables from the libraries)"]
    search_budget_s = 60

    # ---- generation
    def rand_step(self, rng, case, writes_bias=0.5):
        r = rng.random()
        vals = case["_vals"]
        syss = case["_sys"]
        keys = case["_keys"]
        if r < 0.55:
            i = rng.randrange(3)
            q = rng.random()
            if q < writes_bias * 0.7:
                return ("store", i, "set", rng.choice(syss), rng.choice(keys), rng.choice(vals))
            if q < writes_bias * 0.85:
                return ("store", i, "del", rng.choice(syss), rng.choice(keys))
            if q < writes_bias:
                return ("store", i, "delall", rng.choice(syss))
            q = rng.random()
            if q < 0.25:
                return ("store", i, "get", rng.choice(syss), rng.choice(keys))
            if q < 0.5:
                return ("store", i, "getdata", rng.choice(syss))
            if q < 0.85:
                return ("store", i, "find", rng.choice(keys), rng.choice(vals))
            return ("store", i, "list")
        if r < 0.75:
            i = rng.randrange(2)
            if rng.random() < 0.4:
                return ("source", i, "get", rng.choice(syss))
            pre = case["sources"][i][0]
            lk = rng.choice(LOOKUP_KEYS + [(pre + ":" if pre else "") + rng.choice(keys)] * 6
                            + (rng.sample(adversarial_lookup_keys(pre, rng.choice(keys)), 4) if pre else []))
            return ("source", i, "find", lk, rng.choice(vals))
        i = rng.randrange(2)
        body = rng.choice(BODIES)
        via = rng.random() < 0.25
        return ("handler", i, {"method": rng.choice(["POST", "POST", "POST", "GET", "PUT", "DELETE"] + ([] if via else ["post"])),
                               "uri": rng.choice(URIS[:2] * 4 + URIS), "ip": rng.choice(["192.0.2.1", "192.0.2.1", "192.0.2.2", "198.51.100.7"]),
                               "clen": rng.choice(CLENS), "body": body, "via": via})

    def gen(self, tier, rng):
        n = 5000 if tier == "quick" else 40000
        hp = handler_pool()
        for idx in range(n):
            case = {"stores": [True, True, False],
                    "sources": [(rng.choice(PREFIXES), rng.random() < 0.85), (rng.choice(PREFIXES[1:]), True)],
                    "handlers": [rng.choice(hp), rng.choice(hp)]}
            # small per-case pools so that overwrites, equal JSON texts and lookups collide
            case["_vals"] = rng.sample(VALUES, 4) + ([1, 1.0, True] if rng.random() < 0.3 else [])
            case["_sys"] = rng.sample(SYS, 3)
            case["_keys"] = rng.sample(KEYS, 2) + ["k", "flag"]
            if rng.random() < 0.08:
                case["_vals"] += rng.sample(LIMIT_VALUES, 2)
                case["_sys"] += rng.sample(LIMIT_IDS, 1)
                case["_keys"] += rng.sample(LIMIT_IDS, 1)
            steps = []
            for _ in range(rng.randrange(1, 9)):
                steps.append(self.rand_step(rng, case, 0.65 if len(steps) < 3 else 0.4))
            case["steps"] = steps
            for k in ("_vals", "_sys", "_keys"):
                del case[k]
            yield case
        # directed: several systems share (key, JSON text); lookups through every kind of handle, then one is removed
        for idx in range(n // 8):
            pre = rng.choice(PREFIXES[1:])
            case = {"stores": [True, True, False], "sources": [(pre, True), (rng.choice(PREFIXES), rng.random() < 0.8)],
                    "handlers": [rng.choice(hp), rng.choice(hp)]}
            key = rng.choice(KEYS)
            v = rng.choice([x for x in VALUES if dumps_or_none(x) is not None])
            v2 = rng.choice([1, 1.0, True, "1", v])
            syss = rng.sample(SYS, 3)
            steps = [("store", rng.randrange(3), "set", syss[0], key, v),
                     ("store", rng.randrange(3), "set", syss[1], key, rng.choice([v, v, v2])),
                     ("store", rng.randrange(3), "set", syss[2], rng.choice([key, "k"]), rng.choice([v, v2]))]
            rng.shuffle(steps)
            tail = [("source", 0, "find", pre + ":" + key, v), ("store", rng.randrange(3), "find", key, v),
                    ("source", 1, "find", (case["sources"][1][0] + ":" if case["sources"][1][0] else "") + key, v),
                    ("source", 0, "get", syss[0]), ("store", rng.randrange(3), "list"),
                    ("store", rng.randrange(3), rng.choice(["del", "delall"]), syss[1], key),
                    ("source", 0, "find", pre + ":" + key, v2), ("store", rng.randrange(3), "getdata", syss[0])]
            tail = [s[:4] if s[2] == "delall" else s for s in tail]
            steps += rng.sample(tail, rng.randrange(2, 6))
            case["steps"] = steps[:8]
            yield case
        # (A) fault "database locked": another connection holds the write lock (BEGIN IMMEDIATE) while stores and
        #     handlers try to write; writes must report OperationalError and change nothing, reads and everything
        #     decided before the statement are as usual; after the lock is given up the same operations succeed
        for rep in range(40 if tier == "quick" else 400):
            case = {"stores": [True, True, False], "sources": [(rng.choice(PREFIXES), True), ("pre", True)],
                    "handlers": [rng.choice(hp), rng.choice(hp)]}
            case["_vals"] = rng.sample(VALUES, 4)
            case["_sys"] = ["a"] + rng.sample(SYS, 2)
            case["_keys"] = ["k", "flag"] + rng.sample(KEYS, 1)
            pre_steps = [self.rand_step(rng, case, 0.9) for _ in range(rng.randrange(1, 4))]
            during = []
            for _ in range(rng.randrange(1, 4)):
                q = rng.random()
                if q < 0.4:
                    during.append(("handler", rng.randrange(2), {"method": rng.choice(["POST", "POST", "POST", "GET"]),
                                   "uri": "/upd/" + rng.choice(["a", "b"]), "ip": rng.choice(["192.0.2.1", "192.0.2.2"]),
                                   "clen": "=", "body": rng.choice([b"1", b'"x"', b"[1,", b"text", b"\xff"])}))
                elif q < 0.8:
                    i = rng.randrange(3)
                    during.append(rng.choice([("store", i, "set", "a", rng.choice(case["_keys"]), rng.choice(case["_vals"])),
                                              ("store", i, "del", "a", rng.choice(case["_keys"])),
                                              ("store", i, "delall", rng.choice(case["_sys"]))]))
                else:
                    during.append(self.rand_step(rng, case, 0.0))
            after = [rng.choice(during)] + [self.rand_step(rng, case, 0.3) for _ in range(rng.randrange(0, 3))]
            case["steps"] = pre_steps + [("lock", True)] + during + [("lock", False)] + after
            for k in ("_vals", "_sys", "_keys"):
                del case[k]
            yield case
        # (B) 3-5 operations on ONE long-lived object with a change through another connection (another store, another
        #     handler, a foreign program) between any two
        for rep in range(3 if tier == "quick" else 20):
            for h in hp:
                case = {"stores": [True, True, False], "sources": [(rng.choice(PREFIXES), True), ("pre", True)],
                        "handlers": [h, rng.choice(hp)]}
                key = h["key"] if h["key"] is not None else "k"
                s = rng.choice(["a", "node1", "a b"])
                uri = "/upd/" + s.replace(" ", "%20")

                via = rng.random() < 0.3

                def post():
                    return ("handler", 0, {"method": "POST", "uri": uri, "ip": "192.0.2.1", "clen": "=",
                                           "body": rng.choice([b"1", b'"x"', b"0", b"text", b""]), "via": via})

                def outside():
                    v = rng.choice([0, "", None, "other", [1], False])
                    return rng.choice([("store", rng.randrange(3), "set", s, key, v),
                                       ("store", rng.randrange(3), "del", s, key),
                                       ("store", rng.randrange(3), "delall", s),
                                       ("ext", ["set", s, key, v]), ("ext", ["del", s, key]), ("ext", ["delall", s]),
                                       ("handler", 1, {"method": "POST", "uri": uri, "ip": "192.0.2.1", "clen": "=", "body": b"7"})])
                steps = [post()]
                for _ in range(rng.randrange(2, 4)):
                    steps.append(outside())
                    if rng.random() < 0.3:
                        steps.append(("store", rng.randrange(3), "getdata", s))
                    steps.append(post())
                case["steps"] = steps[:9]
                yield case
            # the same for a long-lived source and a long-lived store
            for obj in ("source", "store"):
                pre = rng.choice(PREFIXES)
                case = {"stores": [True, True, False], "sources": [(pre, True), (rng.choice(PREFIXES), True)],
                        "handlers": [rng.choice(hp), rng.choice(hp)]}
                s, key = rng.choice(SYS), rng.choice(KEYS)
                v = rng.choice([0, "", None, [], {}, False, 1, "x"])
                lk = (pre + ":" if pre else "") + key

                def look():
                    if obj == "source":
                        return rng.choice([("source", 0, "get", s), ("source", 0, "find", lk, v)])
                    return rng.choice([("store", 0, "get", s, key), ("store", 0, "getdata", s), ("store", 0, "find", key, v),
                                       ("store", 0, "list")])

                def change():
                    w = rng.choice([v, v, 0, "", None, "y"])
                    return rng.choice([("store", 1, "set", s, key, w), ("store", 2, "del", s, key), ("store", 1, "delall", s),
                                       ("ext", ["set", s, key, w]), ("ext", ["del", s, key]),
                                       ("store", 2, "set", rng.choice(SYS), key, v)])
                steps = [change(), look()]
                for _ in range(rng.randrange(2, 4)):
                    steps += [change(), look()]
                case["steps"] = steps[:9]
                yield case
        # directed: "<prefix>:" somewhere else than at the start of the lookup key, the bare prefix, prefixes of
        # prefixes; exactly one system holds (key, value), so a wrongly stripped key would be answered
        for rep in range(2 if tier == "quick" else 12):
            for pre in PREFIXES[1:]:
                other = rng.choice([x for x in PREFIXES if x != pre])
                case = {"stores": [True, True, False], "sources": [(pre, True), (other, True)],
                        "handlers": [rng.choice(hp), rng.choice(hp)]}
                key = rng.choice(["k", "mac", "k:x", ""])
                v = rng.choice([1, "x", [1, 2], None])
                s = rng.choice(SYS)
                steps = [("store", rng.randrange(3), "set", s, key, v)]
                if rng.random() < 0.5:     # the stripped-too-far variants hold the value too
                    steps.append(("store", rng.randrange(3), "set", rng.choice(SYS), pre + ":" + key, v))
                lks = adversarial_lookup_keys(pre, key)
                for lk in rng.sample(lks, 5):
                    steps.append(("source", rng.randrange(2), "find", lk, v))
                steps.append(("source", 0, "find", pre + ":" + key, v))
                case["steps"] = steps
                yield case
        # directed: another connection writes a value that is == to the configured value of a set_value handler but
        # has another JSON text (1 / true / 1.0, nested too); then the POST; the snapshot shows the stored text and
        # find_systems is asked for both twins
        for rep in range(2 if tier == "quick" else 10):
            for h in hp:
                if h["action"] != "set_value" or dumps_or_none(h["value"]) is None or isinstance(h["value"], tuple):
                    continue
                for tw in twins(h["value"]):
                    if tier == "quick" and rng.random() < 0.4:
                        continue
                    case = {"stores": [True, True, False], "sources": [("", True), ("pre", True)], "handlers": [h, rng.choice(hp)]}
                    s = rng.choice(["a", "b", "node1"])
                    steps = [("store", rng.randrange(3), "set", s, h["key"], tw),
                             ("handler", 0, {"method": "POST", "uri": "/upd/" + s, "ip": "192.0.2.1", "clen": "=", "body": b""}),
                             ("store", rng.randrange(3), "find", h["key"], h["value"]),
                             ("store", rng.randrange(3), "find", h["key"], tw),
                             ("source", 0, "find", h["key"], h["value"]),
                             ("store", rng.randrange(3), "get", s, h["key"])]
                    if rng.random() < 0.3:
                        steps.insert(0, ("store", rng.randrange(3), "set", rng.choice(["b", "c"]), h["key"], h["value"]))
                    case["steps"] = steps
                    yield case
        # directed: body-reading handlers with bodies whose first/last characters a codec or a parser might drop
        #     (BOM / U+FEFF, U+FFFE, NUL, blanks, line ends); the value is read back and looked up through stores
        special = [b"\xef\xbb\xbfinstalled", b"\xef\xbb\xbf", b"a\xef\xbb\xbfb", b'\xef\xbb\xbf"x"', b'"\xef\xbb\xbfx"', b"\xef\xbf\xbe",
                   b"\x00", b" x ", b"x\n", b"\r\n", b"\xef\xbb\xbf\xef\xbb\xbf", b'" x"', b"\t1"]
        for h in hp:
            if "request_body" not in h["action"]:
                continue
            for bd in special:
                if tier == "quick" and rng.random() < 0.4:
                    continue
                case = {"stores": [True, True, False], "sources": [("", True), ("pre", True)], "handlers": [h, rng.choice(hp)]}
                s = rng.choice(["a", "b"])
                try:
                    txt = bd.decode()
                except ValueError:
                    txt = ""
                steps = [("handler", 0, {"method": "POST", "uri": "/upd/" + s, "ip": "192.0.2.1", "clen": "=", "body": bd,
                                         "via": rng.random() < 0.4}),
                         ("store", rng.randrange(3), "get", s, h["key"]),
                         ("store", rng.randrange(3), "find", h["key"], txt),
                         ("store", rng.randrange(3), "find", h["key"], txt.lstrip("\ufeff").strip())]
                case["steps"] = steps
                yield case
        # directed: every handler action addressed to a system id that needs percent-encoding; the addressed system
        # and its look-alike both hold data before the request, the snapshots show which rows changed
        for rep in range(1 if tier == "quick" else 6):
            for h in hp:
                for (uri, target, other) in SPECIAL_URIS:
                    if tier == "quick" and rng.random() < 0.5:
                        continue
                    case = {"stores": [True, True, False], "sources": [(rng.choice(PREFIXES), True), ("pre", True)],
                            "handlers": [h, rng.choice(hp)]}
                    key = h["key"] if h["key"] is not None else "k"
                    steps = [("store", rng.randrange(3), "set", target, key, rng.choice([0, "old", [1]])),
                             ("store", rng.randrange(3), "set", other, key, rng.choice([0, "old", [1]])),
                             ("store", rng.randrange(3), "set", target, "keep", 1),
                             ("store", rng.randrange(3), "set", other, "keep", 2)]
                    rng.shuffle(steps)
                    body = rng.choice([b'"new"', b"[2]", b"text"])
                    steps.append(("handler", 0, {"method": "POST", "uri": uri, "ip": "192.0.2.1", "clen": "=", "body": body,
                                                 "via": rng.random() < 0.5}))
                    steps.append(("store", rng.randrange(3), "getdata", target))
                    steps.append(("store", rng.randrange(3), "getdata", other))
                    case["steps"] = steps
                    yield case

    # ---- the real code
    def impl(self, c):
        path = new_db()
        stores, sources, handlers = [], [], []
        out = []
        try:
            for strict in c["stores"]:
                s = sqlite_store.DataStore(path, strict)
                quick_busy(s)
                stores.append(s)
            for (pre, fe) in c["sources"]:
                s = sqlite_source.get_instance({"db_file": path, "key_prefix": pre, "find_system_enabled": fe})
                quick_busy(s)
                sources.append(s)
            for h in c["handlers"]:
                # through the real factory; a configuration the constructor refuses is an observation, not a harness
                # error: every request to that handler then reports the constructor's exception
                try:
                    hd = sqlite_update.get_instance_http(handler_config(h, path))
                    quick_busy(hd)
                except Exception as e:      # noqa: BLE001
                    hd = e
                handlers.append(hd)
            READER.cmd({"open": path})
            # a foreign program: one raw connection that takes/gives up the write lock, one that issues statements
            self.locker = sqlite3.connect(path, isolation_level=None, timeout=0.02)
            self.ext = sqlite3.connect(path, isolation_level=None, timeout=0.02)
            for st in c["steps"]:
                try:
                    res = self.do(st, stores, sources, handlers)
                except Exception as e:      # noqa: BLE001
                    res = [8, errcode(e)]
                out.append([res, READER.dump()])
        finally:
            READER.cmd({"close": 1})
            for x in (getattr(self, "locker", None), getattr(self, "ext", None)):
                try:
                    if x is not None:
                        x.close()      # closing rolls an open transaction back
                except Exception:       # noqa: BLE001
                    pass
            self.locker = self.ext = None
            for x in stores + sources + [y for y in handlers if not isinstance(y, Exception)]:
                try:
                    x.close()
                except Exception:       # noqa: BLE001
                    pass
            for suffix in ("", "-journal", "-wal", "-shm"):
                if os.path.exists(path + suffix):
                    os.unlink(path + suffix)
        return out

    def do(self, st, stores, sources, handlers):
        if st[0] == "lock":
            try:
                self.locker.execute("BEGIN IMMEDIATE;" if st[1] else "ROLLBACK;")
            except sqlite3.OperationalError:
                pass        # already in that state
            return [0]
        if st[0] == "ext":
            o = st[1]
            if o[0] == "set":
                self.ext.execute("INSERT OR REPLACE INTO system_data (system_id, key, value) VALUES (?, ?, ?);",
                                 (o[1], o[2], json.dumps(o[3])))
            elif o[0] == "del":
                self.ext.execute("DELETE FROM system_data WHERE system_id=? AND key=?;", (o[1], o[2]))
            else:
                self.ext.execute("DELETE FROM system_data WHERE system_id=?;", (o[1],))
            return [0]
        if st[0] == "store":
            s = stores[st[1]]
            op = st[2]
            if op == "set":
                s.set_value(st[3], st[4], st[5])
                return [0]
            if op == "get":
                return [1, enc_pv(s.get_value(st[3], st[4]))]
            if op == "getdata":
                return [2, [[u8(k), enc_pv(v)] for k, v in s.get_data(st[3]).items()]]
            if op == "del":
                s.delete_value(st[3], st[4])
                return [0]
            if op == "delall":
                s.delete_data(st[3])
                return [0]
            if op == "find":
                return [3, [u8(x) for x in s.find_systems(st[3], st[4])]]
            return [3, [u8(x) for x in s.list_systems()]]
        if st[0] == "source":
            s = sources[st[1]]
            if st[2] == "get":
                data, _version = s.get_data(st[3], {}, "")
                return [5, enc_pv(data)]
            r = s.find_system(st[3], st[4])
            return [4, [] if r is None else [u8(r)]]
        h = handlers[st[1]]
        req = st[2]
        if isinstance(h, Exception):
            raise h
        if req.get("via"):
            return [6, HTTPD.request(h, req["method"], req["uri"], clen_of(req), req["body"])]
        ctx = h.prepare_context(req["uri"])
        if not h.can_handle(req["uri"], ctx):
            return [7]
        headers = http.client.HTTPMessage()
        cl = clen_of(req)
        if cl is not None:
            headers["Content-Length"] = cl
        info = HttpRequestInfo(client_address=(req["ip"], 40000), headers=headers, method=req["method"],
                               server_address=("192.0.2.100", 80), uri=req["uri"])
        status, _h, _b = h.handle(info, io.BytesIO(req["body"]), ctx)
        return [6, int(status)]

    # ---- sx line
    def line(self, c, obs):
        loads_t, int_t, json_t, text_t, unq_t = {}, {}, {}, {}, {}

        def note_txt(t):
            if t is not None and t not in loads_t:
                loads_t[t] = enc_pv(json.loads(t))

        def vt(v):
            t = dumps_or_none(v)
            note_txt(t)
            return enc_pv(v), enc_otxt(t)

        def note_body(raw):
            if raw not in json_t:
                try:
                    v = json.load(io.BytesIO(raw))
                    t = json.dumps(v)
                    note_txt(t)
                    json_t[raw] = [enc_pv(v), u8(t)]
                except ValueError:
                    json_t[raw] = []
                try:
                    v = raw.decode()
                    t = json.dumps(v)
                    note_txt(t)
                    text_t[raw] = [enc_pv(v), u8(t)]
                except ValueError:
                    text_t[raw] = []
        hx = []
        for h in c["handlers"]:
            p = h["path"] if h["path"].endswith("/") else h["path"] + "/"
            a = h["action"]
            if a == "delete_data":
                ax = [0]
            elif a == "delete_value":
                ax = [1, u8(h["key"])]
            elif a == "set_value":
                ax = [2, u8(h["key"])] + list(vt(h["value"]))
            elif a == "set_json_value_from_request_body":
                ax = [3, u8(h["key"])]
            else:
                ax = [4, u8(h["key"])]
            hx.append([u8(p), ax, bool(h["cal"])])
        steps = []
        for st in c["steps"]:
            if st[0] == "lock":
                steps.append([3, bool(st[1])])
            elif st[0] == "ext":
                o = st[1]
                if o[0] == "set":
                    txt = json.dumps(o[3])
                    note_txt(txt)
                    steps.append([4, [0, u8(o[1]), u8(o[2]), u8(txt)]])
                elif o[0] == "del":
                    steps.append([4, [1, u8(o[1]), u8(o[2])]])
                else:
                    steps.append([4, [2, u8(o[1])]])
            elif st[0] == "store":
                op = st[2]
                if op == "set":
                    o = [0, u8(st[3]), u8(st[4])] + list(vt(st[5]))
                elif op == "get":
                    o = [1, u8(st[3]), u8(st[4])]
                elif op == "getdata":
                    o = [2, u8(st[3])]
                elif op == "del":
                    o = [3, u8(st[3]), u8(st[4])]
                elif op == "delall":
                    o = [4, u8(st[3])]
                elif op == "find":
                    o = [5, u8(st[3])] + list(vt(st[4]))
                else:
                    o = [6]
                steps.append([0, st[1], o])
            elif st[0] == "source":
                if st[2] == "get":
                    steps.append([1, st[1], [0, u8(st[3])]])
                else:
                    steps.append([1, st[1], [1, u8(st[3])] + list(vt(st[4]))])
            else:
                req = st[2]
                h = c["handlers"][st[1]]
                allowed = contains_ip_address(h["cal"], HTTP_CLIENT if req.get("via") else req["ip"]) if h["cal"] else True
                cl = clen_of(req)
                hv = cl if cl is not None else "0"
                try:
                    n = int(hv)
                    int_t[hv] = [n]
                    for raw in {req["body"] if n < 0 else req["body"][:n], req["body"], b""}:
                        note_body(raw)
                except ValueError:
                    int_t[hv] = []
                for part in {req["uri"], req["uri"].partition("?")[0]}:
                    unq_t[part] = urllib.parse.unquote(part)
                steps.append([2, st[1], [u8(req["method"]), u8(req["uri"]), allowed, [] if cl is None else [u8(cl)], req["body"], bool(req.get("via"))]])
        # texts that can be read back are all noted above; obs texts (e.g. after a mutation) are added defensively
        for (_res, dmp) in obs:
            for row in dmp:
                try:
                    note_txt(bytes(row[2]).decode("utf-8", "surrogatepass"))
                except ValueError:
                    pass
        tables = [[[u8(t), v] for t, v in loads_t.items()],
                  [[u8(s), z] for s, z in int_t.items()],
                  [[raw, r] for raw, r in json_t.items()],
                  [[raw, r] for raw, r in text_t.items()],
                  [[u8(a), u8(b)] for a, b in unq_t.items()]]
        handles = [list(c["stores"]), [[u8(p), fe] for p, fe in c["sources"]], hx]
        return sx([[0, tables, handles, steps], obs])

    def canon(self, obs):
        return tobytes(obs)

    def nontrivial(self, c, obs):
        wrote = None
        for i, (st, (res, dmp)) in enumerate(zip(c["steps"], obs)):
            if dmp and wrote is None:
                wrote = i
        if wrote is None or wrote == len(c["steps"]) - 1:
            return None
        return hashlib.sha1(repr(self.show(c)).encode()).hexdigest()

    def show(self, c):
        if c.get("_extra"):
            return c

        def sv(x):
            return repr(x)
        return {"stores_strict": c["stores"], "sources": [list(s) for s in c["sources"]],
                "handlers": [{k: sv(v) for k, v in h.items()} for h in c["handlers"]],
                "steps": [sv(s) for s in c["steps"]]}

    def shrink(self, c):
        st = c["steps"]
        for i in range(len(st)):
            yield dict(c, steps=st[:i] + st[i + 1:])

    def evaluate(self, cases):
        """the driver also reports, for every value of the case, whether check_value v = (json_image v == v) in the
        model (converse direction of strict_values_roundtrip, proved only for top-level shapes): a 0 there is a
        failure of the model-side claim"""
        res = []
        for (c, o, m, fm, fi, rest) in super().evaluate(cases):
            if rest and any(b == 0 for b in rest[0]):
                fm = fm + ["check_value_iff_image_fixed"]
            res.append((c, o, m, fm, fi, rest))
        return res

    # ---- killed writer
    def kill_run(self, ops, n):
        """returns (acked, table rows) after SIGKILL of a writer that was killed when its n-th ack arrived"""
        path = new_db()
        sqlite_store.DataStore(path).close()          # tables exist before the long-lived reader connects
        READER.cmd({"open": path})
        env = dict(os.environ, PYTHONPATH=common.REPO, PYTHONDONTWRITEBYTECODE="1")
        p = subprocess.Popen([sys.executable, os.path.join(HERE, "c15_writer.py"), path], stdin=subprocess.PIPE,
                             stdout=subprocess.PIPE, env=env)
        try:
            p.stdin.write((json.dumps(ops) + "\n").encode())
            p.stdin.flush()
            got = b""
            while got.count(b"A") < n or b"R" not in got:
                ch = os.read(p.stdout.fileno(), 1)
                if not ch:
                    break
                got += ch
            p.send_signal(signal.SIGKILL)
            p.wait()
            while True:
                ch = os.read(p.stdout.fileno(), 65536)
                if not ch:
                    break
                got += ch
            rows = READER.dump()                       # the connection that was open all the time
            READER.cmd({"open": path})                 # and a new one
            rows2 = READER.dump()
            READER.cmd({"close": 1})
        finally:
            if p.poll() is None:
                p.kill()
            for f in (p.stdin, p.stdout):
                try:
                    f.close()
                except Exception:   # noqa: BLE001
                    pass
            for suffix in ("", "-journal", "-wal", "-shm"):
                if os.path.exists(path + suffix):
                    os.unlink(path + suffix)
        return got.count(b"A"), rows, rows2

    def extra_checks(self, tier, rng, report):
        nkill = 6 if tier == "quick" else 14
        nseq = 5 if tier == "quick" else 12
        safe = [v for v in VALUES if dumps_or_none(v) is not None and self.jsonsafe(v)]
        big = "x" * 300000
        runs = 0
        lines, metas = [], []
        for q in range(nseq):
            ops = []
            for j in range(nkill + 4):
                r = rng.random()
                s, k = rng.choice(SYS[:3]), rng.choice(KEYS[:3])
                if r < 0.7:
                    ops.append(["set", s, k, big + str(j) if rng.random() < 0.25 else rng.choice(safe)])
                elif r < 0.85:
                    ops.append(["del", s, k])
                else:
                    ops.append(["delall", s])
            mops = []
            for o in ops:
                if o[0] == "set":
                    mops.append([0, u8(o[1]), u8(o[2]), short(u8(json.dumps(o[3])))])
                elif o[0] == "del":
                    mops.append([1, u8(o[1]), u8(o[2])])
                else:
                    mops.append([2, u8(o[1])])
            for n in range(0, nkill + 1):
                acked, rows, rows2 = self.kill_run(ops, n)
                runs += 1
                for which, rw in (("open-connection", rows), ("new-connection", rows2)):
                    lines.append(sx([[1, mops], [acked, [[r[0], r[1], short(r[2])] for r in rw]]]))
                    metas.append({"_extra": True, "kind": "killed-writer", "ops": [repr(o)[:80] for o in ops],
                                  "ops_raw": ops, "kill_after_ack": n, "acks_seen": acked, "read_through": which,
                                  "table_after_kill": [[x.decode("utf-8", "replace")[:60] for x in r] for r in rw]})
        self.inside_kill_checks(tier, rng, report, lines, metas)
        outs = common.run_model(self.ident, lines)
        for ln, meta, out in zip(lines, metas, outs):
            r = common.unsx(out)
            report["evaluations"] += 1
            if isinstance(r, list) and len(r) >= 5 and r[4] in (0, 1):     # validb_crash: hypothesis of C15_covered_kill_runs
                key = "cases_within_theorem_hypotheses" if r[4] == 1 else "cases_outside_theorem_hypotheses"
                report["extra"][key] = report["extra"].get(key, 0) + 1
            failed = common.names(r[2]) if isinstance(r, list) and len(r) >= 3 else ["crash_case_rejected"]
            if meta.get("integrity_check", [["ok"]]) != [["ok"]] and meta["read_through"] == "new-connection":
                failed = failed + ["crash_database_intact"]
            if failed:
                report.setdefault("extra_failing", []).append((meta, failed, meta["table_after_kill"], "fold of the first acks_seen or acks_seen+1 operations"))
        report["extra"]["kill_runs"] = runs

    # ---- writer killed INSIDE one statement
    @staticmethod
    def wchar(pid):
        """bytes the process has passed to write() system calls so far (Linux), None if not available"""
        try:
            with open(f"/proc/{pid}/io") as f:
                for ln in f:
                    if ln.startswith("wchar:"):
                        return int(ln.split()[1])
        except OSError:
            return None
        return None

    def inside_kill_run(self, ops, limit):
        """The writer performs `ops`; at its ["wait"] the parent samples the writer's write counter, lets it go on
        and SIGKILLs it as soon as it has issued `limit` more bytes of write() calls (limit None: never, for
        calibration).  Returns (acks, rows via the connection that was open all the time, rows via a new
        connection, integrity_check via the new connection, bytes written after the wait) or None if /proc is
        not usable."""
        path = new_db()
        sqlite_store.DataStore(path).close()
        READER.cmd({"open": path})
        env = dict(os.environ, PYTHONPATH=common.REPO, PYTHONDONTWRITEBYTECODE="1")
        p = subprocess.Popen([sys.executable, os.path.join(HERE, "c15_writer.py"), path], stdin=subprocess.PIPE,
                             stdout=subprocess.PIPE, env=env)
        fd = p.stdout.fileno()
        try:
            p.stdin.write((json.dumps(ops) + "\n").encode())
            p.stdin.flush()
            got = b""
            while b"W" not in got:
                ch = os.read(fd, 1)
                if not ch:
                    return None
                got += ch
            base = self.wchar(p.pid)
            if base is None:
                return None
            os.set_blocking(fd, False)
            p.stdin.write(b"go\n")
            p.stdin.flush()
            deadline = time.time() + 30
            written = 0
            while time.time() < deadline:
                w = self.wchar(p.pid)
                if w is None:
                    break
                written = w - base
                if limit is not None and written >= limit:
                    break
                try:
                    ch = os.read(fd, 4096)
                    got += ch
                    if b"Z" in got or not ch:
                        break
                except BlockingIOError:
                    pass
            p.send_signal(signal.SIGKILL)
            p.wait()
            os.set_blocking(fd, True)
            while True:
                ch = os.read(fd, 65536)
                if not ch:
                    break
                got += ch
            rows = READER.dump()
            READER.cmd({"open": path})
            rows2 = READER.dump()
            integ = READER.cmd({"check": 1})
            READER.cmd({"close": 1})
        finally:
            if p.poll() is None:
                p.kill()
            for f in (p.stdin, p.stdout):
                try:
                    f.close()
                except Exception:   # noqa: BLE001
                    pass
            for suffix in ("", "-journal", "-wal", "-shm"):
                if os.path.exists(path + suffix):
                    os.unlink(path + suffix)
        return got.count(b"A"), rows, rows2, integ, written

    def inside_kill_checks(self, tier, rng, report, lines, metas):
        size = 4 * 1024 * 1024
        ops = [["set", "other", "flag", True], ["setbig", "sys", "key", "A", size], ["set", "b", "k", [1, "x"]],
               ["wait"], ["setbig", "sys", "key", "B", size], ["set", "c", "k", 2]]
        mops = []
        for o in ops:
            if o[0] == "set":
                mops.append([0, u8(o[1]), u8(o[2]), u8(json.dumps(o[3]))])
            elif o[0] == "setbig":
                mops.append([0, u8(o[1]), u8(o[2]), short(u8(json.dumps(o[3] * o[4])))])
        cal = self.inside_kill_run(ops[:5], None)
        if cal is None:
            report["extra"]["inside_kill_runs"] = "skipped: /proc/<pid>/io not available"
            return
        total = cal[4]
        fracs = [(i + 0.5) / 12 for i in range(12)] if tier == "quick" else [(i + 0.5) / 48 for i in range(48)]
        runs = 0
        for fr in fracs:
            r = self.inside_kill_run(ops, int(total * fr))
            if r is None:
                continue
            acked, rows, rows2, integ, written = r
            runs += 1
            for which, rw in (("open-connection", rows), ("new-connection", rows2)):
                lines.append(sx([[1, mops], [acked, [[x[0], x[1], short(x[2])] for x in rw]]]))
                metas.append({"_extra": True, "kind": "writer-killed-inside-one-set_value", "ops": [repr(o)[:60] for o in ops],
                              "ops_raw": ops, "kill_limit_bytes": int(total * fr),
                              "statement_bytes_total": total, "killed_after_bytes": written, "acks_seen": acked,
                              "read_through": which, "integrity_check": self.clip(integ),
                              "table_after_kill": [[x.decode("utf-8", "replace")[:60] for x in row] for row in
                                                   [[x[0], x[1], short(x[2])] for x in rw]]})
        report["extra"]["inside_kill_runs"] = runs
        report["extra"]["inside_kill_statement_bytes"] = total

    @staticmethod
    def clip(integ):
        if isinstance(integ, list):
            return [[str(x)[:300] for x in row] for row in integ[:3]]
        return integ

    @staticmethod
    def mops_of(ops):
        mops = []
        for o in ops:
            if o[0] == "set":
                mops.append([0, u8(o[1]), u8(o[2]), short(u8(json.dumps(o[3])))])
            elif o[0] == "setbig":
                mops.append([0, u8(o[1]), u8(o[2]), short(u8(json.dumps(o[3] * o[4])))])
            elif o[0] == "del":
                mops.append([1, u8(o[1]), u8(o[2])])
            elif o[0] == "delall":
                mops.append([2, u8(o[1])])
        return mops

    def do_replay(self, path, build):
        doc = json.load(open(path))
        case = common._unpickle_b64(doc["case_pickle"]) if doc.get("case_pickle") else None
        if not (isinstance(case, dict) and case.get("_extra")):
            return super().do_replay(path, build)
        # a kill run: repeat it (the kill lands at the same acknowledgement / byte count, not at the same instruction)
        ops = case["ops_raw"]
        if case["kind"] == "killed-writer":
            acked, rows, rows2 = self.kill_run(ops, case["kill_after_ack"])
            integ = [["ok"]]
        else:
            r = self.inside_kill_run(ops, case["kill_limit_bytes"])
            if r is None:
                print("replay skipped: /proc/<pid>/io not available")
                return 0
            acked, rows, rows2, integ, _written = r
        bad = False
        for which, rw in (("open-connection", rows), ("new-connection", rows2)):
            rw = [[x[0], x[1], short(x[2])] for x in rw]
            out = common.unsx(common.run_model(self.ident, [sx([[1, self.mops_of(ops)], [acked, rw]])])[0])
            failed = common.names(out[2])
            if which == "new-connection" and integ != [["ok"]]:
                failed = failed + ["crash_database_intact"]
            print(f"{which}: acks={acked} table={[[x.decode('utf-8', 'replace')[:50] for x in r] for r in rw]}")
            print("  integrity_check:", self.clip(integ))
            print("  failed clauses on implementation:", failed)
            bad = bad or bool(failed)
        if bad:
            print(f"VIOLATION property={self.ident} replay={path}")
            return 1
        return 0

    @staticmethod
    def jsonsafe(v):
        try:
            return json.loads(json.dumps(v)) == v or v != v
        except Exception:   # noqa: BLE001
            return False


if __name__ == "__main__":
    raise SystemExit(C15().main())
