"""C01, send failures towards the client: the real _TftpReadRequest with a socket whose sendto() raises
socket.timeout for chosen OACK/DATA sends (numbered in call order) and a client that acknowledges at once
every packet that does go out, against the extracted model of Tftp/SendFaults.v (binary c01send)."""
import collections
import itertools
import struct
import time

import common
from common import sx, unsx, names
import fake_net
import tftp_common as T


def mk(oack, blocks, retries, faults):
    return {"oack": bool(oack), "blocks": int(blocks), "retries": int(retries), "faults": sorted(set(int(f) for f in faults))}


def run_impl(c):
    """-> [[attempt, ...], done]; attempt = [6, ok] | [3, block, ok]"""
    attempts = []
    faults = set(c["faults"])
    bs = 8 if c["oack"] else 512
    content = bytes(i % 251 for i in range(bs * (c["blocks"] - 1) + 3))

    class Sock(fake_net.FakeSock):
        def __init__(self, *a):
            super().__init__(*a)
            self.n = 0
            self.pending = collections.deque()

        def sendto(self, data, addr):
            if addr == fake_net.CLI and data[:2] in (b"\x00\x03", b"\x00\x06"):
                i = self.n
                self.n += 1
                ok = i not in faults
                if data[:2] == b"\x00\x06":
                    attempts.append([6, int(ok)])
                    a = T.ack(0)
                else:
                    blk = struct.unpack("!H", data[2:4])[0]
                    attempts.append([3, blk, int(ok)])
                    a = T.ack(blk)
                if not ok:
                    raise self.timeout_class("send timed out")
                self.pending.append(a)
            else:
                attempts.append([99, int.from_bytes(data[:2], "big")])

        def recvfrom(self, n):
            if self.pending:
                return self.pending.popleft(), fake_net.CLI
            self.clock[0] += self.to
            raise self.timeout_class("timed out")

    def handler(fn, cl, sv, ctx):
        return fake_net.ChunkedStream(content, [])
    fake_net.run_transfer([], handler, {"blksize": "8"} if c["oack"] else {}, max_retries=c["retries"], sock_class=Sock)
    sent_ok = [a[1] for a in attempts if a[0] == 3 and a[2] == 1]
    done = sent_ok == list(range(1, c["blocks"] + 1))
    return [attempts, int(done)]


def line(c, obs):
    return sx([[int(c["oack"]), c["blocks"], c["retries"], c["faults"]], obs])


def cases(tier, rng):
    quick = tier == "quick"
    # exhaustive: every fault set over the first sends of small transfers
    for oack in (0, 1):
        for blocks in (1, 2, 3):
            for retries in (0, 1, 2):
                horizon = min(7 if quick else 9, (blocks + oack) * (retries + 1) + 1)
                for k in range(0, horizon + 1):
                    for fs in itertools.combinations(range(horizon), k):
                        if k > (4 if quick else 6):
                            continue
                        yield mk(oack, blocks, retries, fs)
    for _ in range(300 if quick else 5000):
        blocks = rng.randrange(1, 9)
        retries = rng.randrange(0, 5)
        total = (blocks + 1) * (retries + 1) + 2
        dens = rng.choice([0.1, 0.3, 0.6, 0.9])
        yield mk(rng.random() < 0.5, blocks, retries, [i for i in range(total) if rng.random() < dens])


def replay(case):
    c = mk(case["oack"], case["blocks"], case["retries"], case["faults"])
    o = run_impl(c)
    out, = common.run_model("c01send", [line(c, o)])
    r = unsx(out)
    return (o, r[0], names(r[1]), names(r[2]))


def send_checks(tier, rng, report):
    """C01.extra_checks: append failures to report['extra_failing']; add counts to report"""
    t0 = time.time()
    stats = {"send_fault_cases": 0, "send_fault_disagreements": 0, "send_fault_impl_failures": 0,
             "send_fault_cases_with_a_fault": 0, "send_fault_given_up": 0}
    failing = []
    batch = []

    def flush():
        obs = [run_impl(c) for c in batch]
        outs = common.run_model("c01send", [line(c, o) for c, o in zip(batch, obs)])
        for c, o, out in zip(batch, obs, outs):
            if out.startswith("!") or out.startswith("#"):
                raise RuntimeError(f"c01send: driver rejected case {c!r} -> {out[:100]}")
            r = unsx(out)
            m, fm, fi = r[0], names(r[1]), names(r[2])
            stats["send_fault_cases"] += 1
            stats["send_fault_cases_with_a_fault"] += 1 if c["faults"] else 0
            stats["send_fault_given_up"] += 0 if o[1] else 1
            if fm:
                raise RuntimeError(f"c01send: the model fails its own checker on {c!r}: {fm}")
            dis = common._jsonable(o) != common._jsonable(m)
            if dis:
                stats["send_fault_disagreements"] += 1
            if fi:
                stats["send_fault_impl_failures"] += 1
            if (fi or dis) and len(failing) < 5:
                case = {"_extra": True, "part": "send-faults", **c}
                failing.append((case, fi or ["C01:send_fault_correspondence"], common._jsonable(o), common._jsonable(m)))
        batch.clear()
    for c in cases(tier, rng):
        if not fake_net.can_drive(2, 30, c["retries"], 65464, 0):
            stats["send_fault_cases_skipped_by_the_driver"] = stats.get("send_fault_cases_skipped_by_the_driver", 0) + 1
            continue
        batch.append(c)
        if len(batch) >= 500:
            flush()
            if len(failing) >= 5:
                break
    flush()
    # prefer the smallest failing case
    failing.sort(key=lambda f: (f[0]["blocks"], len(f[0]["faults"]), f[0]["retries"]))
    report["evaluations"] += stats["send_fault_cases"]
    report["disagreements"] += stats["send_fault_disagreements"]
    report["impl_failures"] += stats["send_fault_impl_failures"]
    stats["send_fault_wall_s"] = round(time.time() - t0, 1)
    report["extra"].update(stats)
    report.setdefault("extra_failing", []).extend(failing[:3])
