"""C15 helper: a second PROCESS with its own raw sqlite3 connection (no vinegar code).
Protocol (one JSON document per line on stdin, one answer per line on stdout):
  {"open": path}  -> opens (and keeps) a connection to that database file, answers true
  {"dump": 1}     -> answers [[system_id, key, value_text], ...] ordered by (system_id, key)
  {"check": 1}    -> answers the rows of PRAGMA integrity_check ([["ok"]] for an intact file)
  {"close": 1}    -> closes the connection
Texts longer than 100000 bytes are replaced by "<long:sha1:length>".  Texts are transported as lists of UTF-8 byte values so that nothing is re-interpreted on the way."""
import hashlib
import json
import sqlite3
import sys


def enc(s):
    if not isinstance(s, str):
        return ["?", repr(s)]
    b = s.encode("utf-8", "surrogatepass")
    if len(b) > 100000:     # same digest form as c15.short(): long texts are opaque to the model
        b = b"<long:" + hashlib.sha1(b).hexdigest().encode() + b":" + str(len(b)).encode() + b">"
    return list(b)


def main():
    con = None
    for line in sys.stdin:
        cmd = json.loads(line)
        try:
            if "open" in cmd:
                if con is not None:
                    con.close()
                con = sqlite3.connect(cmd["open"], isolation_level=None, timeout=0.2)
                out = True
            elif "dump" in cmd:
                rows = con.execute("SELECT system_id, key, value FROM system_data ORDER BY system_id, key;").fetchall()
                out = [[enc(a), enc(b), enc(c)] for a, b, c in rows]
            elif "check" in cmd:
                out = [[str(x) for x in row] for row in con.execute("PRAGMA integrity_check;").fetchall()]
            elif "close" in cmd:
                if con is not None:
                    con.close()
                    con = None
                out = True
            else:
                out = {"error": "unknown command"}
        except Exception as e:      # noqa: BLE001
            out = {"error": type(e).__name__ + ": " + str(e)}
        sys.stdout.write(json.dumps(out) + "\n")
        sys.stdout.flush()


if __name__ == "__main__":
    main()
