(* C01, send failures: "any pattern of lost ... packets that stays within the retry budget" read
   for packets that are lost before they leave (sendto itself times out).  Property theorems only,
   closed by Tftp/SendFaultsProofs.v. *)
From Coq Require Import String.
From Coq Require Import List NArith ZArith Bool Arith Lia.
From VF Require Import Tftp.SendFaults Tftp.SendFaultsProofs.
Import ListNotations.
Local Open Scope nat_scope.

(* the model of the retry loops satisfies the checker for EVERY set of failing sends, every number
   of blocks and every retry budget *)
Theorem C01_send_model_holds : forall c, holds_send c (run_send c) = [].
Proof. exact send_model_holds. Qed.
Print Assumptions C01_send_model_holds.

(* if every window of 1 + max_retries consecutive sends contains one that does not fail (and the
   OACK, when there is one, goes out), every block is delivered, in order *)
Theorem C01_send_failures_within_budget_deliver : forall c,
  no_long_run (s_faults c) (s_retries c) -> (s_oack c = true -> faulty (s_faults c) 0 = false) ->
  snd (run_send c) = true /\ delivered (fst (run_send c)) = seq 1 (s_blocks c).
Proof. exact send_failures_within_budget_deliver. Qed.
Print Assumptions C01_send_failures_within_budget_deliver.

(* what the code does when the OACK's sendto fails: nothing more is sent (it sends outside its try);
   recorded as behaviour, not asked for by the property *)
Theorem C01_oack_send_failure_ends_transfer : forall n rt fs,
  faulty fs 0 = true ->
  run_send {| s_oack := true; s_blocks := n; s_retries := rt; s_faults := fs |} = ([AOack false], false).
Proof. intros n rt fs H. unfold run_send. cbn [s_oack s_faults]. now rewrite H. Qed.
Print Assumptions C01_oack_send_failure_ends_transfer.

(* non-vacuity: 3 blocks, budget 2, sends 1, 2 and 4 fail: block 1 goes out at the third try,
   block 2 at the second, everything is delivered *)
Example C01_send_example :
  run_send {| s_oack := false; s_blocks := 3; s_retries := 2; s_faults := [0; 1; 3] |} =
  ([AData 1 false; AData 1 false; AData 1 true; AData 2 false; AData 2 true; AData 3 true], true).
Proof. vm_compute. reflexivity. Qed.
(* a DATA send that is NOT retried (the seeded change C01-r6s1) fails the checker *)
Example C01_send_not_retried_refuted :
  holds_send {| s_oack := false; s_blocks := 2; s_retries := 2; s_faults := [1] |}
             ([AData 1 true; AData 2 false], false) <> [].
Proof. vm_compute. discriminate. Qed.
