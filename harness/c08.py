"""C08 - netascii conversion independent of block and read boundaries."""
import itertools
import struct

import common
from common import Check, sx, all_chunkings, hist
import fake_net
from vinegar.tftp import server as S


def direct_blocks(content, chunks, bs):
    """the loop of _send_data over the real reader closure"""
    read = S._netascii_reader_function(fake_net.ChunkedStream(content, chunks))
    out = []
    for _ in range(2 * len(content) + 2):
        d = read(bs)
        out.append(bytes(d))
        if len(d) != bs:
            return out
    return out + [b"<no-end>"]


def transfer_blocks(content, chunks, bs):
    """through the real _TftpReadRequest with a client that acknowledges everything"""
    nblocks = 2 * len(content) // bs + 2
    script = [(1, fake_net.CLI, b"\x00\x04" + struct.pack("!H", 0))] if bs != 512 else []
    script += [(2 + i, fake_net.CLI, b"\x00\x04" + struct.pack("!H", (i + 1) & 0xFFFF)) for i in range(nblocks)]
    log = fake_net.run_transfer(script, lambda *a: fake_net.ChunkedStream(content, chunks),
                                {"blksize": str(bs)} if bs != 512 else {}, mode="netascii", default_timeout=4096)
    out = []
    last = None
    for e in log:
        if e[0] == "send" and e[2] == fake_net.CLI and e[3][:2] == b"\x00\x03":
            if e[3] != last:
                out.append(e[3][4:])
            last = e[3]
        elif e[0] == "send" and e[3][:2] == b"\x00\x06":
            if b"tsize" in e[3].lower():
                out.append(b"<tsize announced>")
    return out


class C08(Check):
    ident = "C08"
    technique = "Coq proof (streaming lemma over any chunking/block size) + differential correspondence"
    rule = ("case = (content over {CR,LF,a,b}, chunking of the source reads, block size); exhaustive over lengths "
            "<= L with every composition as chunking for bs in 1..3 (direct reader) and bs=8 (real transfer), plus "
            "seeded random binary inputs; non-trivial = content contains CR or LF and chunking has >= 2 reads; "
            "distinct by (content, chunking, bs)")
    assumptions = ["file.read(n) returns 1..n bytes while data remains and b'' only at EOF"]

    def gen(self, tier, rng):
        L = 6 if tier == "quick" else 8
        alpha = [13, 10, 97]
        for n in range(0, L + 1):
            for content in itertools.product(alpha, repeat=n):
                content = bytes(content)
                chs = list(all_chunkings(n))
                for bs in (1, 2, 3):
                    for ch in chs:
                        yield {"content": content, "chunks": ch, "bs": bs, "via": "reader"}
        # through the real transfer, bs = 8 and 9
        for n in range(0, L + 4):
            for _ in range(6 if tier == "quick" else 40):
                content = bytes(rng.choice(alpha + [98]) for _ in range(n + rng.randrange(0, 12)))
                ch = [rng.randrange(1, 5) for _ in range(len(content))]
                yield {"content": content, "chunks": ch, "bs": rng.choice([8, 9, 16]), "via": "transfer"}
        for _ in range(300 if tier == "quick" else 3000):
            n = rng.randrange(0, 4096 if tier == "thorough" else 1500)
            content = bytes(rng.choice([13, 10, 13, 10, rng.randrange(256)]) for _ in range(n))
            ch = [rng.randrange(1, 700) for _ in range(rng.randrange(0, 40))]
            yield {"content": content, "chunks": ch, "bs": rng.choice([512, 1428, 8, 100]), "via": "reader"}
        for _ in range(10 if tier == "quick" else 60):
            n = rng.randrange(0, 3000)
            content = bytes(rng.choice([13, 10, rng.randrange(256)]) for _ in range(n))
            ch = [rng.randrange(1, 700) for _ in range(rng.randrange(0, 40))]
            yield {"content": content, "chunks": ch, "bs": rng.choice([512, 1428]), "via": "transfer"}

    def impl(self, c):
        if c["via"] == "reader":
            return direct_blocks(c["content"], c["chunks"], c["bs"])
        return transfer_blocks(c["content"], c["chunks"], c["bs"])

    def line(self, c, obs):
        return sx([c["content"], c["chunks"], c["bs"], 0, obs])

    def canon(self, obs):
        return [bytes(b) for b in obs]

    def nontrivial(self, c, obs):
        if (b"\r" in c["content"] or b"\n" in c["content"]) and len(c["chunks"]) >= 2:
            return (c["content"], tuple(c["chunks"]), c["bs"], c["via"])
        return None

    def show(self, c):
        return {"content": c["content"].hex(), "chunks": c["chunks"], "bs": c["bs"], "via": c["via"]}

    def shrink(self, c):
        ct, ch = c["content"], c["chunks"]
        for i in range(len(ct)):
            yield dict(c, content=ct[:i] + ct[i + 1:])
        for i in range(len(ch)):
            yield dict(c, chunks=ch[:i] + ch[i + 1:])
        for i in range(len(ch)):
            if ch[i] > 1:
                yield dict(c, chunks=ch[:i] + [ch[i] - 1] + ch[i + 1:])


if __name__ == "__main__":
    raise SystemExit(C08().main())
