(* Specification of a correct transfer as a trace acceptor (monitor).
   It is written against the *specification* of the payload (split_blocks of
   the content, block numbering with wrap, negotiated options), not against the
   reader/transfer model, and it is the executable checker that judges the
   implementation's traces.  MonitorProofs.v shows that it accepts every trace of
   the model, for every event script.  Definitions only. *)
From Coq Require Import String.
From Coq Require Import List NArith ZArith Bool.
From VF Require Import Base.Sx Tftp.Readers Tftp.Codec Tftp.Transfer Tftp.Run.
Import ListNotations.
Open Scope Z_scope.

Definition pkt_eqb (p q : pkt) : bool :=
  match p, q with
  | PData n d, PData m e => (n =? m)%N && str_eqb d e
  | POack o, POack o' =>
      (fix go (a b : list (str * str)) : bool :=
         match a, b with
         | [], [] => true
         | (k, x) :: a', (k', x') :: b' => str_eqb k k' && str_eqb x x' && go a' b'
         | _, _ => false
         end) o o'
  | PError c, PError c' => (c =? c')%N
  | PMalformed r, PMalformed r' => str_eqb r r'
  | _, _ => false
  end.

Definition want (p : pkt) : N := match p with PData n _ => n | _ => 0%N end.

(* the packets a complete transfer consists of, and whether the counter
   overflows after them (wrap disabled) *)
Fixpoint number_blocks (w : option N) (blk : N) (blocks : list (list N)) : list pkt * bool :=
  match blocks with
  | [] => ([], false)
  | b :: r => match next_block w blk with
              | None => ([], true)
              | Some n => let '(l, o) := number_blocks w n r in (PData n b :: l, o)
              end
  end.

Definition spec_blocks (c : tcase) : list (list N) :=
  let bs := N.to_nat (n_bs (t_neg c)) in
  split_blocks bs (if t_netascii c then netascii_spec (t_content c) else t_content c).

Definition expected (c : tcase) : list pkt * bool :=
  let '(l, o) := number_blocks (t_wrap c) 0%N (spec_blocks c) in
  (match n_oack (t_neg c) with [] => l | oa => POack oa :: l end, o).

Inductive mmode :=
| MStart | MWait | MForeign (a : addr) | MResend | MNext | MErr0 | MSilent | MCloseF | MCloseS | MEnd.

Record mst := {
  m_exp : list pkt;
  m_over : bool;
  m_out : pkt; m_tsend : Z; m_count : nat;       (* outstanding packet, its last send, sends so far *)
  m_now : Z;
  m_mode : mmode;
  m_fail : option string
}.

Definition mfail (s : mst) (why : string) : mst :=
  {| m_exp := m_exp s; m_over := m_over s; m_out := m_out s; m_tsend := m_tsend s; m_count := m_count s;
     m_now := m_now s; m_mode := MEnd; m_fail := Some why |}.
Definition mset (s : mst) (md : mmode) (now : Z) : mst :=
  {| m_exp := m_exp s; m_over := m_over s; m_out := m_out s; m_tsend := m_tsend s; m_count := m_count s;
     m_now := now; m_mode := md; m_fail := m_fail s |}.
Definition msent (s : mst) (p : pkt) (rest : list pkt) (k : nat) : mst :=
  {| m_exp := rest; m_over := m_over s; m_out := p; m_tsend := m_now s; m_count := k;
     m_now := m_now s; m_mode := MWait; m_fail := m_fail s |}.

Definition mstep (tmo_ : Z) (retries_ : nat) (proc_ : Z) (s : mst) (e : tr) : mst :=
  match m_fail s with Some _ => s | None =>
  match m_mode s, e with
  (* the catch-all exception branch must never be taken *)
  | _, TLogExc => mfail s "C09:internal_error_path"
  (* the first packet goes out at time 0 *)
  | MStart, TSend t a p =>
      match m_exp s with
      | q :: r => if (a =? client)%N && pkt_eqb p q && (t =? m_now s) then msent s q r 1
                  else mfail s "C01:first_packet"
      | [] => mfail s "C01:first_packet"
      end
  (* waiting for the acknowledgement of the outstanding packet *)
  | MWait, TRecv t a d =>
      (* nothing is taken off the socket once the try's time is over, whenever it arrived *)
      if negb ((t <? m_tsend s + tmo_) && (m_now s <? m_tsend s + tmo_)) then mfail s "C02:delivery_after_deadline" else
      let now' := Z.max (m_now s) t + proc_ in
      if negb (a =? client)%N then mset s (MForeign a) now' else
      match classify current d with
      | CAck n => if (n =? want (m_out s))%N then mset s MNext now' else mset s MWait now'
      | CPeerError => mset s MSilent now'
      | CInvalid => mset s MErr0 now'
      | CInternal => mfail s "C09:internal"
      end
  | MWait, TTimeout t =>
      (* at the deadline, or - when handling a datagram ran past it - as soon as that is done *)
      if negb (t =? Z.max (m_tsend s + tmo_) (m_now s)) then mfail s "C02:timeout_at_deadline"
      else if (m_count s <? S retries_)%nat then mset s MResend t else mset s MCloseF t
  | MWait, TSend t a p =>
      if (a =? client)%N then
        if pkt_eqb p (m_out s) then mfail s "C02:resend_only_on_timeout"
        else match p with
             | PError _ => mfail s "C09:unexpected_error_packet"
             | _ => mfail s "C02:lockstep"
             end
      else mfail s "C09:tid_reply_without_cause"
  | MWait, _ => mfail s "C02:ends_while_waiting"
  (* a foreign sender gets ERROR 5 and nothing else happens *)
  | MForeign a, TSend t b p =>
      if (b =? a)%N && pkt_eqb p (PError 5) && (t =? m_now s) then mset s MWait (m_now s)
      else if (b =? client)%N then
        (* the foreign datagram was treated as if it came from the client *)
        match p with
        | PError _ => mfail s "C09:tid_error5"
        | _ => if pkt_eqb p (m_out s) then mfail s "C02:resend_only_on_timeout" else mfail s "C02:lockstep"
        end
      else mfail s "C09:tid_error5"
  | MForeign _, _ => mfail s "C09:tid_error5"
  (* after a time-out with tries left: the identical packet again, at once *)
  | MResend, TSend t a p =>
      if (a =? client)%N && pkt_eqb p (m_out s) && (t =? m_now s)
      then msent s (m_out s) (m_exp s) (S (m_count s))
      else mfail s "C02:retransmission"
  | MResend, _ => mfail s "C02:retransmission"
  (* the outstanding packet was acknowledged *)
  | MNext, TSend t a p =>
      match m_exp s with
      | q :: r => if (a =? client)%N && pkt_eqb p q && (t =? m_now s) then msent s q r 1
                  else mfail s "C01:data_sequence"
      | [] => if m_over s && (a =? client)%N && pkt_eqb p (PError 0) && (t =? m_now s)
              then mset s MCloseF (m_now s)
              else mfail s "C01:send_after_last_block"
      end
  | MNext, TCloseFile =>
      match m_exp s with
      | [] => if m_over s then mfail s "C01:overflow_without_error" else mset s MCloseS (m_now s)
      | _ => mfail s "C01:progress_on_ack"
      end
  | MNext, _ => mfail s "C01:progress_on_ack"
  (* an invalid packet from the peer is answered with one ERROR 0 *)
  | MErr0, TSend t a p =>
      if (a =? client)%N && pkt_eqb p (PError 0) && (t =? m_now s) then mset s MCloseF (m_now s)
      else match p with
           | PError _ => mfail s "C09:invalid_packet_error"
           | _ =>
               (* the invalid datagram was taken for an acknowledgement (or for a reason to send again) *)
               if (a =? client)%N then
                 if pkt_eqb p (m_out s) then mfail s "C02:resend_only_on_timeout" else mfail s "C02:lockstep"
               else mfail s "C09:invalid_packet_error"
           end
  | MErr0, _ => mfail s "C09:invalid_packet_error"
  (* a peer ERROR ends the transfer silently *)
  | MSilent, TCloseFile => mset s MCloseS (m_now s)
  | MSilent, TSend _ _ _ => mfail s "C09:peer_error_not_silent"
  | MSilent, TTimeout _ => mfail s "C02:continues_after_peer_error"
  | MSilent, TRecv _ _ _ => mfail s "C02:continues_after_peer_error"
  | MSilent, _ => mfail s "C20:release"
  (* nothing more is sent; socket and file are released *)
  | MCloseF, TCloseFile => mset s MCloseS (m_now s)
  | MCloseF, TSend _ _ _ => mfail s "C02:send_after_end"
  | MCloseF, _ => mfail s "C20:release"
  | MCloseS, TCloseSock => mset s MEnd (m_now s)
  | MCloseS, _ => mfail s "C20:release"
  | MEnd, _ => mfail s "C20:activity_after_close"
  | MStart, _ => mfail s "C01:first_packet"
  end end.

Definition minit (c : tcase) : mst :=
  let '(l, o) := expected c in
  {| m_exp := l; m_over := o; m_out := PError 0; m_tsend := 0; m_count := 0; m_now := 0;
     m_mode := MStart; m_fail := None |}.

Definition monitor (c : tcase) (l : list tr) : list string :=
  let s := fold_left (mstep (tmo (t_cfg c)) (t_retries c) (t_proc c)) l (minit c) in
  match m_fail s with
  | Some w => [w]
  | None => match m_mode s with MEnd => [] | _ => ["C20:trace_incomplete"%string] end
  end.

(* total time: every event lies within packets x (1 + retries) x timeout *)
Fixpoint last_time (l : list tr) (acc : Z) : Z :=
  match l with
  | [] => acc
  | TSend t _ _ :: r | TRecv t _ _ :: r | TTimeout t :: r => last_time r (Z.max acc t)
  | _ :: r => last_time r acc
  end.
(* a try lasts for the time-out plus at most the handling of the one datagram that was taken
   off the socket just before the deadline *)
Definition time_bound (c : tcase) : Z :=
  Z.of_nat (List.length (fst (expected c))) * (Z.of_nat (S (t_retries c)) * (tmo (t_cfg c) + t_proc c)).
Definition within_time (c : tcase) (l : list tr) : bool := last_time l 0 <=? time_bound c.

(* the hypotheses of the transfer theorems (MonitorProofs.valid) as a boolean, so that the driver can say for
   every evaluated case whether the theorems speak about it (MonitorProofs.validb_valid) *)
Definition validb (c : tcase) : bool :=
  negb (retry_fallthrough (t_v c)) && negb (errcode_raises (t_v c)) && negb (late_recv (t_v c)) &&
  negb (blksize_drop_over_max (t_nv c)) && negb (tsize_ignores_pos (t_nv c)) &&
  negb (t_na_always_skip c) &&
  (1 <=? max_bs (t_limits c))%N && (1 <=? default_tmo (t_limits c))%N && (0 <=? t_proc c).
