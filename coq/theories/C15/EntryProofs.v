(* C15: the executable checkers accept the model. *)
From Coq Require Import String.
From Coq Require Import List NArith ZArith Bool Arith Lia.
From VF Require Import Base.Sx Sqlite.Model Sqlite.Proofs C15.Entry.
Import ListNotations.
Open Scope N_scope.

Lemma sx_eqb_refl a : sx_eqb a a = true.
Proof. unfold sx_eqb, list_N_eqb. destruct (list_eq_dec N.eq_dec (print a) (print a)); congruence. Qed.

Lemma check_run O H : forall sts lk m, check O H sts lk m (run O H sts lk m) = [].
Proof.
  induction sts as [|st r IH]; intros lk m; [reflexivity|].
  cbn [run check]. destruct (do_step_l O H st lk m) as [[mo res] lk'].
  unfold res_eqb, tbl_eqb. rewrite !sx_eqb_refl. cbn [app]. apply IH.
Qed.

Lemma holds_model (c : case) : valid c -> holds c (run_model c) = [].
Proof.
  intros Hv. unfold holds, run_model. rewrite check_run. unfold valid in Hv. rewrite Hv. reflexivity.
Qed.

Lemma holds_crash_model ops tr w : wrun ops winit tr = Some w ->
  holds_crash ops (w_acked w) (dump (w_tbl w)) = [].
Proof.
  intros H. destruct (crash_prefix ops tr winit w (winv_init ops) H) as (Ht & Ha & Hl).
  unfold holds_crash. rewrite Ht.
  assert (Hd : w_done w = w_acked w \/ w_done w = S (w_acked w)) by lia.
  destruct Hd as [Hd|Hd]; rewrite Hd in *.
  - replace (Nat.leb (w_acked w) (length ops)) with true by (symmetry; apply Nat.leb_le; lia).
    unfold tbl_eqb. rewrite sx_eqb_refl. reflexivity.
  - replace (Nat.leb (S (w_acked w)) (length ops)) with true by (symmetry; apply Nat.leb_le; lia).
    unfold tbl_eqb. rewrite (sx_eqb_refl (tbl_sx (dump (fold_left apply_mop (firstn (S (w_acked w)) ops) [])))).
    cbn [andb]. now rewrite orb_true_r.
Qed.
