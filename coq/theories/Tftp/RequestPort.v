(* Model of the request port of vinegar/tftp/server.py:
   TftpServer._process_request / _process_read_request / _process_write_request /
   _process_invalid_request, with the catch-all of TftpServer._run.
   Every primitive that can raise in Python is modelled with its exception:
   struct.unpack_from on short data (struct.error), Opcode(n) (ValueError),
   decode_read_request (ValueError), the constructor of _TftpReadRequest
   (ValueError for a mode that is neither netascii nor octet).
   Request handlers are abstracted to predicates on the decoded filename
   (can_handle); handler code that raises is outside this model.
   Fault dimension: socket.sendto of a reply fails with OSError when the requester's address
   cannot be sent to (source port 0: Linux delivers such datagrams but sendto() to port 0 is
   EINVAL); the attempt is recorded, the exception travels to the catch-all of _run.
   The serve loop TftpServer._run is modelled over a list of incoming datagrams (recvfrom
   truncates to MAX_REQUEST_PACKET_SIZE = 512 bytes).
   Definitions only. *)
From Coq Require Import String.
From Coq Require Import List NArith ZArith Bool.
From VF Require Import Base.Sx Tftp.Codec Tftp.NegSpec Tftp.Transfer.
Import ListNotations.
Open Scope N_scope.

(* what the port does: datagrams sent from the server socket to the requester, transfers started *)
Inductive action :=
| ASendError (code : N)  (* sendto(error_packet(code, ...), requester) was called *)
| AStart (fn : str) (m : mode) (opts : list (str * str)) (handler_index : nat)
| ALogExc                (* logger.exception in the catch-all of _run *)
| ABad (raw : str)       (* observation only: a datagram that is no well-formed ERROR for the requester *)
| ADead.                 (* observation only: the server did not answer the liveness probe that followed *)

(* Injected cls: any other Exception subclass (RuntimeError, MemoryError, KeyError, a custom class ...) *)
Inductive exn := StructError | ValueError | OSError | Injected (cls : N).
(* an exception carries what had been done before it was raised *)
Inductive res (A : Type) := Ok (a : A) | Exc (e : exn) (done : list action).
Arguments Ok {A}. Arguments Exc {A}.
Definition bind {A B} (r : res A) (f : A -> res B) : res B :=
  match r with Ok a => f a | Exc e done => Exc e done end.

(* struct.unpack_from("!H", data) *)
Definition unpack_u16 (d : str) : res N :=
  match d with hi :: lo :: _ => Ok (u16 hi lo) | _ => Exc StructError [] end.

Inductive opcode := OpRRQ | OpWRQ | OpDATA | OpACK | OpERROR | OpOACK.
(* Opcode(n): the enum constructor raises ValueError for a value that is no member *)
Definition opcode_of (n : N) : res opcode :=
  if n =? 1 then Ok OpRRQ else if n =? 2 then Ok OpWRQ else if n =? 3 then Ok OpDATA
  else if n =? 4 then Ok OpACK else if n =? 5 then Ok OpERROR else if n =? 6 then Ok OpOACK
  else Exc ValueError [].

(* protocol.decode_read_request: every failure is a ValueError (Opcode.from_bytes converts
   struct.error, TransferMode.from_str and the shape checks raise ValueError) *)
Definition decode_read_request (d : str) : res (str * mode * list (str * str)) :=
  match decode_rrq d with Some r => Ok r | None => Exc ValueError [] end.

(* request handlers as far as the port is concerned: can_handle(filename, context) *)
Inductive handler := HConst (b : bool) | HPrefix (p : str) | HExact (s : str).
Fixpoint starts_with (p s : str) : bool :=
  match p, s with
  | [], _ => true
  | x :: p', y :: s' => (x =? y) && starts_with p' s'
  | _ :: _, [] => false
  end.
Definition can_handle (h : handler) (fn : str) : bool :=
  match h with HConst b => b | HPrefix p => starts_with p fn | HExact s => str_eqb s fn end.

(* self._socket.sendto(error_packet(code, ...), req_addr): the call is made; it raises OSError
   when the requester's address cannot be sent to *)
Definition send_reply (sendable : bool) (code : N) : res (list action) :=
  if sendable then Ok [ASendError code] else Exc OSError [ASendError code].

(* Fault dimension 2: a callee of the request-port thread raises an exception that has nothing to
   do with the bytes of the datagram.  Stations, in the order the code reaches them:
   - SLog: the log statement of the branch taken, with its eagerly evaluated argument
     socket_address_to_str(req_addr) (every branch of _process_request has one, and it always
     comes BEFORE the reply is sent resp. the transfer object is constructed);
   - SPrepare i / SCanHandle i: prepare_context / can_handle of the i-th request handler;
   - SHandleLookup: the attribute access request_handler.handle of the accepting handler;
   - SThreadStart: threading.Thread.start() at the end of _TftpReadRequest.__init__
     (RuntimeError "can't start new thread"). *)
Inductive station := SLog | SPrepare (i : nat) | SCanHandle (i : nat) | SHandleLookup | SThreadStart.
Definition station_eqb (a b : station) : bool :=
  match a, b with
  | SLog, SLog | SHandleLookup, SHandleLookup | SThreadStart, SThreadStart => true
  | SPrepare i, SPrepare j | SCanHandle i, SCanHandle j => Nat.eqb i j
  | _, _ => false
  end.
Definition fault := option (station * exn).
(* control reaches station [st]: the injected exception is raised there *)
Definition at_station (f : fault) (st : station) : res unit :=
  match f with
  | Some (st', e) => if station_eqb st' st then Exc e [] else Ok tt
  | None => Ok tt
  end.

(* _TftpReadRequest.__init__ (runs in the request-port thread):
   - raises ValueError for any mode but netascii and octet;
   - validates blksize / timeout with _REGEXP_POSITIVE_INT.fullmatch and only then calls int().
   int() is modelled pessimistically: it raises ValueError on everything but a non-empty string
   of ASCII digits (Python accepts more: surrounding white space, '_', a sign, other digits);
   - finally starts the transfer thread. *)
Definition regexp_positive_int (s : str) : bool :=
  match s with c :: r => (49 <=? c) && (c <=? 57) && forallb is_digit r | [] => false end.
Definition py_int (s : str) : res N :=
  match s with
  | [] => Exc ValueError []
  | _ => if forallb is_digit s then Ok (digits_value s) else Exc ValueError []
  end.
Definition ctor_option (o : list (str * str)) (name : str) : res unit :=
  match dict_get (lower_keys o) name with
  | Some s => if regexp_positive_int s then bind (py_int s) (fun _ => Ok tt) else Ok tt
  | None => Ok tt
  end.
(* request_handler.handle, then _handle_read: log, construct, start the thread *)
Definition start_transfer_f (f : fault) (fn : str) (m : mode) (o : list (str * str)) (i : nat) : res (list action) :=
  bind (at_station f SHandleLookup) (fun _ =>
  bind (at_station f SLog) (fun _ =>
  match m with
  | Mail => Exc ValueError []
  | _ => bind (ctor_option o (lit "blksize")) (fun _ =>
         bind (ctor_option o (lit "timeout")) (fun _ =>
         bind (at_station f SThreadStart) (fun _ => Ok [AStart fn m o i])))
  end)).

(* for request_handler in self._request_handlers: ... return *)
Fixpoint handler_loop_f (f : fault) (sendable : bool) (hs : list handler) (i : nat) (fn : str) (m : mode)
  (o : list (str * str)) : res (list action) :=
  match hs with
  | [] => bind (at_station f SLog) (fun _ => send_reply sendable 1)      (* FILE_NOT_FOUND *)
  | h :: r =>
      bind (at_station f (SPrepare i)) (fun _ =>
      bind (at_station f (SCanHandle i)) (fun _ =>
      if can_handle h fn then start_transfer_f f fn m o i else handler_loop_f f sendable r (S i) fn m o))
  end.

Definition process_read_request_f (f : fault) (sendable : bool) (hs : list handler) (d : str) : res (list action) :=
  match decode_read_request d with
  | Exc ValueError _ => bind (at_station f SLog) (fun _ => send_reply sendable 4)   (* except ValueError *)
  | Exc e done => Exc e done
  | Ok (fn, m, o) =>
      match m with
      | Mail => bind (at_station f SLog) (fun _ => send_reply sendable 4)
      | _ => handler_loop_f f sendable hs O fn m o
      end
  end.

Definition process_request_f (f : fault) (sendable : bool) (hs : list handler) (d : str) : res (list action) :=
  if (List.length d <? 2)%nat then bind (at_station f SLog) (fun _ => Ok []) else
  bind (unpack_u16 d) (fun n =>
  match opcode_of n with
  | Exc ValueError _ => bind (at_station f SLog) (fun _ => Ok [])        (* unknown opcode ignored *)
  | Exc e done => Exc e done
  | Ok OpRRQ => process_read_request_f f sendable hs d
  | Ok OpWRQ => bind (at_station f SLog) (fun _ => send_reply sendable 2)  (* ACCESS_VIOLATION *)
  | Ok _ => bind (at_station f SLog) (fun _ => send_reply sendable 4)      (* ILLEGAL_OPERATION *)
  end).

(* one iteration of TftpServer._run: `except Exception: logger.exception(...)`, then the loop goes on *)
Definition serve_one_f (f : fault) (sendable : bool) (hs : list handler) (d : str) : list action :=
  match process_request_f f sendable hs d with Ok a => a | Exc _ done => done ++ [ALogExc] end.

(* without injected faults *)
Definition start_transfer := start_transfer_f None.
Definition handler_loop := handler_loop_f None.
Definition process_read_request := process_read_request_f None.
Definition process_request := process_request_f None.
Definition serve_one := serve_one_f None.

(* TftpServer._run over the datagrams that arrive: (fault, requester can be replied to, datagram).
   What the loop does with an exception that escapes _process_request: the code logs it and goes
   on for EVERY Exception; the other policies are behaviours the code does not have. *)
Definition MAX_REQUEST_PACKET_SIZE : nat := 512.
Inductive loop_reaction := LogContinue | LogBreak | Escape.
Definition policy := exn -> loop_reaction.
Definition catch_all : policy := fun _ => LogContinue.
Definition break_on_oserror_policy : policy := fun e => match e with OSError => LogBreak | _ => LogContinue end.
Definition only_oserror_valueerror : policy :=
  fun e => match e with OSError | ValueError => LogContinue | _ => Escape end.
Fixpoint run_loop_f (pol : policy) (hs : list handler) (reqs : list (fault * bool * str)) : list (list action) :=
  match reqs with
  | [] => []
  | (f, sendable, d) :: r =>
      let d' := firstn MAX_REQUEST_PACKET_SIZE d in
      match process_request_f f sendable hs d' with
      | Ok a => a :: run_loop_f pol hs r
      | Exc e done =>
          match pol e with
          | LogContinue => (done ++ [ALogExc]) :: run_loop_f pol hs r
          | LogBreak => [done ++ [ALogExc]]
          | Escape => [done]
          end
      end
  end.
Definition run_loop (break_on_oserror : bool) (hs : list handler) (reqs : list (bool * str)) : list (list action) :=
  run_loop_f (if break_on_oserror then break_on_oserror_policy else catch_all) hs
             (map (fun r => (None, fst r, snd r)) reqs).

(* which faults are reached (declarative reading; theorem process_request_f_spec) *)
Fixpoint loop_reaches (st : station) (hs : list handler) (i : nat) (fn : str) : bool :=
  match hs with
  | [] => station_eqb st SLog
  | h :: r =>
      station_eqb st (SPrepare i) || station_eqb st (SCanHandle i) ||
      (if can_handle h fn
       then station_eqb st SHandleLookup || station_eqb st SLog || station_eqb st SThreadStart
       else loop_reaches st r (S i) fn)
  end.
Definition reaches (st : station) (hs : list handler) (d : str) : bool :=
  match d with
  | hi :: lo :: _ =>
      if u16 hi lo =? 1 then
        match decode_rrq d with
        | Some (fn, Netascii, _) | Some (fn, Octet, _) => loop_reaches st hs O fn
        | _ => station_eqb st SLog
        end
      else station_eqb st SLog
  | _ => station_eqb st SLog
  end.

(* ---------- specification of the port (property C09, first sentence) ---------- *)
Fixpoint first_accepting (hs : list handler) (i : nat) (fn : str) : option nat :=
  match hs with
  | [] => None
  | h :: r => if can_handle h fn then Some i else first_accepting r (S i) fn
  end.

Definition port_spec (hs : list handler) (d : str) : list action :=
  match d with
  | hi :: lo :: _ =>
      let op := u16 hi lo in
      if op =? 1 then
        match decode_rrq d with
        | None => [ASendError 4]
        | Some (fn, Mail, _) => [ASendError 4]
        | Some (fn, m, o) => match first_accepting hs O fn with
                             | Some i => [AStart fn m o i]
                             | None => [ASendError 1]
                             end
        end
      else if op =? 2 then [ASendError 2]
      else if (3 <=? op) && (op <=? 6) then [ASendError 4]
      else []
  | _ => []
  end.

(* executable checker for an observed reaction *)
Definition mode_num (m : mode) : N := match m with Netascii => 1 | Octet => 2 | Mail => 3 end.
Fixpoint opts_eqb (a b : list (str * str)) : bool :=
  match a, b with
  | [], [] => true
  | (k, x) :: a', (k', x') :: b' => str_eqb k k' && str_eqb x x' && opts_eqb a' b'
  | _, _ => false
  end.
Definition action_eqb (a b : action) : bool :=
  match a, b with
  | ASendError c, ASendError c' => c =? c'
  | AStart f m o i, AStart f' m' o' i' => str_eqb f f' && (mode_num m =? mode_num m') && opts_eqb o o' && Nat.eqb i i'
  | ALogExc, ALogExc => true
  | ABad r, ABad r' => str_eqb r r'
  | ADead, ADead => true
  | _, _ => false
  end.
Fixpoint actions_eqb (a b : list action) : bool :=
  match a, b with
  | [], [] => true
  | x :: a', y :: b' => action_eqb x y && actions_eqb a' b'
  | _, _ => false
  end.

Definition is_log (a : action) : bool := match a with ALogExc => true | _ => false end.
Definition is_send (a : action) : bool := match a with ASendError _ => true | _ => false end.

(* The property: at most one reaction as specified, the reply (if any) sent, no exception logged,
   the server keeps serving.  When the reply cannot be sent (sendable = false) the specified
   reaction is still that the one reply is attempted; an exception logged directly after that
   attempt is reported under a clause of its own, any other logged exception as
   internal_error_path. *)
Definition is_dead (a : action) : bool := match a with ADead => true | _ => false end.
Definition port_holds (sendable : bool) (hs : list handler) (d : str) (obs : list action) : list string :=
  let spec := port_spec hs d in
  let seen := filter (fun a => negb (is_dead a)) obs in           (* without the liveness verdict *)
  let core := filter (fun a => negb (is_log a)) seen in           (* ... and without the log records *)
  let unsendable_shape :=
    negb sendable && existsb is_send spec && actions_eqb seen (spec ++ [ALogExc]) in
  (if existsb is_log obs
   then if unsendable_shape then ["C09:port_reply_unsendable_logged"%string]
        else ["C09:internal_error_path"%string]
   else []) ++
  (if existsb is_dead obs then ["C09:port_stops_serving"%string] else []) ++
  (if (2 <=? List.length core)%nat then ["C09:port_more_than_one_reaction"%string] else []) ++
  (if actions_eqb core spec then [] else ["C09:port_reaction"%string]).

(* with an injected fault that is reached: the exception is logged by the catch-all, nothing is
   sent, no transfer is started, and the server keeps serving; a fault that is not reached changes
   nothing *)
Definition port_holds_f (f : fault) (sendable : bool) (hs : list handler) (d : str) (obs : list action)
  : list string :=
  match f with
  | Some (st, _) =>
      if reaches st hs d then
        (if existsb is_dead obs then ["C09:port_stops_serving"%string] else []) ++
        (if actions_eqb (filter (fun a => negb (is_dead a)) obs) [ALogExc] then []
         else ["C09:port_fault_reaction"%string])
      else port_holds sendable hs d obs
  | None => port_holds sendable hs d obs
  end.

(* the cases for which the theorems say that the checker accepts the model (C09_port_covered_cases):
   every case except a reply that is due to a requester that cannot be sent to and that no injected
   fault pre-empts - for those the theorem C09_port_holds_unsendable says that the checker reports
   exactly the clause port_reply_unsendable_logged (known finding D22) *)
Definition port_validb (f : fault) (sendable : bool) (hs : list handler) (d : str) : bool :=
  let base := sendable || negb (existsb is_send (port_spec hs d)) in
  match f with
  | Some (st, _) => reaches st hs d || base
  | None => base
  end.

(* ================= source port 0 (defect D22, repaired by 7078de3) =================
   A datagram whose UDP source port is 0 can be received, but sendto() to port 0 fails with EINVAL
   (and RFC 768 says that such a sender expects no reply).  The code now drops such a datagram at
   the very start of _process_request, after a debug log statement: no reply attempt, no transfer.
   Before the repair the normal reaction was performed, the reply could not be sent and the OSError
   was logged by the catch-all.  [port0] = the datagram comes from source port 0; sendto fails
   exactly then. *)
Record pvariants := { replies_to_port0 : bool }.       (* D22: no early drop *)
Definition pcurrent := {| replies_to_port0 := false |}.
Definition pv_D22 := {| replies_to_port0 := true |}.

(* [sendable] = false: sendto() to this requester fails with OSError for a reason that is not in the
   datagram (EPERM / ENETUNREACH: firewall, no route); source port 0 is never sendable *)
Definition process_request_v (pv : pvariants) (f : fault) (port0 sendable : bool) (hs : list handler) (d : str)
  : res (list action) :=
  if port0 && negb (replies_to_port0 pv) then bind (at_station f SLog) (fun _ => Ok [])
  else process_request_f f (sendable && negb port0) hs d.

Definition serve_one_v (pv : pvariants) (f : fault) (port0 sendable : bool) (hs : list handler) (d : str)
  : list action :=
  match process_request_v pv f port0 sendable hs d with Ok a => a | Exc _ done => done ++ [ALogExc] end.

Fixpoint run_loop_v (pv : pvariants) (pol : policy) (hs : list handler) (reqs : list (fault * (bool * bool) * str))
  : list (list action) :=
  match reqs with
  | [] => []
  | (f, (port0, sendable), d) :: r =>
      let d' := firstn MAX_REQUEST_PACKET_SIZE d in
      match process_request_v pv f port0 sendable hs d' with
      | Ok a => a :: run_loop_v pv pol hs r
      | Exc e done =>
          match pol e with
          | LogContinue => (done ++ [ALogExc]) :: run_loop_v pv pol hs r
          | LogBreak => [done ++ [ALogExc]]
          | Escape => [done]
          end
      end
  end.

(* specification: nothing at all for source port 0, the specified reaction otherwise *)
Definition port_spec_v (port0 : bool) (hs : list handler) (d : str) : list action :=
  if port0 then [] else port_spec hs d.
Definition reaches_v (st : station) (port0 : bool) (hs : list handler) (d : str) : bool :=
  if port0 then station_eqb st SLog else reaches st hs d.
(* what is observed when nothing is wrong: the reaction, plus the log record of the OSError when the one
   reply could not be sent for a reason outside the datagram (environment fault, like the injected ones) *)
Definition expected_obs (f : fault) (port0 sendable : bool) (hs : list handler) (d : str) : list action :=
  let spec := port_spec_v port0 hs d in
  match f with
  | Some (st, _) => if reaches_v st port0 hs d then [ALogExc]
                    else spec ++ (if negb sendable && existsb is_send spec then [ALogExc] else [])
  | None => spec ++ (if negb sendable && existsb is_send spec then [ALogExc] else [])
  end.
Definition env_fault_effective (f : fault) (port0 sendable : bool) (hs : list handler) (d : str) : bool :=
  match f with Some (st, _) => reaches_v st port0 hs d | None => false end ||
  (negb sendable && existsb is_send (port_spec_v port0 hs d)).

(* the checker of the property: exactly the specified reaction (so: no reply attempt to port 0), no
   logged exception unless an environment fault (injected exception that is reached, reply that cannot be
   sent for a reason outside the datagram) explains exactly it, the server keeps serving *)
Definition port_check (f : fault) (port0 sendable : bool) (hs : list handler) (d : str) (obs : list action)
  : list string :=
  let spec := port_spec_v port0 hs d in
  let seen := filter (fun a => negb (is_dead a)) obs in
  let core := filter (fun a => negb (is_log a)) seen in
  let dead := if existsb is_dead obs then ["C09:port_stops_serving"%string] else [] in
  match f with
  | Some (SLog, _) =>
      (* WHERE a branch logs, and through which logger method, is not fixed by the property: under a fault in a
         log statement the datagram is judged only by what the property says - the loop keeps serving, at most
         one reaction, and if there is one it is the specified one (none is fine) *)
      dead ++ (if (actions_eqb core [] || actions_eqb core spec) && (List.length seen <=? 3)%nat then []
               else ["C09:port_fault_reaction"%string])
  | _ =>
      if env_fault_effective f port0 sendable hs d then
        dead ++ (if actions_eqb seen (expected_obs f port0 sendable hs d) then [] else ["C09:port_fault_reaction"%string])
      else
        (if existsb is_log obs then ["C09:internal_error_path"%string] else []) ++ dead ++
        (if (2 <=? List.length core)%nat then ["C09:port_more_than_one_reaction"%string] else []) ++
        (if actions_eqb core spec then [] else ["C09:port_reaction"%string])
  end.
