From Coq Require Import List Arith Bool.
From VF Require Import Lifecycle.Pool Lifecycle.Seq.
Import ListNotations.

Section SeqProofs.
  Variables (G PC OP : Type).
  Variable lkof : G -> lk.
  Variable cstep : G -> bool -> PC -> option OP -> option (G * PC * bool).
  Variable mstep : G -> option G.
  Variable is_idle : PC -> bool.
  Variable idle : PC.
  Variables (op_start op_stop op_startf op_startt : OP).
  Variable view : G -> list nat.
  Variable busy : G -> G.
  Variable alive : G -> bool.
  Variable serving : G -> nat.
  Variable sinv : G -> bool -> bool.
  Notation seq_step := (seq_step G PC OP lkof cstep mstep is_idle idle op_start op_stop op_startf op_startt view busy alive serving).
  Notation run_seq := (run_seq G PC OP lkof cstep mstep is_idle idle op_start op_stop op_startf op_startt view busy alive serving).

  Hypothesis one : forall gl r o, sinv gl r = true ->
    exists g', seq_step gl o = Some (g', spec_obs r o) /\ sinv g' (spec_next r o) = true.

  Theorem seq_follows_spec h : forall gl r, sinv gl r = true -> run_seq gl h = spec_run r h.
  Proof.
    induction h as [|o t IH]; intros gl r Hi; cbn [Seq.run_seq spec_run]; auto.
    destruct (one gl r o Hi) as (g' & E & Hi'). rewrite E. f_equal. apply IH. exact Hi'.
  Qed.
End SeqProofs.
