(* _init_request_path: the stored pieces recompose to the configured path, and the
   placeholder is found exactly where the pieces say.  Also the lookup part of _handle. *)
From Coq Require Import List NArith Bool Arith Lia.
From VF Require Import FileH.Str FileH.StrProofs FileH.Unquote FileH.PosixPath FileH.Handler FileH.Spec
  FileH.MatchProofs.
Import ListNotations.
Open Scope N_scope.

Definition eff_path (c : config) : str :=
  if eqb_str (c_request_path c) [SL] then [] else c_request_path c.

Definition lacks (ph : str) (sg : str) : Prop := contains ph sg = false.

Lemma scan_ph_found ph segs : forall idx i0 i,
  scan_ph ph segs idx (Some i0) = Ok (Some i) -> i = i0 /\ Forall (lacks ph) segs.
Proof.
  induction segs as [|sg r IH]; intros idx i0 i; cbn [scan_ph].
  - intros H; inversion H. auto.
  - destruct (contains ph sg) eqn:E; [discriminate|]. intros H. destruct (IH _ _ _ H). auto.
Qed.

Lemma scan_ph_none ph segs : forall idx i,
  scan_ph ph segs idx None = Ok (Some i) ->
  exists k, i = (idx + k)%nat /\ (k < length segs)%nat /\ contains ph (nth k segs []) = true /\
            Forall (lacks ph) (firstn k segs) /\ Forall (lacks ph) (skipn (S k) segs).
Proof.
  induction segs as [|sg r IH]; intros idx i; cbn [scan_ph]; [discriminate|].
  destruct (contains ph sg) eqn:E.
  - intros H. apply scan_ph_found in H as [-> Hr]. exists 0%nat. cbn. repeat split; auto; lia.
  - intros H. apply IH in H as [k [-> [Hk [Hc [Hf Hs]]]]]. exists (S k). cbn [length nth firstn skipn].
    repeat split; auto; try lia.
Qed.

Lemma nth_split_eq {A} (l : list A) d : forall k, (k < length l)%nat ->
  l = firstn k l ++ [nth k l d] ++ skipn (S k) l.
Proof.
  induction l as [|a l IH]; intros k Hk; [cbn in Hk; lia|].
  destruct k; [reflexivity|]. cbn [firstn nth skipn app length] in *. f_equal. apply IH. lia.
Qed.

Theorem init_decompose c r : init_request_path c = Ok r ->
  if extract r then
    eff_path c = pathA r ++ c_placeholder c ++ pathB r /\
    c_placeholder c <> [] /\
    Forall (lacks (c_placeholder c)) (pre_segs r ++ suf_segs r) /\
    find_sub (c_placeholder c) (ph_pre r ++ c_placeholder c ++ ph_suf r) = Some (length (ph_pre r)) /\
    lacks (c_placeholder c) (ph_suf r)
  else eff_path c = pathR r.
Proof.
  unfold init_request_path, eff_path.
  destruct (negb (starts_with [SL] (c_request_path c))); [discriminate|].
  set (rpath := if eqb_str (c_request_path c) [SL] then [] else c_request_path c).
  destruct (ends_with [SL] rpath); [discriminate|].
  destruct (is_nil (c_lookup_key c)).
  - intros H. injection H as Hr. subst r. cbn [extract]. unfold pathR. cbn [pre_segs]. symmetry. apply join_split.
  - destruct (scan_ph _ _ _ _) as [[i|]|] eqn:Esc; try discriminate.
    apply scan_ph_none in Esc as [k [Hi [Hk [Hc [Hf Hs]]]]]. cbn [plus] in Hi. subst i.
    destruct (c_placeholder c) as [|p0 ph0] eqn:Eph; [discriminate|].
    set (ph := p0 :: ph0) in *.
    set (seg := nth k (split_on SL rpath) []) in *.
    destruct (find_sub ph seg) as [j|] eqn:Ej; [|discriminate].
    destruct (contains ph (skipn (j + length ph) seg)) eqn:Ec; [discriminate|].
    intros H. injection H as Hr. subst r.
    unfold pathA, pathB. unfold extract, pre_segs, ph_pre, ph_suf, suf_segs. cbv beta iota. fold rpath.
    pose proof (find_sub_some _ _ _ Ej) as [Hseg _].
    assert (Hj : (j <= length seg)%nat).
    { destruct (Nat.le_gt_cases j (length seg)) as [|Hgt]; [assumption|].
      apply (f_equal (@length N)) in Hseg. rewrite !app_length, firstn_length in Hseg.
      unfold ph in Hseg. cbn [length] in Hseg. lia. }
    repeat split.
    + change (rpath = join SL (firstn k (split_on SL rpath) ++ [firstn j seg]) ++ ph ++
                      join SL (skipn (j + length ph) seg :: skipn (S k) (split_on SL rpath))).
      rewrite <- join_mid', <- Hseg.
      rewrite <- (join_split SL rpath) at 1. f_equal. apply (nth_split_eq _ []). exact Hk.
    + discriminate.
    + change (Forall (lacks ph) (firstn k (split_on SL rpath) ++ skipn (S k) (split_on SL rpath))).
      apply Forall_app. split; assumption.
    + change (find_sub ph (firstn j seg ++ ph ++ skipn (j + length ph) seg) = Some (length (firstn j seg))).
      rewrite <- Hseg. rewrite firstn_length. rewrite Nat.min_l by exact Hj. exact Ej.
    + exact Ec.
Qed.

(* ---------- lookup part of _handle ---------- *)
Section Lookup.
  Variable T : str -> option str.
  Variable FS : str -> str -> fsres.
  Variable GD : str -> gdres.

  (* a template is rendered: exactly one find_system call with (lookup_key, transformed value); on success
     exactly one get_data call with the id returned; the context has that id and that data, or neither *)
  Theorem lookup_exact_served c r x v tv log p tc :
    extract r = true -> raw_value x = Some v -> T v = Some tv -> eqb_str (c_lookup_key c) SYSTEM_ID = false ->
    handle_plan T FS GD c r x = (log, PServe p (Some tc)) ->
    match FS (c_lookup_key c) tv with
    | FFound i => log = [CFind (c_lookup_key c) tv; CGet i] /\ t_id tc = Some i /\ t_data tc = gd_data (GD i) /\
                  GD i <> GRaiseBase /\ (GD i = GRaise -> c_ds_ignore c = true)
    | FNone => log = [CFind (c_lookup_key c) tv] /\ c_continue c = true /\ t_id tc = None /\ t_data tc = None
    | FRaise => log = [CFind (c_lookup_key c) tv] /\ c_continue c = true /\ c_ds_ignore c = true /\
                t_id tc = None /\ t_data tc = None
    | FRaiseBase => False
    end.
  Proof.
    intros He Hv Ht Hk. unfold handle_plan, lookup. rewrite He, Hv, Ht, Hk.
    destruct (FS (c_lookup_key c) tv) as [i| | |]; cbn [andb negb];
      destruct (c_template c), (c_ds_ignore c), (c_continue c), (c_filemode c); cbn [app andb negb];
      try destruct (GD i); try destruct (extra_path x) as [e|]; try destruct (translate_path c e);
      intros H; inversion H; subst; cbn; repeat split; auto; try discriminate.
  Qed.

  (* lookup_key = ":system_id:": no find_system call, the transformed value is the id *)
  Theorem lookup_exact_system_id c r x v tv log p tc :
    extract r = true -> raw_value x = Some v -> T v = Some tv -> eqb_str (c_lookup_key c) SYSTEM_ID = true ->
    handle_plan T FS GD c r x = (log, PServe p (Some tc)) ->
    log = [CGet tv] /\ t_id tc = Some tv /\ t_data tc = gd_data (GD tv) /\ GD tv <> GRaiseBase.
  Proof.
    intros He Hv Ht Hk. unfold handle_plan, lookup. rewrite He, Hv, Ht, Hk.
    destruct (c_template c), (c_ds_ignore c), (c_continue c), (c_filemode c); cbn [app andb negb];
      try destruct (GD tv); try destruct (extra_path x) as [e|]; try destruct (translate_path c e);
      intros H; inversion H; subst; cbn; repeat split; auto; try discriminate.
  Qed.

  (* no system and lookup_no_result_action = not_found: not found, nothing rendered *)
  Theorem lookup_failure_not_found c r x v tv :
    extract r = true -> raw_value x = Some v -> T v = Some tv -> eqb_str (c_lookup_key c) SYSTEM_ID = false ->
    c_continue c = false -> FS (c_lookup_key c) tv = FNone ->
    handle_plan T FS GD c r x = ([CFind (c_lookup_key c) tv], PNotFound).
  Proof.
    intros He Hv Ht Hk Hc Hf. unfold handle_plan, lookup. rewrite He, Hv, Ht, Hk, Hf, Hc. reflexivity.
  Qed.

  (* the transformation chain rejects the value: the exception is the result, the data source is not used *)
  Theorem transform_raises_propagates c r x v :
    extract r = true -> raw_value x = Some v -> T v = None ->
    handle_plan T FS GD c r x = ([], PRaise).
  Proof. intros He Hv Ht. unfold handle_plan, lookup. rewrite He, Hv, Ht. reflexivity. Qed.

  (* an exception of the data source that is not derived from Exception is never swallowed, whatever
     data_source_error_action says; one that is derived from Exception is handled according to the options,
     whatever its class *)
  Theorem base_exception_propagates c r x v tv :
    extract r = true -> raw_value x = Some v -> T v = Some tv -> eqb_str (c_lookup_key c) SYSTEM_ID = false ->
    FS (c_lookup_key c) tv = FRaiseBase ->
    handle_plan T FS GD c r x = ([CFind (c_lookup_key c) tv], PRaise).
  Proof.
    intros He Hv Ht Hk Hf. unfold handle_plan, lookup. rewrite He, Hv, Ht, Hk, Hf. reflexivity.
  Qed.

  Theorem exception_ignored_continue c r x v tv :
    extract r = true -> raw_value x = Some v -> T v = Some tv -> eqb_str (c_lookup_key c) SYSTEM_ID = false ->
    FS (c_lookup_key c) tv = FRaise -> c_ds_ignore c = true -> c_continue c = true -> c_template c = true ->
    exists plan, handle_plan T FS GD c r x = ([CFind (c_lookup_key c) tv], plan) /\
      (plan = PNotFound \/ exists p, plan = PServe p (Some {| t_id := None; t_data := None |})).
  Proof.
    intros He Hv Ht Hk Hf Hi Hc Htm. unfold handle_plan, lookup. rewrite He, Hv, Ht, Hk, Hf, Hi, Hc, Htm.
    cbn [andb negb]. destruct (if c_filemode c then _ else _) as [f|]; eexists; split; try reflexivity; eauto.
  Qed.

  (* without lookup_key the data source is not used and the context is {request_info} alone *)
  Theorem no_lookup_no_calls c r x log p tc :
    extract r = false -> handle_plan T FS GD c r x = (log, PServe p (Some tc)) ->
    log = [] /\ t_id tc = None /\ t_data tc = None.
  Proof.
    intros He. unfold handle_plan, lookup. rewrite He. cbn [andb].
    destruct (c_template c), (c_filemode c); try destruct (extra_path x) as [e|]; try destruct (translate_path c e);
      intros H; inversion H; subst; cbn; auto.
  Qed.
End Lookup.
