From Coq Require Import ExtrOcamlBasic.
From Coq Require Extraction.
From VF Require Import Base.Sx C12.Entry.
Definition main := wrap entry.
Extraction "../ocaml/gen/c12_model.ml" main.
