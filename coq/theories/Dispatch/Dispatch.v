(* Model for C10: the ordered handler loop of vinegar/tftp/server.py:_process_read_request and
   vinegar/http/server.py:_delegate_request, the recovery of the TFTP destination address from
   IPV6_PKTINFO in TftpServer._run, the construction of HttpRequestInfo, and the request_info
   dictionaries that vinegar/request_handler/file.py hands to templates.
   Definitions only; proofs are in DispatchProofs.v. *)
From Coq Require Import List NArith ZArith Bool Arith.
Import ListNotations.

(* ---------- generic ordered dispatch ---------- *)
Section Dispatch.
  Variables U C G R : Type.      (* request name, handler context, arguments of handle, its result *)

  Record handler := { prepare : U -> C; can : U -> C -> bool; handle : G -> R }.

  (* how the server assembles the arguments of handle from the name and the context
     (client/server address, method, headers are fixed per request and closed over) *)
  Variable mk : U -> C -> G.

  Inductive ev := Prepare (i : nat) (u : U) | Can (i : nat) (u : U) (c : C) | Handle (i : nat) (g : G).
  Inductive reply := NotFound | Served (i : nat) (r : R).

  (* for request_handler in handlers: ctx = prepare_context(name); if can_handle(name, ctx): handle(...); return *)
  Fixpoint dispatch_from (i : nat) (hs : list handler) (u : U) : list ev * reply :=
    match hs with
    | [] => ([], NotFound)
    | h :: r =>
        let c := prepare h u in
        if can h u c then ([Prepare i u; Can i u c; Handle i (mk u c)], Served i (handle h (mk u c)))
        else let (l, rep) := dispatch_from (S i) r u in (Prepare i u :: Can i u c :: l, rep)
    end.
  Definition dispatch := dispatch_from 0.

  (* ---- specification vocabulary ---- *)
  Definition accepts (h : handler) (u : U) : bool := can h u (prepare h u).

  Fixpoint first_idx_from (i : nat) (hs : list handler) (u : U) : option nat :=
    match hs with
    | [] => None
    | h :: r => if accepts h u then Some i else first_idx_from (S i) r u
    end.
  Definition first_idx := first_idx_from 0.

  (* the two calls made on a handler that is merely asked *)
  Definition probe (i : nat) (h : handler) (u : U) : list ev := [Prepare i u; Can i u (prepare h u)].
  Fixpoint probes_from (i : nat) (hs : list handler) (u : U) : list ev :=
    match hs with
    | [] => []
    | h :: r => probe i h u ++ probes_from (S i) r u
    end.

  (* the log and reply the property prescribes, written with first_idx *)
  Definition spec_dispatch (hs : list handler) (u : U) : list ev * reply :=
    match first_idx hs u with
    | Some i =>
        match nth_error hs i with
        | Some h => (probes_from 0 (firstn i hs) u ++ [Prepare i u; Can i u (prepare h u); Handle i (mk u (prepare h u))],
                     Served i (handle h (mk u (prepare h u))))
        | None => ([], NotFound)
        end
    | None => (probes_from 0 hs u, NotFound)
    end.

  Definition is_handle (e : ev) : bool := match e with Handle _ _ => true | _ => false end.

  (* a server thread per request: requests are dispatched one after the other by the main loop
     (TFTP) or each in its own thread (HTTP); no state is carried from one request to the next *)
  Definition serve_all (hs : list handler) (reqs : list U) : list (list ev * reply) :=
    map (dispatch hs) reqs.
End Dispatch.

Arguments prepare {U C G R}. Arguments can {U C G R}. Arguments handle {U C G R}.
Arguments Build_handler {U C G R}.
Arguments Prepare {U C G}. Arguments Can {U C G}. Arguments Handle {U C G}.
Arguments NotFound {R}. Arguments Served {R}.
Arguments dispatch_from {U C G R}. Arguments dispatch {U C G R}.
Arguments accepts {U C G R}. Arguments first_idx_from {U C G R}. Arguments first_idx {U C G R}.
Arguments probe {U C G R}. Arguments probes_from {U C G R}. Arguments spec_dispatch {U C G R}. Arguments is_handle {U C G}.
Arguments serve_all {U C G R}.

(* ---------- addresses: Python tuples of str / int ---------- *)
Definition bytes := list N.
Inductive field := FS (s : bytes) | FI (z : Z).
Definition addr := list field.

(* one ancillary message of recvmsg: does (level, type) equal (IPPROTO_IPV6, IPV6_PKTINFO), and its data *)
Record cmsg := { cm_match : bool; cm_data : bytes }.

Section Ntop.
  Variable ntop : bytes -> bytes.           (* socket.inet_ntop(AF_INET6, .) *)

  (* req_dst_addr = getsockname(); if have_pktinfo: for each matching cmsg:
       req_dst_addr = (inet_ntop(cmsg_data[:16]), *req_dst_addr[k:])
     k = 1 now, k = 2 before fix 8c5a0ab *)
  Definition recover_dst (k : nat) (pktinfo : bool) (sockname : addr) (anc : list cmsg) : addr :=
    if pktinfo then
      fold_left (fun dst c => if cm_match c then FS (ntop (firstn 16 (cm_data c))) :: skipn k dst else dst)
                anc sockname
    else sockname.

  Fixpoint last_match (anc : list cmsg) : option cmsg :=
    match anc with
    | [] => None
    | c :: r => match last_match r with
                | Some c' => Some c'
                | None => if cm_match c then Some c else None
                end
    end.
End Ntop.

(* ---------- what handle receives ---------- *)
Definition hdr := (bytes * bytes)%type.
(* TFTP: handle(filename, client_address, server_address, context);
   HTTP: handle(HttpRequestInfo(client_address, headers, method, server_address, uri), rfile, context) *)
Record hargs (C : Type) := {
  a_uri : bytes; a_ctx : C; a_client : addr; a_server : addr;
  a_method : bytes; a_headers : list hdr }.        (* method/headers empty for TFTP *)
Arguments a_uri {C}. Arguments a_ctx {C}. Arguments a_client {C}. Arguments a_server {C}.
Arguments a_method {C}. Arguments a_headers {C}. Arguments Build_hargs {C}.

(* bytes.decode("ascii", "ignore") *)
Definition ascii_ignore (s : bytes) : bytes := filter (fun c => (c <? 128)%N) s.

Inductive outcome (C R : Type) :=
| Rejected                                   (* TFTP: mail mode -> ILLEGAL_OPERATION; HTTP: bad path -> 400 *)
| Dispatched (log : list (ev bytes C (hargs C))) (rep : reply R).
Arguments Rejected {C R}. Arguments Dispatched {C R}.

Section Servers.
  Variables C R : Type.
  Variable ntop : bytes -> bytes.
  Definition H := handler bytes C (hargs C) R.

  (* TftpServer._run + _process_read_request for a well-formed read request *)
  Definition tftp_serve (k : nat) (pktinfo : bool) (sockname : addr) (anc : list cmsg) (client : addr)
             (hs : list H) (raw_name : bytes) (mail : bool) : outcome C R :=
    let dst := recover_dst ntop k pktinfo sockname anc in
    let name := ascii_ignore raw_name in
    if mail then Rejected
    else let (l, r) := dispatch (fun u c => {| a_uri := u; a_ctx := c; a_client := client; a_server := dst;
                                                a_method := []; a_headers := [] |}) hs name in
         Dispatched l r.

  (* the connection as the request handler object sees it *)
  Record conn := { c_peer : addr; c_local : addr; c_method : bytes; c_headers : list hdr; c_path : bytes }.

  Definition bad_path (path : bytes) : bool :=
    negb (match path with 47%N :: _ => true | _ => false end) || existsb (N.eqb 0) path.

  (* _delegate_request up to the call of handle *)
  Definition http_serve (cn : conn) (hs : list H) : outcome C R :=
    if bad_path (c_path cn) then Rejected
    else let (l, r) := dispatch (fun u c => {| a_uri := u; a_ctx := c; a_client := c_peer cn; a_server := c_local cn;
                                                a_method := c_method cn; a_headers := c_headers cn |}) hs (c_path cn) in
         Dispatched l r.
End Servers.
Arguments tftp_serve {C R}. Arguments http_serve {C R}.

(* ---------- request_info given to templates by request_handler/file.py ---------- *)
Definition lower (c : N) : N := if ((65 <=? c) && (c <=? 90))%N then (c + 32)%N else c.
(* TftpFileRequestHandler._rewrite_filename_if_needed *)
Definition rewrite_filename (f : bytes) : bytes :=
  match f with
  | 47%N :: _ => f
  | a :: b :: c :: _ => if ((a =? 37) && (b =? 50) && (lower c =? 102))%N then f else 47%N :: f
  | _ => 47%N :: f
  end.

Inductive ival := VAddr (a : addr) | VStr (s : bytes) | VHdrs (h : list hdr).
Definition K_client : bytes := [99;108;105;101;110;116;95;97;100;100;114;101;115;115]%N.
Definition K_server : bytes := [115;101;114;118;101;114;95;97;100;100;114;101;115;115]%N.
Definition K_uri : bytes := [117;114;105]%N.
Definition K_method : bytes := [109;101;116;104;111;100]%N.
Definition K_headers : bytes := [104;101;97;100;101;114;115]%N.

Definition tftp_file_request_info {C} (g : hargs C) : list (bytes * ival) :=
  [(K_client, VAddr (a_client g)); (K_server, VAddr (a_server g)); (K_uri, VStr (rewrite_filename (a_uri g)))].
(* dataclasses.asdict(request_info): fields in declaration order of the dataclass annotations *)
Definition http_file_request_info {C} (g : hargs C) : list (bytes * ival) :=
  [(K_client, VAddr (a_client g)); (K_headers, VHdrs (a_headers g)); (K_method, VStr (a_method g));
   (K_server, VAddr (a_server g)); (K_uri, VStr (a_uri g))].
