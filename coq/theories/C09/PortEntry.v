(* C09 (request-port part): sx entry.  Input (case impl_obs) with
   case = (datagram (handler ...) source fault), handler = (0 b) constant | (1 prefix) | (2 exact name),
          source = 1 ordinary requester | 0 UDP source port 0 | 2 a requester sendto() cannot reach (OSError
          for a reason outside the datagram); port 0 (sendto() to it would fail with EINVAL; the
          current code drops such datagrams: defect D22, repaired by 7078de3),
          fault = () none | (station index class): station 0 log statement / socket_address_to_str,
          1 prepare_context of handler [index], 2 can_handle of handler [index], 3 handle lookup,
          4 Thread.start; class 0 RuntimeError 1 MemoryError 2 KeyError 3 custom 4 OSError 5 ValueError;
   obs  = list of (5 code) ERROR sent to the requester | (1 filename mode options handler_index)
          transfer started | (4) exception logged | (99 raw) anything else that was sent |
          (7) the liveness probe that followed was not answered.
   Output (model_obs failed_on_model failed_on_impl () covered): covered = 1 iff the case is one for which
   C09_port_covered_cases says that the checker accepts the model (now: every case). *)
From Coq Require Import String.
From Coq Require Import List NArith ZArith Bool.
From VF Require Import Base.Sx Tftp.Codec Tftp.Run Tftp.RequestPort.
Import ListNotations.

Definition de_handler (x : sx) : option handler :=
  match x with
  | L [I 0%Z; b] => obind (asBool b) (fun b => Some (HConst b))
  | L [I 1%Z; B p] => Some (HPrefix p)
  | L [I 2%Z; B s] => Some (HExact s)
  | _ => None
  end.

Definition sx_action (a : action) : sx :=
  match a with
  | ASendError c => L [I 5; sxN c]
  | AStart fn m o i => L [I 1; B fn; sxN (mode_num m); L (map sx_pair o); sxNat i]
  | ALogExc => L [I 4]
  | ABad raw => L [I 99; B raw]
  | ADead => L [I 7]
  end.

Definition de_action (x : sx) : option action :=
  match x with
  | L [I 5%Z; c] => obind (asN c) (fun c => Some (ASendError c))
  | L [I 1%Z; B fn; I m; o; i] =>
      obind (asListOf de_pair o) (fun o => obind (asNat i) (fun i =>
      match m with
      | 1%Z => Some (AStart fn Netascii o i)
      | 2%Z => Some (AStart fn Octet o i)
      | 3%Z => Some (AStart fn Mail o i)
      | _ => None
      end))
  | L [I 4%Z] => Some ALogExc
  | L [I 99%Z; B raw] => Some (ABad raw)
  | L [I 7%Z] => Some ADead
  | _ => None
  end.

Definition de_fault (x : sx) : option fault :=
  match x with
  | L [] => Some None
  | L [I st; i; I cls] =>
      obind (asNat i) (fun i =>
      let e := if (cls =? 4)%Z then OSError else if (cls =? 5)%Z then ValueError else Injected (Z.to_N cls) in
      match st with
      | 0%Z => Some (Some (SLog, e))
      | 1%Z => Some (Some (SPrepare i, e))
      | 2%Z => Some (Some (SCanHandle i, e))
      | 3%Z => Some (Some (SHandleLookup, e))
      | 4%Z => Some (Some (SThreadStart, e))
      | _ => None
      end)
  | _ => None
  end.

Definition port_entry (x : sx) : sx :=
  match x with
  | L [L [B d; hs; I src; fx]; ix] =>
      match asListOf de_handler hs, (if (0 <=? src)%Z && (src <=? 2)%Z then Some src else None), de_fault fx,
            asListOf de_action ix with
      | Some hs, Some src, Some f, Some io =>
          (* one iteration of the serve loop: recvfrom truncates the datagram to 512 bytes *)
          let d' := firstn MAX_REQUEST_PACKET_SIZE d in
          let port0 := (src =? 0)%Z in
          let sendable := (src =? 1)%Z in
          let m := match run_loop_v pcurrent catch_all hs [(f, (port0, sendable), d)] with [m] => m | _ => [] end in
          (* covered = 1: C09_port_covered_cases holds for every case *)
          L [L (map sx_action m); L (map sxS (port_check f port0 sendable hs d' m));
             L (map sxS (port_check f port0 sendable hs d' io)); L []; I 1%Z]
      | None, _, _, _ => sxS "bad-case"
      | _, None, _, _ => sxS "bad-case"
      | _, _, None, _ => sxS "bad-case"
      | _, _, _, None => sxS "bad-obs"
      end
  | _ => sxS "bad-input"
  end.
