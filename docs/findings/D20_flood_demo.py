#!/usr/bin/env python3
"""
D20 (C02): a stream of ignored datagrams postpones retransmission and the end of a TFTP transfer.

Real sockets, real vinegar.tftp.server.TftpServer on ::1, default_timeout=1 s, max_retries=1, a one-block file.
The client receives DATA 1 and then says nothing; N other processes send stale ACKs (block 7) to the
transfer's port as fast as they can for D seconds.  The property bounds the transfer by
packets x (1 + max_retries) x timeout = 2 s: DATA 1 again at 1.0 s, the end at 2.0 s.  Before the repair,
_set_socket_timeout answered "no time left" with a 1 ms socket time-out and received again, so as long as
datagrams kept arriving less than 1 ms apart nothing timed out: the retransmission came only when the flood
stopped (D s), the end one time-out later.

usage: D20_flood_demo.py [repo] [N=3] [D=6]     exit 0 = within the bound, exit 1 = postponed
"""
import io
import socket
import subprocess
import sys
import time

sys.path.insert(0, sys.argv[1] if len(sys.argv) > 1 else "/repo")
from vinegar.tftp.server import TftpServer, TftpRequestHandler  # noqa: E402

FLOOD = r'''
import socket, sys, time
s = socket.socket(socket.AF_INET6, socket.SOCK_DGRAM)
tid = ("::1", int(sys.argv[1])); end = time.monotonic() + float(sys.argv[2])
while time.monotonic() < end:
    for _ in range(200):
        try: s.sendto(b"\0\4\0\7", tid)
        except OSError: pass
'''


class H(TftpRequestHandler):
    def can_handle(self, filename, context):
        return True

    def handle(self, filename, client_address, server_address, context):
        return io.BytesIO(b"x" * 100)


def main(nproc, dur):
    srv = TftpServer([H()], bind_address="::1", bind_port=0, default_timeout=1, max_retries=1)
    srv.start()
    try:
        port = srv._socket.getsockname()[1]
        c = socket.socket(socket.AF_INET6, socket.SOCK_DGRAM)
        c.bind(("::1", 0))
        c.settimeout(0.2)
        c.sendto(b"\0\1f\0octet\0", ("::1", port))
        d, tid = c.recvfrom(2000)
        t0 = time.monotonic()
        assert d[:4] == b"\0\3\0\1", d[:4]
        ps = [subprocess.Popen([sys.executable, "-c", FLOOD, str(tid[1]), str(dur)]) for _ in range(nproc)]
        got = []
        while time.monotonic() - t0 < dur + 3:
            try:
                d2, _a = c.recvfrom(2000)
                if d2[:2] == b"\0\3":
                    got.append(round(time.monotonic() - t0, 2))
            except socket.timeout:
                pass
        for p in ps:
            p.wait()
        ok = len(got) == 1 and got[0] < 1.5
        print("%s: %d flooding processes for %.0f s; DATA 1 retransmitted at %s s (the property: once, at 1.0 s)"
              % ("OK" if ok else "POSTPONED", nproc, dur, got))
        return 0 if ok else 1
    finally:
        srv.stop()


if __name__ == "__main__":
    raise SystemExit(main(int(sys.argv[2]) if len(sys.argv) > 2 else 3, float(sys.argv[3]) if len(sys.argv) > 3 else 6))
