From Coq Require Import ExtrOcamlBasic.
From Coq Require Extraction.
From VF Require Import Base.Sx C16.Entry.
Definition main := wrap entry.
Extraction "../ocaml/gen/c16_model.ml" main.
