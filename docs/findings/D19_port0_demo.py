#!/usr/bin/env python3
"""
D19 (C09): one UDP datagram with source port 0, sent to the port of a running transfer, aborts that transfer.

Real sockets, real vinegar.tftp.server.TftpServer on ::1 (needs CAP_NET_RAW for the one forged datagram).
Linux delivers UDP datagrams whose source port is 0, but sendto() to port 0 fails with EINVAL, so the
"unknown transfer ID" answer raised OSError inside _TftpReadRequest._receive; the transfer took the
internal-error path (logger.exception + ERROR 0 to the requesting client) although the client did nothing.

usage: D19_port0_demo.py [repo]      exit 0 = the transfer completes, exit 1 = the transfer was aborted
"""
import io
import logging
import socket
import struct
import sys

sys.path.insert(0, sys.argv[1] if len(sys.argv) > 1 else "/repo")
from vinegar.tftp.server import TftpServer, TftpRequestHandler  # noqa: E402


class H(TftpRequestHandler):
    def can_handle(self, filename, context):
        return True

    def handle(self, filename, client_address, server_address, context):
        return io.BytesIO(bytes(range(256)) * 4)          # 1024 bytes: blocks of 512, 512, 0


def forged(dst_port, payload):
    """UDP datagram ::1:0 -> ::1:dst_port through a raw socket"""
    ln = 8 + len(payload)
    a = socket.inet_pton(socket.AF_INET6, "::1")

    def csum(b):
        if len(b) % 2:
            b += b"\0"
        t = sum(struct.unpack("!%dH" % (len(b) // 2), b))
        while t >> 16:
            t = (t & 0xffff) + (t >> 16)
        return (~t) & 0xffff
    hdr = struct.pack("!HHHH", 0, dst_port, ln, 0)
    c = csum(a + a + struct.pack("!I3xB", ln, 17) + hdr + payload) or 0xffff
    r = socket.socket(socket.AF_INET6, socket.SOCK_RAW, socket.IPPROTO_UDP)
    r.sendto(struct.pack("!HHHH", 0, dst_port, ln, c) + payload, ("::1", 0))
    r.close()


def main():
    records = []
    hd = logging.Handler()
    hd.emit = lambda rec: records.append(rec)
    logging.getLogger("vinegar.tftp.server").addHandler(hd)
    srv = TftpServer([H()], bind_address="::1", bind_port=0)
    srv.start()
    try:
        port = srv._socket.getsockname()[1]
        c = socket.socket(socket.AF_INET6, socket.SOCK_DGRAM)
        c.settimeout(5)
        c.sendto(b"\0\1f\0octet\0", ("::1", port))
        d, tid = c.recvfrom(2000)
        assert d[:4] == b"\0\3\0\1", d[:4]
        forged(tid[1], b"\0\4\0\1")                        # the stray datagram from source port 0
        import time
        time.sleep(0.3)
        c.sendto(b"\0\4\0\1", tid)
        d2, _ = c.recvfrom(2000)
        exc = [r for r in records if r.exc_info]
        if d2[:4] == b"\0\3\0\2" and not exc:
            print("OK: block 2 received, nothing logged with a traceback")
            return 0
        print("ABORTED: client got", d2[:40], "; exceptions logged:", [r.exc_info[0].__name__ for r in exc])
        return 1
    finally:
        srv.stop()


if __name__ == "__main__":
    raise SystemExit(main())
