(* YamlTargetSource.get_data over the REAL compile_data model of C12 (Yaml/Target.v, Yaml/Cache.v):
   threads of calls on one source whose item cache is any cache honouring C12's three-clause contract.
     get_data = acquire; old := cache[sys]; release;          (SynchronizedCache.__getitem__)
                compile_data on the snapshot the call assembles (unlocked, per-call compiler object);
                acquire; cache[sys] := new item; release       (SynchronizedCache.__setitem__)
   The snapshot k_tree of a call is whatever the call read, file by file, while the files changed
   (Instances.v / yaml_concurrent say which mixes can arise); here it is a parameter of the call, so the
   theorem below holds for EVERY mix.  Model and proof in one file: the proof is a direct instance of the
   outline rule with C12's lemmas. *)
From Coq Require Import List NArith ZArith Bool Arith Lia.
From VF Require Import Conc.Machine Conc.MachineProofs.
From VF Require Import PyVal.Val Merge.Merge Yaml.Target Yaml.Cache Yaml.Validity Yaml.HistoryProofs.
Import ListNotations.

Section YamlReal.
  Variable V : variants.
  Variable C : config.
  Variable H : str -> str.
  Variable yload : str -> res val.
  Variable mo : str -> str -> str -> res bool.
  Hypothesis V_tag : tag_after V = true.
  Hypothesis V_norerender : rerender V = false.
  Hypothesis yload_wf : forall text v, yload text = Ok v -> wf v = true.
  Hypothesis H_inj : forall a b, H a = H b -> a = b.
  Hypothesis H_nobar : forall s, ~ In BAR (H s).
  Hypothesis H_noplus : forall s, ~ In PLUS (H s).
  Hypothesis H_nonempty : forall s, H s <> [].

  (* any cache honouring the contract of C12 *)
  Variable S : Type.
  Variable cget : str -> S -> option item * S.
  Variable cset : str -> item -> S -> S.
  Variable stored : S -> str -> item -> Prop.
  Hypothesis get_sound : forall k st it st', cget k st = (Some it, st') -> stored st k it.
  Hypothesis get_keeps : forall k st o st' k' it, cget k st = (o, st') -> stored st' k' it -> stored st k' it.
  Hypothesis set_keeps : forall k v st k' it, stored (cset k v st) k' it -> (k' = k /\ it = v) \/ stored st k' it.

  Record rls := { kc : call; oldi : item; newi : option item; outr : res (dict * str) }.
  Definition r_begin (k : call) : rls := {| kc := k; oldi := empty_item; newi := None; outr := Err RuntimeError |}.
  Definition r_get (l : rls) (st : S) (_ : unit) : rls * S :=
    let (old, st1) := cget (k_sys (kc l)) st in
    ({| kc := kc l; oldi := match old with Some it => it | None => empty_item end; newi := None; outr := outr l |}, st1).
  Definition r_compile (l : rls) (st : S) (_ : unit) : rls * S :=
    match compile_call V C H yload (kc l) (oldi l) with
    | Ok (d, v, o) => ({| kc := kc l; oldi := oldi l; newi := o; outr := Ok (d, v) |}, st)
    | Err e => ({| kc := kc l; oldi := oldi l; newi := None; outr := Err e |}, st)
    end.
  Definition r_set (l : rls) (st : S) (_ : unit) : rls * S :=
    (l, match newi l with Some new => cset (k_sys (kc l)) new st | None => st end).
  Definition r_prog (k : call) : list (mstep S unit rls) :=
    [Acq; Step r_get; Rel; Step r_compile; Acq; Step r_set; Rel].
  Definition r_ret (l : rls) : call * res (dict * str) := (kc l, outr l).
  Definition r_env (_ : unit) (w : unit) : unit := w.
  Definition k0 : call := {| k_sys := []; k_pv := []; k_tree := []; k_render := fun _ => Err RuntimeError; k_match := fun _ => Err RuntimeError |}.

  Notation item_cv := (item_cvalid V C H yload mo).
  Notation cvalid := (cache_valid V C H yload mo S stored).
  Notation spec := (spec_full_of_call V C H yload).
  Notation faithful := (faithful mo).

  Definition Qr (l : rls) (p : list (mstep S unit rls)) : Prop :=
    faithful (kc l) /\
    ( p = r_prog (kc l)
   \/ p = [Step r_get; Rel; Step r_compile; Acq; Step r_set; Rel]
   \/ (item_cv (k_sys (kc l)) (oldi l) /\ (p = [Rel; Step r_compile; Acq; Step r_set; Rel] \/ p = [Step r_compile; Acq; Step r_set; Rel]))
   \/ (outr l = spec (kc l) /\ match newi l with Some new => item_cv (k_sys (kc l)) new | None => True end /\
       (p = [Acq; Step r_set; Rel] \/ p = [Step r_set; Rel]))
   \/ (outr l = spec (kc l) /\ (p = [Rel] \/ p = [])) ).

  Definition Rreal (r : call * res (dict * str)) : Prop := snd r = spec (fst r).

  Lemma qr_begin k : faithful k -> Qr (r_begin k) (r_prog k).
  Proof. intros Hf. split; [exact Hf|]. left. reflexivity. Qed.

  Lemma qr_acq l rest : Qr l (Acq :: rest) -> Qr l rest.
  Proof.
    intros [Hf H0]. split; [exact Hf|]. unfold r_prog in H0.
    destruct H0 as [E|[E|[(Hi & [E|E])|[(Ho & Hn & [E|E])|(Ho & [E|E])]]]]; try discriminate.
    - injection E; intros; subst. right. left. reflexivity.
    - injection E; intros; subst. right. right. right. left. auto.
  Qed.

  Lemma qr_rel l rest : Qr l (Rel :: rest) -> Qr l rest.
  Proof.
    intros [Hf H0]. split; [exact Hf|]. unfold r_prog in H0.
    destruct H0 as [E|[E|[(Hi & [E|E])|[(Ho & Hn & [E|E])|(Ho & [E|E])]]]]; try discriminate.
    - injection E; intros; subst. right. right. left. auto.
    - injection E; intros; subst. right. right. right. right. auto.
  Qed.

  Lemma qr_step f l rest o w l' o' : cvalid o -> True -> Qr l (Step f :: rest) -> f l o w = (l', o') ->
    cvalid o' /\ Qr l' rest.
  Proof.
    intros Hc _ [Hf H0] Ef. unfold r_prog in H0.
    destruct H0 as [E|[E|[(Hi & [E|E])|[(Ho & Hn & [E|E])|(Ho & [E|E])]]]]; try discriminate.
    - (* get-item *)
      injection E; intros; subst. unfold r_get in Ef. destruct (cget (k_sys (kc l)) o) as [old st1] eqn:Eg.
      injection Ef as <- <-.
      assert (Hc1 : cvalid st1) by (intros k' it Hs; apply Hc; eapply get_keeps; eauto).
      split; [exact Hc1|]. split; [exact Hf|]. cbn [kc oldi]. right. right. left. split; [|left; reflexivity].
      destruct old as [it|]; [|apply item_cvalid_empty]. apply Hc. eapply get_sound; eauto.
    - (* compile_data *)
      injection E; intros; subst. unfold r_compile in Ef.
      pose proof (compile_call_valid V C H yload mo V_tag V_norerender yload_wf H_inj H_nobar H_noplus H_nonempty
                    (kc l) (oldi l) Hf Hi) as Pc.
      destruct (compile_call V C H yload (kc l) (oldi l)) as [[[d v] on]|e]; injection Ef as <- <-;
        (split; [exact Hc|]); (split; [exact Hf|]); cbn [kc oldi newi outr]; right; right; right; left.
      + destruct Pc as (E1 & _ & E3). repeat split; auto.
      + repeat split; auto.
    - (* set-item *)
      injection E; intros; subst. unfold r_set in Ef. injection Ef as <- <-. split.
      + destruct (newi l) as [new|]; [|exact Hc].
        intros k' it Hs. apply set_keeps in Hs as [[-> ->]|Hs]; [exact Hn | now apply Hc].
      + split; [exact Hf|]. right. right. right. right. auto.
  Qed.

  Lemma qr_end l : Qr l [] -> Rreal (r_ret l).
  Proof.
    intros [Hf H0]. unfold r_prog in H0.
    destruct H0 as [E|[E|[(Hi & [E|E])|[(Ho & Hn & [E|E])|(Ho & [E|E])]]]]; try discriminate.
    exact Ho.
  Qed.

  (* yaml_concurrent over the real compile_data: any number of threads, any faithful calls with ANY
     snapshots, any schedule: the cache stays content-valid (C12's state-independent item validity) and
     every call returns spec_full_of_call of the snapshot it read *)
  Theorem yaml_real_concurrent st0 (calls : list (list call)) (sch : list (choice unit)) :
    cvalid st0 -> Forall (Forall faithful) calls ->
    let s := run S unit rls call (call * res (dict * str)) unit r_begin r_prog r_ret r_env
                 (init S unit rls call (call * res (dict * str)) (r_begin k0) st0 tt calls) sch in
    cvalid (obj s) /\ forall t, In t (threads s) -> Forall Rreal (Machine.res t).
  Proof.
    intros Hc Hf s.
    pose proof (oinv_run S unit rls call (call * res (dict * str)) unit r_begin r_prog r_ret r_env
                  cvalid (fun _ => True) Qr Rreal faithful qr_begin qr_acq qr_rel qr_step qr_end sch _
                  (oinv_init S unit rls call (call * res (dict * str)) cvalid Qr Rreal faithful (r_begin k0) st0 tt calls Hc Hf)
                  (fun p q _ => I)) as [Ho Ht].
    split; [exact Ho|]. intros t Hin. destruct (Ht t Hin) as (_ & Hr & _). exact Hr.
  Qed.
End YamlReal.
