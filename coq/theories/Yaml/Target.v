(* Model of vinegar/data_source/yaml_target.py: _DataCompiler (compile_data, _process_top,
   _process_data_files, _process_data_file, _process_data_file_content, _resolve_relative_include,
   _render) with its per-system cache item, and the cache-free specification (expand_spec,
   get_data_spec).  Definitions only.

   Names are lists of segments (the code's dotted strings split at "."); paths are lists of
   components below root_dir.  The snapshot of the directory tree, the template engine, the YAML
   parser, the target matcher and the hash are Section variables. *)
From Coq Require Import List NArith ZArith Bool Arith.
From VF Require Import PyVal.Val Merge.Merge.
Import ListNotations.

Definition name := list str.
Definition path := list str.
(* what the calls on a path do during one get_data call: nothing there; a directory; a regular file with
   this text; [Broken]: os.stat fails with an OSError other than ENOENT/ENOTDIR (EIO, EACCES, ESTALE ...), so
   Path.exists() raises; [Unreadable]: stat succeeds and says regular file, but open/read fails *)
Inductive node := NoEnt | Dir | File (text : str) | Broken | Unreadable.
Definition fstree := list (path * node).

Definition name_eqb (a b : name) : bool := list_eqb str_eqb a b.
Definition fs_kind (t : fstree) (p : path) : node :=
  match find (fun e => name_eqb p (fst e)) t with Some e => snd e | None => NoEnt end.

Definition DOT : N := 46.
Definition SLASH : N := 47.
Definition PLUS : N := 43.
Definition s_include : str := [105; 110; 99; 108; 117; 100; 101]%N.
Definition s_init : str := [105; 110; 105; 116]%N.
Definition s_top : str := [116; 111; 112]%N.
Definition s_topfile : str := [116; 111; 112; 32; 102; 105; 108; 101]%N.      (* "top file" *)
Definition INCLUDE : val := VStr s_include.

(* str.split(".") *)
Fixpoint split_dots (s : str) : list str :=
  match s with
  | [] => [[]]
  | c :: r =>
      if (c =? DOT)%N then [] :: split_dots r
      else match split_dots r with h :: t => (c :: h) :: t | [] => [[c]] end
  end.

Definition is_nil {A} (l : list A) : bool := match l with [] => true | _ => false end.

(* Python truth value *)
Definition truthy (v : val) : bool :=
  match v with
  | VNone => false
  | VBool b => b
  | VInt z => negb (z =? 0)%Z
  | VStr s | VBytes s => negb (is_nil s)
  | VList l | VTuple l | VSet l => negb (is_nil l)
  | VDict d => negb (is_nil d)
  | VOpaque _ => true
  end.

(* for x in v *)
Definition iter_val (v : val) : res (list val) :=
  match v with
  | VList l | VTuple l | VSet l => Ok l
  | VStr s => Ok (map (fun c => VStr [c]) s)
  | VBytes s => Ok (map (fun c => VInt (Z.of_N c)) s)
  | VDict d => Ok (keys d)
  | _ => Err TypeError
  end.

Fixpoint map_res {A B} (f : A -> res B) (l : list A) : res (list B) :=
  match l with
  | [] => Ok []
  | a :: r => bind (f a) (fun b => bind (map_res f r) (fun r' => Ok (b :: r')))
  end.

Definition wrap_rt {A} (r : res A) : res A :=        (* except Exception: raise RuntimeError *)
  match r with Ok a => Ok a | Err _ => Err RuntimeError end.

(* ------------------------------------------------------------------ _process_data_file_content *)
Definition split3 := (option dict * option val * option dict)%type.

Fixpoint split_loop (d : dict) (before_include : bool) (pre : dict) (inc : option val) (post : dict)
  : dict * option val * dict :=
  match d with
  | [] => (pre, inc, post)
  | (k, v) :: r =>
      if py_eq k INCLUDE then split_loop r false pre (Some v) post
      else if before_include then split_loop r true (pre ++ [(k, v)]) inc post
      else split_loop r false pre inc (post ++ [(k, v)])
  end.

Definition split_code (d : dict) : split3 :=
  if negb (has INCLUDE d) then (Some d, None, None)
  else match d with
       | (k, _) :: _ =>
           if py_eq k INCLUDE then (None, lookup INCLUDE d, Some (dict_del INCLUDE d))
           else match split_loop d true [] None [] with (pre, inc, post) => (Some pre, inc, Some post) end
       | [] => (Some d, None, None)
       end.

(* the documentation's reading: items before the include key, its value, items after *)
Fixpoint before_include (d : dict) : dict :=
  match d with
  | [] => []
  | (k, v) :: r => if py_eq k INCLUDE then [] else (k, v) :: before_include r
  end.
Fixpoint from_include (d : dict) : option (val * dict) :=
  match d with
  | [] => None
  | (k, v) :: r => if py_eq k INCLUDE then Some (v, r) else from_include r
  end.
Definition split_spec (d : dict) : dict * option val * dict :=
  match from_include d with
  | None => (d, None, [])
  | Some (v, r) => (before_include d, Some v, r)
  end.
Definition norm3 (s : split3) : dict * option val * dict :=
  match s with (a, i, b) => (match a with Some x => x | None => [] end, i, match b with Some x => x | None => [] end) end.

(* ------------------------------------------------------------------ _resolve_relative_include *)
Fixpoint strip_dots (inc : list str) (parent : name) : res (list str * name) :=
  match inc with
  | [] :: r => match parent with [] => Err RuntimeError | _ => strip_dots r (removelast parent) end
  | _ => Ok (inc, parent)
  end.

Definition resolve_rel (parent : name) (inc : val) : res name :=
  if negb (truthy inc) then Err RuntimeError               (* "must not be empty" *)
  else match inc with
       | VStr s =>
           match s with
           | c :: _ =>
               if (c =? DOT)%N then
                 bind (strip_dots (split_dots s) parent) (fun rp =>
                   match fst rp with
                   | [] => Err RuntimeError               (* only dots *)
                   | _ => Ok (snd rp ++ fst rp)
                   end)
               else Ok (split_dots s)
           | [] => Err RuntimeError
           end
       | VBytes _ => Err TypeError                         (* bytes.startswith(str) *)
       | _ => Err (OtherError 0)                           (* AttributeError: no startswith *)
       end.

(* ------------------------------------------------------------------ variants and configuration *)
Record variants := {
  tag_after : bool;       (* e62fc38: the piece after an include block has version file_version + "+" *)
  rerender : bool;        (* before fe12c42: a file already processed in this run was rendered again *)
  marker_compared : bool; (* before dfdd8ff (D25): file names were compared with the marker "top file" that starts parent_files *)
  empty_raises : bool     (* before ec4c1d7: unpacking the zip of an empty piece list raised ValueError *)
}.
(* the documented semantics never compares a file name with the marker: the specification that judges observations
   is the one of the variant with this flag off (the other flags do not influence the specified data) *)
Definition no_marker (V : variants) : variants :=
  {| tag_after := tag_after V; rerender := rerender V; marker_compared := false; empty_raises := empty_raises V |}.
Definition current_variants : variants :=
  {| tag_after := true; rerender := false; marker_compared := false; empty_raises := false |}.

Record config := { allow_empty_top : bool; cfg_ml : bool; cfg_ms : bool; engine_on : bool; suffix : str }.

Definition piece := (dict * str)%type.                    (* data item and its version *)
Definition entry := (split3 * str)%type.                  (* _CachedData of a data file *)
Definition files := list (name * entry).
Definition flookup (n : name) (l : files) : option entry :=
  match find (fun e => name_eqb n (fst e)) l with Some e => Some (snd e) | None => None end.
Definition top_entry := (option (list val) * str)%type.
Record item := { i_top : option top_entry; i_files : files; i_result : option (dict * str) }.
Definition empty_item : item := {| i_top := None; i_files := []; i_result := None |}.

Section Compiler.
  Variable V : variants.
  Variable C : config.
  Variable H : str -> str.                    (* version_for_str *)
  Variable render_o : str -> res str.         (* template engine on the text of a file, for this call's context *)
  Variable yload : str -> res val.            (* yaml.safe_load *)
  Variable matches : str -> res bool.         (* system_matcher.match for this call's id and preceding data *)
  Variable t : fstree.                        (* the directory tree during this call *)
  Variable pv : str.                          (* preceding_data_version *)

  (* ---- name -> (name for include resolution, path) ---- *)
  Definition seg_ok (s : str) : bool := negb (is_nil s) && negb (existsb (N.eqb SLASH) s).
  Definition resolve (n : name) : res (name * path) :=
    if forallb seg_ok n && negb (is_nil n) then
      let py := removelast n ++ [last n [] ++ suffix C] in
      match fs_kind t py with
      | File _ | Unreadable => Ok (n, py)
      | Broken => Err OSError                (* exists() re-raises: no silent fall-back to init *)
      | NoEnt | Dir =>
          let pi := n ++ [s_init ++ suffix C] in
          match fs_kind t pi with
          | NoEnt => Err FileNotFoundError
          | Broken => Err OSError
          | _ => Ok (n ++ [s_init], pi)
          end
      end
    else Err (OtherError 1).                  (* names with empty segments or "/" are outside the model *)

  (* first loop of _process_data_files: type check and resolution of every entry, in order *)
  Fixpoint resolve_all (fl : list (res name)) : res (list (name * name * path)) :=
    match fl with
    | [] => Ok []
    | rn :: r =>
        bind rn (fun n => bind (resolve n) (fun q => bind (resolve_all r) (fun r' => Ok ((n, fst q, snd q) :: r'))))
    end.

  (* ---- _render, and what a data file yields ---- *)
  Definition render_path (p : path) : res str :=
    match fs_kind t p with
    | File text => if engine_on C then render_o text else Ok text
    | _ => Err OSError
    end.
  Definition parse_file (text : str) : res entry :=
    bind (wrap_rt (yload text)) (fun data =>
      match data with VDict d => Ok (split_code d, H text) | _ => Err TypeError end).
  Definition load_file (p : path) : res entry := bind (wrap_rt (render_path p)) parse_file.

  (* the try block of _process_data_file with both cache levels *)
  Definition get_entry (oc nc : files) (n : name) (p : path) : res entry :=
    match flookup n nc with
    | Some e =>
        if rerender V then
          bind (wrap_rt (render_path p)) (fun text => if str_eqb (H text) (snd e) then Ok e else parse_file text)
        else Ok e
    | None =>
        bind (wrap_rt (render_path p)) (fun text =>
          match flookup n oc with
          | Some e => if str_eqb (H text) (snd e) then Ok e else parse_file text
          | None => parse_file text
          end)
    end.

  (* parent_files starts with the marker "top file"; the cycle test looks at parent_files[1:] (since dfdd8ff), so for the
     comparison the chain of including files starts empty - unless the old behaviour is selected *)
  Definition initial_parents : list name := if marker_compared V then [[s_topfile]] else [].

  Definition opt_piece (d : option dict) (v : str) : list piece :=
    match d with Some (x :: r) => [(x :: r, v)] | _ => [] end.
  Definition after_version (v : str) : str := if tag_after V then v ++ [PLUS] else v.

  (* _process_data_file; [rec] = _process_data_files one level down *)
  Definition pfile (rec : list name -> list (res name) -> files -> res (list piece * files))
             (oc : files) (parents : list name) (q : name * name * path) (nc : files)
    : res (list piece * files) :=
    match q with (n, rn, p) =>
      if existsb (name_eqb n) parents then Err RuntimeError else
      bind (get_entry oc nc n p) (fun e =>
        match e with ((b, inc, a), v) =>
          let nc1 := (n, e) :: nc in
          bind (match inc with
                | Some iv =>
                    if truthy iv then
                      bind (iter_val iv) (fun items =>
                      bind (map_res (resolve_rel rn) items) (fun names =>
                      rec (parents ++ [n]) (map Ok names) nc1))
                    else Ok ([], nc1)
                | None => Ok ([], nc1)
                end) (fun mid => Ok (opt_piece b v ++ fst mid ++ opt_piece a (after_version v), snd mid))
        end)
    end.

  Section Loop.
    Variable one : list name -> name * name * path -> files -> res (list piece * files).
    Fixpoint pfile_list (parents : list name) (rs : list (name * name * path)) (nc : files)
      : res (list piece * files) :=
      match rs with
      | [] => Ok ([], nc)
      | q :: r =>
          bind (one parents q nc) (fun x =>
          bind (pfile_list parents r (snd x)) (fun y => Ok (fst x ++ fst y, snd y)))
      end.
  End Loop.

  (* _process_data_files *)
  Fixpoint pfiles (fuel : nat) (oc : files) (parents : list name) (fl : list (res name)) (nc : files)
    : res (list piece * files) :=
    match fuel with
    | O => Err OutOfFuel
    | S f => bind (resolve_all fl) (fun rs => pfile_list (pfile (pfiles f oc) oc) parents rs nc)
    end.

  (* ---- _process_top ---- *)
  Definition is_sequence (v : val) : bool :=
    match v with VList _ | VTuple _ | VStr _ | VBytes _ => true | _ => false end.
  (* "" in file_list *)
  Definition has_empty_string (v : val) : res bool :=
    match v with
    | VList l | VTuple l => Ok (mem (VStr []) l)
    | VStr _ => Ok true
    | _ => Err TypeError
    end.
  Fixpoint top_loop (items : dict) (acc : list val) : res (list val) :=
    match items with
    | [] => Ok acc
    | (e, fl) :: r =>
        if negb (is_sequence fl) then Err TypeError else
        bind (has_empty_string fl) (fun he =>
        if he then Err RuntimeError else
        match e with
        | VStr s => bind (matches s) (fun m => top_loop r (if m then acc ++ seq_items fl else acc))
        | _ => Err TypeError
        end)
    end.
  Definition eval_top (top_data : val) : res (option (list val)) :=
    match top_data with
    | VNone => if allow_empty_top C then Ok None else Err TypeError
    | VDict items => bind (top_loop items []) (fun l => Ok (Some l))
    | _ => Err TypeError
    end.

  Definition top_path : path := [s_top ++ suffix C].
  Definition top_version (text : str) : str := aggregate_version H [H text; pv].

  Definition process_top (oc : item) : res top_entry :=
    match fs_kind t top_path with
    | NoEnt => Err FileNotFoundError
    | Broken => Err OSError
    | _ =>
        bind (wrap_rt (render_path top_path)) (fun text =>
          let tv := top_version text in
          let reuse := match i_top oc with Some ce => if str_eqb (snd ce) tv then Some ce else None | None => None end in
          match reuse with
          | Some ce => Ok ce
          | None => bind (wrap_rt (yload text)) (fun data => bind (eval_top data) (fun fl => Ok (fl, tv)))
          end)
    end.

  Definition name_of_top_elem (v : val) : res name :=
    match v with VStr s => Ok (split_dots s) | _ => Err TypeError end.

  Definition merge_all (ps : list dict) : res dict :=
    fold_left (fun acc d => bind acc (fun a => merge (cfg_ml C) (cfg_ms C) a d)) ps (Ok []).

  Definition fuel_for (tr : fstree) : nat := 2 * length tr + 2.

  (* compile_data: data, version, and the cache item to store (None = keep the old one) *)
  Definition compile (oc : item) : res (dict * str * option item) :=
    bind (process_top oc) (fun te =>
    bind (match fst te with
          | Some (x :: r) =>
              bind (pfiles (fuel_for t) (i_files oc) initial_parents (map name_of_top_elem (x :: r)) []) (fun pn =>
              match fst pn with
              | [] => if empty_raises V then Err ValueError else Ok pn
              | _ => Ok pn
              end)
          | _ => Ok ([], [])
          end) (fun pn =>
    let dv := aggregate_version H (map snd (fst pn)) in
    match i_result oc with
    | Some (rd, rv) =>
        if str_eqb rv dv then Ok (rd, rv, None)
        else bind (merge_all (map fst (fst pn))) (fun d =>
               Ok (d, dv, Some {| i_top := Some te; i_files := snd pn; i_result := Some (d, dv) |}))
    | None =>
        bind (merge_all (map fst (fst pn))) (fun d =>
          Ok (d, dv, Some {| i_top := Some te; i_files := snd pn; i_result := Some (d, dv) |}))
    end)).

  (* ================================================================ specification
     cache-free; every piece carries the version of the rendered text it was cut from *)
  Definition some_piece (d : dict) (v : str) : list piece := match d with [] => [] | _ => [(d, v)] end.

  Definition spec_load (p : path) : res (dict * option val * dict * str) :=
    bind (wrap_rt (render_path p)) (fun text =>
    bind (wrap_rt (yload text)) (fun data =>
      match data with VDict d => Ok (split_spec d, H text) | _ => Err TypeError end)).

  (* one file: the data before its include block, then the included files, then the data after *)
  Definition sfile (rec : list name -> list (res name) -> res (list piece))
             (parents : list name) (q : name * name * path) : res (list piece) :=
    match q with (n, rn, p) =>
      if existsb (name_eqb n) parents then Err RuntimeError else
      bind (spec_load p) (fun s =>
        match s with ((b, inc, a), v) =>
          bind (match inc with
                | Some iv =>
                    if truthy iv then
                      bind (iter_val iv) (fun items =>
                      bind (map_res (resolve_rel rn) items) (fun names =>
                      rec (parents ++ [n]) (map Ok names)))
                    else Ok []
                | None => Ok []
                end) (fun mid => Ok (some_piece b v ++ mid ++ some_piece a (after_version v)))
        end)
    end.

  Section SLoop.
    Variable one : list name -> name * name * path -> res (list piece).
    Fixpoint sfile_list (parents : list name) (rs : list (name * name * path)) : res (list piece) :=
      match rs with
      | [] => Ok []
      | q :: r => bind (one parents q) (fun x => bind (sfile_list parents r) (fun y => Ok (x ++ y)))
      end.
  End SLoop.

  Fixpoint expand_spec (fuel : nat) (parents : list name) (fl : list (res name)) : res (list piece) :=
    match fuel with
    | O => Err OutOfFuel
    | S f => bind (resolve_all fl) (fun rs => sfile_list (sfile (expand_spec f)) parents rs)
    end.

  Definition spec_top : res (option (list val)) :=
    match fs_kind t top_path with
    | NoEnt => Err FileNotFoundError
    | Broken => Err OSError
    | _ => bind (wrap_rt (render_path top_path)) (fun text =>
           bind (wrap_rt (yload text)) eval_top)
    end.

  Definition spec_pieces : res (list piece) :=
    bind spec_top (fun fl =>
      match fl with
      | Some (x :: r) => expand_spec (fuel_for t) initial_parents (map name_of_top_elem (x :: r))
      | _ => Ok []
      end).

  (* data and version a get_data call is specified to return *)
  Definition get_data_spec : res dict := bind spec_pieces (fun ps => merge_all (map fst ps)).
  Definition get_full_spec : res (dict * str) :=
    bind spec_pieces (fun ps => bind (merge_all (map fst ps)) (fun d => Ok (d, aggregate_version H (map snd ps)))).

  (* the situation in which the code (before ec4c1d7) raised ValueError although the specification yields {} *)
  Definition empty_pieces_case : bool :=
    match spec_top, spec_pieces with
    | Ok (Some (_ :: _)), Ok [] => true
    | _, _ => false
    end.
End Compiler.
