"""C14 - text-file source: line semantics, reverse lookup, complete reload on change.

The real vinegar.data_source.text_file source (get_instance) is run on generated files over histories
of rewrites / deletions / re-creations / failing contents interleaved with get_data / find_system.
After every call the answer of the long-lived source is recorded together with the answer of a source
constructed at that moment; both are judged by the extracted checker against the reference semantics
(fresh parse of the current content) and compared with the extracted model.

Oracle tables are filled here by calling `re`, the individual transformation functions and the hash
directly (never through TextFileSource)."""
import hashlib
import importlib
import logging
import os
import re
import shutil
import sys
import tempfile
import threading
import time

import common
from common import Check, sx

from vinegar.data_source import text_file as TF

logging.getLogger("vinegar").setLevel(logging.CRITICAL + 1)

ERR = {"ValueError": 1, "TypeError": 2, "FileNotFoundError": 3, "UnicodeDecodeError": 4, "AttributeError": 5,
       "IsADirectoryError": 6, "KeyError": 7, "IndexError": 8, "RuntimeError": 9, "PermissionError": 10, "OSError": 11,
       "BlockingIOError": 12}
FAULT_EXC = {"PermissionError": lambda: PermissionError(13, "Permission denied (injected)"),
             "OSError": lambda: OSError(5, "Input/output error (injected)"),
             "BlockingIOError": lambda: BlockingIOError(11, "Resource temporarily unavailable (injected)")}
ACT = {"error": 0, "ignore": 1, "warn": 2}


def errcode(e):
    return ERR.get(type(e).__name__, 97)


# ----------------------------------------------------------------------------- configuration families
# variables: list of (key, source, chain, transform_none_value, use_none_value); chain = [(function, arg|None)]
FAMILIES = {
    # named groups, ignore expression, nested keys, list values (unhashable), None values that are used
    "named": {
        "re": r"(?P<id>[a-c]+);(?P<x>[0-9]*)(?:;(?P<y>[a-z,]+))?",
        "ign": r"|#.*|b;9.*",
        "sid": ("id", [], False),
        "vars": [("x", "x", [], False, False),
                 ("n:y", "y", [("string.split", ",")], False, False),
                 ("n:u", "y", [("string.to_upper", None)], False, True),
                 ("n:w", "x", [("string.split", None)], False, False),       # "" -> [] (falsy, unhashable)
                 # one variable whose values are of different KINDS from line to line (and from one version of the
                 # file to the next): None (hashable, used) where the group is absent, a list where it is present
                 ("n:l", "y", [("string.split", ",")], False, True)],
        "lines": ["a;0", "b;", "a;1", "b;1", "a;2", "b;2;p,q", "c;1;p,q", "c;;p", "a;1;p,q", "b;;q,p", "#x", "", " ", "\t", "bad line",
                  "a;1\x0c", "#\x85x", "c;2;p", "b;9", "b;9;p,q", "a;2;p,q"],
        "finds": [("n:l", None), ("n:l", ["p", "q"]), ("n:l", ["p"]), ("n:l", "p"), ("n:w", []), ("n:w", ["1"]), ("n:w", ["0"]), ("x", "0"), ("x", "1"), ("x", "2"), ("x", ""), ("n:y", ["p", "q"]), ("n:y", ["p"]), ("n:u", None),
                  ("n:u", "P,Q"), ("x", None), ("zz", "1"), ("n:y", "p,q"), ("n:y", None), ("n", "1"), ("x", 1),
                  ("n:y", ["q", "p"])],
        "gets": ["a", "b", "c", "d", ["a"]],
    },
    # numbered groups, system id through a chain, int values, transform_none_value, key conflicts
    "numbered": {
        "re": r"([A-Ca-c]+) +([0-9]+|[x-z]+)?(?: *,([0-9]+))?",
        "ign": None,
        "sid": (1, [("string.to_lower", None), ("string.add_suffix", ".d")], False),
        "vars": [("v", 2, [("misc.to_int", None)], False, False),
                 ("w:a", 3, [("string.to_str", None)], True, False),
                 ("w", 3, [], False, False),
                 ("w:b:c", 2, [("string.add_prefix", "P")], False, False),
                 ("", 2, [], False, True)],
        "lines": ["a 0", "b 00", "c 0", "a 1", "A 1", "b x", "B  2", "c ", "a ,5", "b 1,5", "c x", "C 01", "", " ", "#", "a 1 ", "c  ,7", "b 2"],
        "finds": [("v", 0), ("v", "0"), ("", "0"), ("w:b:c", "P0"), ("v", 1), ("v", "1"), ("v", "x"), ("v", 2), ("w:a", "None"), ("w:a", "5"), ("w", "5"),
                  ("w:b:c", "P1"), ("w:b:c", "Px"), ("", None), ("", "1"), ("w", None), ("v", None), ("v", [1])],
        "gets": ["a.d", "b.d", "c.d", "a", "A.d"],
    },
    # optional system-id group (ValueError), int ids (two spellings of one id), chain raising on None
    "optional_id": {
        "re": r"(?P<id>[0-9]+)?:(?P<a>[ab]*)(?::(?P<b>[abAB]+))?",
        "ign": r" *",
        "sid": ("id", [("misc.to_int", None)], False),
        "vars": [("a", "a", [("string.to_upper", None)], False, False),
                 ("k::e", "b", [("string.to_lower", None)], False, True),
                 ("k", "a", [], False, False)],
        "lines": ["7:a", "07:b", "8:a:B", "8:b:b", "9::A", ":a", "7:b:a", " ", "", "x", "10:ab:ab", "9:a"],
        "finds": [("a", "A"), ("a", "B"), ("k::e", "b"), ("k::e", None), ("k::e", "a"), ("k", "a"), ("k", ""),
                  ("a", ""), ("a", "AB"), ("a", ["A"])],
        "gets": [7, "7", 8, 9, 10, 11],
    },
    # captured fields may contain '|' and an optional field may hold the text "None" (any encoding of a line's
    # groups into a version string has to keep these apart)
    "pipes": {
        "re": r"(?P<id>[a-c]+);(?P<x>[a-z0-9|]*);(?P<y>[a-z0-9|]*)(?:;(?P<z>None|[a-z]+))?",
        "ign": r"#.*",
        "sid": ("id", [], False),
        "vars": [("x", "x", [], False, False), ("y", "y", [], False, False), ("z", "z", [], False, False)],
        "lines": ["a;r|7;c", "a;r;7|c", "a;r;c", "a;r;c;None", "b;|;", "b;;|", "b;|;|", "a;r|7|c;", "a;;r|7|c", "c;x;y;none",
                  "c;x;y", "c;x|;y;None", "c;x;|y", "#c", "bad", "b;;;None", "b;;"],
        "finds": [("x", "r|7"), ("x", "r"), ("y", "c"), ("y", "7|c"), ("z", "None"), ("z", None), ("x", "|"), ("y", "")],
        "gets": ["a", "b", "c"],
    },
    # transform_none_value with a chain that cannot take None (AttributeError); unhashable system id (TypeError)
    "raising": {
        "re": r"(\w+)=(\w+)?(/\w+)?",
        "ign": r";.*",
        "sid": (1, [("string.split", "_")], False),
        "vars": [("p", 2, [("string.to_lower", None)], True, False)],
        "lines": ["a=1", "a_b=2", ";c", "zz", "b=", "a=1/x"],
        "finds": [("p", "1"), ("p", None)],
        "gets": ["a", ["a"]],
        "alt_sid": (3, [], True),        # variant: optional group as system id with transform_none_value
    },
    # configuration values that are falsy but meaningful: "" as ignore expression (ignores exactly the empty lines),
    # group number 0 (the whole line) as system id and as variable source, "" as transformation argument, "" as
    # variable key and as last key component; fields may hold any character
    "falsy_cfg": {
        "re": r"([a-c]*)(?:=(.*))?",
        "ign": "",
        "sid": (0, [("string.add_suffix", "")], False),
        "vars": [("", 1, [], False, False), ("z", 0, [("string.add_prefix", "")], False, False), ("n:", 2, [], False, True)],
        "lines": ["", " ", "a", "a=1", "=", "=0", "b=", "a=1 ", "\t", "c=00", "ab", "a=\x01\x7f", "b= ", "c=\xa0\xff", "a==",
                  "a=\x0b\x0c", "d", "a=0"],
        "finds": [("", "a"), ("", ""), ("z", "a=1"), ("z", "="), ("n:", "1"), ("n:", ""), ("n:", None), ("n:", "0"), ("n:", " "),
                  ("n", "1"), ("z", "")],
        "gets": ["a", "a=1", "", "=", "b=", " ", "=0", "a=0"],
    },
    # the numbered family with "" as ignore expression: its empty lines are ignored lines, not mismatches
    "empty_ignore": {
        "re": r"([A-Ca-c]+) +([0-9]+|[x-z]+)?(?: *,([0-9]+))?",
        "ign": "",
        "sid": (1, [("string.to_lower", None)], False),
        "vars": [("v", 2, [("misc.to_int", None)], False, False), ("w", 3, [], False, True)],
        "lines": ["a 0", "", "b x", " ", "c ,5", "", "a 1", "\t", "B 2", "#"],
        "finds": [("v", 0), ("v", "x"), ("w", None), ("w", "5"), ("v", 1)],
        "gets": ["a", "b", "c", ""],
    },
    # "" as regular expression (matches exactly the empty lines), no ignore expression, empty variables dict
    "empty_re": {
        "re": "",
        "ign": None,
        "sid": (0, [], False),
        "vars": [],
        "lines": ["", " ", "x", "", "\t"],
        "finds": [("", ""), ("x", None)],
        "gets": ["", " ", "x"],
    },
}
MAIN_FAMS = ["named", "numbered", "optional_id", "pipes", "falsy_cfg", "empty_ignore", "empty_re"]


def _fn(name):
    mod, _, fn = name.rpartition(".")
    return getattr(importlib.import_module("vinegar.transform." + mod), fn)


def chain_cfg(chain):
    out = []
    for name, arg in chain:
        out.append(name if arg is None else {name: arg})
    return out


def apply_chain(chain, value):
    for name, arg in chain:
        value = _fn(name)(value) if arg is None else _fn(name)(value, arg)
    return value


def fam_of(case):
    f = FAMILIES[case["fam"]]
    if case.get("alt"):
        f = dict(f, sid=f["alt_sid"])
    return f


def make_config(case, path):
    """the configuration dict; options that have their default value are left out when case["omit"] is set"""
    f = fam_of(case)
    omit = case.get("omit", False)

    def var(src, chain, tn, un=None):
        d = {"source": src}
        if chain or not omit:
            d["transform"] = chain_cfg(chain)
        if tn or not omit:
            d["transform_none_value"] = tn
        if un is not None and (un or not omit):
            d["use_none_value"] = un
        return d
    src, chain, tn = f["sid"]
    cfg = {"file": path, "regular_expression": f["re"], "system_id": var(src, chain, tn), "variables": {}}
    for opt, key, default in (("cache_enabled", "cache", True), ("find_first_match", "ffm", False),
                              ("mismatch_action", "mis", "warn"), ("duplicate_system_id_action", "dup", "warn")):
        if case[key] != default or not omit:
            cfg[opt] = case[key]
    if f["ign"] is not None:
        cfg["regular_expression_ignore"] = f["ign"]
    for key, vsrc, vchain, vtn, vun in f["vars"]:
        cfg["variables"][key] = var(vsrc, vchain, vtn, vun)
    return cfg


# ----------------------------------------------------------------------------- value encodings (mirror of Entry.v)
def enc_val(v):
    if v is None:
        return [0]
    if isinstance(v, str):
        return [1, v]
    if isinstance(v, bool):
        return [1, "<bool:%r>" % v]
    if isinstance(v, int):
        return [2, v]
    if isinstance(v, list) and all(isinstance(x, str) for x in v):
        return [3, list(v)]
    return [1, "<unknown:%r>" % (v,)]


def enc_tree(d):
    if isinstance(d, dict):
        return [1, [[k if isinstance(k, str) else "<key:%r>" % (k,), enc_tree(x)] for k, x in d.items()]]
    return [0, enc_val(d)]


def enc_ostr(s):
    return [] if s is None else [s]


def hash_str(s):
    # what vinegar.utils.version._hash_str does, called on the library directly
    try:
        import mmh3
        return mmh3.hash_bytes(s).hex()
    except ImportError:
        h = hashlib.md5()
        h.update(s.encode(errors="ignore"))
        return h.hexdigest()


def tobytes(o):
    """nested python value -> the structure unsx() returns for sx(o)"""
    if isinstance(o, bool):
        return int(o)
    if isinstance(o, int):
        return o
    if isinstance(o, str):
        return o.encode("latin-1")
    if isinstance(o, (bytes, bytearray)):
        return bytes(o)
    return [tobytes(x) for x in o]


_SPLIT = re.compile("\r\n|\r|\n")
_tab_cache = {}


def line_tables(famkey, f, line):
    """oracle answers for one line: (ignored, groups or None, [(i, g, result)], hash)"""
    k = (famkey, line)
    r = _tab_cache.get(k)
    if r is not None:
        return r
    ign = f["ign"] is not None and re.compile(f["ign"]).fullmatch(line) is not None
    m = re.compile(f["re"]).fullmatch(line)
    xs = []
    groups = None
    if m is not None:
        srcs = [(f["sid"][0], f["sid"][1])] + [(v[1], v[2]) for v in f["vars"]]
        groups = []
        for i, (src, chain) in enumerate(srcs):
            g = m.group(src)
            groups.append(g)
            for gv in {g, None}:
                try:
                    res = [0, enc_val(apply_chain(chain, gv))]
                except Exception as e:        # noqa: BLE001 - the class is the observation
                    res = [1, errcode(e)]
                xs.append((i, gv, res))
    r = (ign, groups, xs, hash_str(line))
    if len(_tab_cache) < 200000:
        _tab_cache[k] = r
    return r


def enc_fstate(fsx):
    if fsx[0] == "missing":
        return [0]
    if fsx[0] == "bad":
        return [2]
    return [1, fsx[1]]


class Sandbox:
    """one scratch directory per process; every edit gets a fresh, strictly increasing mtime"""
    def __init__(self):
        self.dir = None
        self.tick = 1_000_000_000
        self.link = False
        self.targets = []

    def configure(self, link):
        """start of a case: empty directory; with link=True the configured path systems.txt is a SYMBOLIC LINK to
        the file that holds the content (edits rewrite or replace the target, or re-point the link)"""
        self.path()
        for fn in os.listdir(self.dir):
            os.unlink(os.path.join(self.dir, fn))
        self.link = bool(link)
        self.targets = ["target0.txt"]
        if self.link:
            os.symlink(self.targets[-1], os.path.join(self.dir, "systems.txt"))

    def target(self):
        return os.path.join(self.dir, self.targets[-1]) if self.link else self.path()

    def repoint(self, name):
        tmp = os.path.join(self.dir, "systems.lnk")
        os.symlink(name, tmp)
        os.replace(tmp, self.path())

    def path(self):
        if self.dir is None:
            base = "/dev/shm" if os.path.isdir("/dev/shm") else None
            self.dir = tempfile.mkdtemp(prefix="c14-", dir=base)
            import atexit
            atexit.register(shutil.rmtree, self.dir, True)
        return os.path.join(self.dir, "systems.txt")

    def apply(self, fsx, mode="replace"):
        """edit kinds (which component of the stat version (ctime, mtime, dev, ino, size) stays the same):
          replace          new inode + rename, new mtime: ctime, mtime, ino (and usually size) change
          inplace_restore  overwrite the same inode, then os.utime back to the old atime/mtime (cp -p, rsync --inplace -t):
                           ino and mtime stay; with same-length content also size stays - only ctime changes
          replace_restore  new inode + rename, then os.utime back to the old mtime: mtime (and size for same-length
                           content) stay; ino and ctime change
        In every kind the kernel advances ctime, so "every change of the file changes its stat version" holds."""
        self.path()
        if self.link and mode == "relink_back" and len(self.targets) >= 2:
            # roll the link back to the previous target (its content is the state the generator hands in)
            self.targets.pop()
            self.repoint(self.targets[-1])
            return
        if self.link and mode == "relink" and fsx[0] != "missing":
            # switch the link to another file that holds the new content
            self.nlink = getattr(self, "nlink", 0) + 1
            self.targets.append("target%d.txt" % self.nlink)
            mode = "replace"
            relink = True
        else:
            relink = False
        p = self.target()
        if fsx[0] == "missing":
            if os.path.exists(p):
                os.unlink(p)
            return
        data = fsx[1].encode("utf-8") if fsx[0] == "text" else b"a;1\n\xff\xfe\n"
        old = os.stat(p) if os.path.exists(p) else None
        if old is not None and mode == "inplace_restore":
            with open(p, "r+b") as fh:
                fh.write(data)
                fh.truncate(len(data))
            self.restore(p, old)
            return
        # write to a new inode and rename
        tmp = p + ".new"
        with open(tmp, "wb") as fh:
            fh.write(data)
        self.tick += 1_000_000_000
        os.utime(tmp, ns=(self.tick, self.tick))
        os.replace(tmp, p)
        if relink:
            self.repoint(self.targets[-1])
        if old is not None and mode == "replace_restore":
            self.restore(p, old)

    @staticmethod
    def restore(p, old):
        # utime itself stamps ctime; repeat until the (possibly coarse) ctime clock has moved on
        for _ in range(500):
            os.utime(p, ns=(old.st_atime_ns, old.st_mtime_ns))
            if os.stat(p).st_ctime_ns != old.st_ctime_ns:
                return
            time.sleep(0.002)
        raise RuntimeError("ctime did not advance")


SB = Sandbox()


class ParseTap:
    """`open` as seen by vinegar.data_source.text_file (injected into the module namespace, like the fakes of the
    TFTP harness): normally the builtin; when armed, the returned file object performs ONE pending edit of the
    file while it is being parsed - after the first line has been handed to the parser ("first_line"; small
    files are completely in the decoder's buffer by then) or when the with-block is left ("exit"), i.e. after
    the load and before _update_data returns."""
    def __init__(self):
        self.pending = None
        self.fault = None        # ("open" | "read", exception class name): one-shot I/O fault

    def arm_fault(self, kind, cls):
        self.fault = (kind, cls)

    def arm(self, fsx, mode, when):
        # An in-place overwrite that makes the file LONGER while it is being iterated would be read as a mix of
        # old head and new tail (a torn read, outside the sequential histories of the property): such an edit is
        # injected at the end of the load instead.  Renames, truncations and same-length overwrites are safe early.
        if when == "first_line" and mode == "inplace_restore" and fsx[0] != "missing":
            p = SB.path()
            new_len = len(fsx[1].encode("utf-8")) if fsx[0] == "text" else 8
            if not os.path.exists(p) or new_len > os.path.getsize(p):
                when = "exit"
        self.pending = (fsx, mode, when)

    def fire(self):
        if self.pending is not None:
            fsx, mode, _when = self.pending
            self.pending = None
            SB.apply(fsx, mode)

    def open(self, *a, **kw):
        if self.fault is not None and self.fault[0] == "open":
            cls = self.fault[1]
            self.fault = None
            raise FAULT_EXC[cls]()
        fh = open(*a, **kw)
        if self.pending is None and self.fault is None:
            return fh
        return _TappedFile(fh, self)


class _TappedFile:
    def __init__(self, fh, tap):
        self.fh, self.tap = fh, tap

    def __enter__(self):
        self.fh.__enter__()
        return self

    def __exit__(self, *exc):
        self.tap.fire()
        return self.fh.__exit__(*exc)

    def __iter__(self):
        early = self.tap.pending is not None and self.tap.pending[2] == "first_line"
        self.read_fault()            # before the first line reaches the parser
        for line in self.fh:
            yield line
            if early:
                self.tap.fire()

    def read_fault(self):
        if self.tap.fault is not None and self.tap.fault[0] == "read":
            cls = self.tap.fault[1]
            self.tap.fault = None
            raise FAULT_EXC[cls]()

    def read(self, *a):
        self.read_fault()
        r = self.fh.read(*a)
        if self.tap.pending is not None and self.tap.pending[2] == "first_line":
            self.tap.fire()
        return r

    def __getattr__(self, name):
        return getattr(self.fh, name)


TAP = ParseTap()
TF.open = TAP.open


class _OsProxy:
    """`os` as seen by vinegar.utils.version: os.stat of the scratch file raises ONE injected exception when armed"""
    def __init__(self):
        self.fault = None

    def stat(self, path, *a, **kw):
        if self.fault is not None and str(path) == SB.path():
            cls = self.fault
            self.fault = None
            raise FAULT_EXC[cls]()
        return os.stat(path, *a, **kw)

    def __getattr__(self, name):
        return getattr(os, name)


import vinegar.utils.version as _VER      # noqa: E402
OSP = _OsProxy()
# whatever name vinegar.utils.version uses to reach os.stat (`import os`, `from os import stat [as x]`)
for _name, _val in list(vars(_VER).items()):
    if _val is os:
        setattr(_VER, _name, OSP)
    elif _val is os.stat:
        setattr(_VER, _name, OSP.stat)
STAT_TOKEN = {"PermissionError": 1010, "OSError": 1011, "BlockingIOError": 1012}


class Obs(list):
    """observation of a case plus, per call-with-fault step, whether the injected fault fired"""
    def __init__(self, *a):
        super().__init__(*a)
        self.fired = []


def primitive_steps(hist):
    """("cedit", call, fstate, mode, when) = the call, with the edit happening while the call parses the file
    (or right after the call if it does not parse): for the model the call followed by the edit"""
    for s in hist:
        if s[0] == "cedit":
            yield s[1]
            yield ("edit", s[2], s[3])
        else:
            yield s


def call_source(src, step):
    try:
        if step[0] == "get":
            data, ver = src.get_data(step[1], {}, "")
            return [0, enc_tree(data), enc_ostr(ver if ver != "" else None)]
        r = src.find_system(step[1], step[2])
        return [1, [] if r is None else [enc_val(r)]]
    except Exception as e:                    # noqa: BLE001
        return [2, errcode(e)]


class C14(Check):
    ident = "C14"
    technique = ("Coq proof (parse loop refines first-line/first-error reference semantics; cache invariant over all "
                 "edit/call histories) + differential correspondence with the real TextFileSource on real files")
    rule = ("case = (configuration family, cache_enabled, find_first_match, mismatch/duplicate action, initial file "
            "state, history of edits (rewrite/delete/re-create/undecodable) and get_data/find_system calls); "
            "non-trivial = at least one edit followed by a call and a content with >= 2 matching lines; distinct by "
            "the whole case")
    assumptions = ["every edit of the file changes its stat version (the harness replaces the inode and sets a new mtime)",
                   "version hash (md5/mmh3) has no collision among the lines seen (checked per case)",
                   "regex engine, transformation functions and hash are oracles: tables filled from the libraries directly"]
    search_budget_s = 90

    # ---- generation
    def contents(self, f, rng, n):
        eols = ["\n", "\n", "\r\n", "\r", "\n\r", "\r\r"]
        lines = [rng.choice(f["lines"]) for _ in range(n)]
        s = ""
        for i, ln in enumerate(lines):
            s += ln
            if i + 1 < len(lines) or rng.random() < 0.6:
                s += rng.choice(eols)
        return s

    def random_state(self, f, rng):
        r = rng.random()
        if r < 0.12:
            return ("missing",)
        if r < 0.18:
            return ("bad",)
        return ("text", self.contents(f, rng, rng.choice([0, 1, 2, 3, 3, 4, 5, 6])))

    def same_size_variant(self, f, rng, stt):
        """another content of exactly the same byte length: one line replaced by a pool line of equal length"""
        if stt[0] != "text":
            return None
        parts = re.split("(\r\n|\r|\n)", stt[1])
        idx = [i for i in range(0, len(parts), 2)
               if any(len(x.encode()) == len(parts[i].encode()) and x != parts[i] for x in f["lines"])]
        if not idx:
            return None
        i = rng.choice(idx)
        parts[i] = rng.choice([x for x in f["lines"] if len(x.encode()) == len(parts[i].encode()) and x != parts[i]])
        return ("text", "".join(parts))

    def random_edit(self, f, rng, cur):
        mode = rng.choice(["replace", "replace", "replace", "inplace_restore", "inplace_restore", "replace_restore", "relink"])
        stt = None
        if mode != "replace" and rng.random() < 0.75:
            stt = self.same_size_variant(f, rng, cur)
        if stt is None:
            stt = self.random_state(f, rng)
        if rng.random() < 0.2:
            return ("cedit", self.random_call(f, rng), stt, mode, rng.choice(["first_line", "exit"]))
        return ("edit", stt) if mode == "replace" else ("edit", stt, mode)

    def with_faults(self, f, rng, h):
        """turn some calls into calls with an injected fault; a stat-fault class is used at most once per history
        (its version token must stand for one content only)"""
        stat_left = ["PermissionError", "OSError", "BlockingIOError"]
        rng.shuffle(stat_left)
        out = []
        for s in h:
            if s[0] in ("get", "find") and rng.random() < 0.4:
                kind = rng.choice(["open", "read", "stat"])
                if kind == "stat" and stat_left:
                    out.append(("fcall", s, ("stat", stat_left.pop())))
                    continue
                if kind != "stat":
                    out.append(("fcall", s, (kind, rng.choice(["PermissionError", "OSError", "BlockingIOError"]))))
                    continue
            out.append(s)
        return out

    def random_call(self, f, rng):
        if rng.random() < 0.45:
            return ("get", rng.choice(f["gets"]))
        k, v = rng.choice(f["finds"])
        return ("find", k, v)

    def flags(self):
        for cache in (True, False):
            for ffm in (False, True):
                for mis in ("error", "ignore", "warn"):
                    for dup in ("error", "ignore", "warn"):
                        yield {"cache": cache, "ffm": ffm, "mis": mis, "dup": dup}

    def battery(self, f):
        return [("get", g) for g in f["gets"]] + [("find", k, v) for k, v in f["finds"]]

    def gen(self, tier, rng):
        quick = tier == "quick"
        # 1. systematic: every flag combination x every ordered pair of file states from a pool that contains
        #    good, duplicate, mismatching, failing, missing and undecodable contents; full call battery after each edit
        for fam, f in FAMILIES.items():
            L = [f["lines"][i % len(f["lines"])] for i in range(16)]
            pool = [("text", L[0] + "\n" + L[1] + "\r\n" + L[3] + "\r" + L[4]),
                    ("text", L[2] + "\n" + L[0] + "\n" + L[5] + "\n" + L[6] + "\n" + L[7]),
                    ("text", L[1] + "\n" + L[10] + "\n" + L[2] + "\n" + L[4] + "\n"),
                    ("missing",), ("bad",),
                    ("text", "")]
            bat = self.battery(f)
            for fl in self.flags():
                if fam == "raising" and (fl["mis"] == "warn" or fl["dup"] == "warn"):
                    continue
                seqs = [[a, b] for a in pool for b in pool if a != b]
                if quick:
                    seqs = rng.sample(seqs, 10)
                for seq in seqs:
                    h = []
                    for stt in seq:
                        h.append(("edit", stt))
                        h.extend(bat if not quick else rng.sample(bat, min(len(bat), 9)))
                    yield dict(fl, fam=fam, init=rng.choice(pool), hist=h, omit=rng.random() < 0.5)
        # 2. line endings: every pair of terminators between three lines, with and without one at EOF
        f = FAMILIES["numbered"]
        for e1 in ["\n", "\r\n", "\r", "\n\r", "\r\r\n", ""]:
            for e2 in ["\n", "\r\n", "\r", "\r\n\r", ""]:
                for e3 in ["", "\n", "\r", "\r\n"]:
                    txt = "a 1" + e1 + "b x" + e2 + "c x" + e3
                    yield {"fam": "numbered", "cache": True, "ffm": False, "mis": "error", "dup": "error",
                           "init": ("text", txt), "hist": [("get", "a.d"), ("get", "b.d"), ("get", "c.d"), ("find", "v", "x")]}
        # a CR LF pair across the decoder's chunk boundary (8192 bytes); padding outside every group
        for pad in ((8188, 8189) if quick else (8186, 8187, 8188, 8189, 8190, 8191)):
            txt = "a" + " " * pad + "1\r\n" + "b x\r\n"
            yield {"fam": "numbered", "cache": True, "ffm": False, "mis": "error", "dup": "error",
                   "init": ("text", txt), "hist": [("get", "a.d"), ("get", "b.d")]}
        # 2b. edits that keep parts of the stat version: same-size in-place rewrite with restored mtime (only ctime
        #     changes), same size + same mtime on a new inode, different size with restored mtime
        for fam in MAIN_FAMS:
            f = FAMILIES[fam]
            bat = self.battery(f)
            for fl in self.flags():
                if not fl["cache"] and rng.random() < 0.7:
                    continue
                for _rep in range(2 if quick else 12):
                    cur = ("text", self.contents(f, rng, rng.choice([2, 3, 4])))
                    case = dict(fl, fam=fam, init=cur, omit=rng.random() < 0.5)
                    h = list(rng.sample(bat, 3))
                    for mode in rng.sample(["inplace_restore", "replace_restore", "inplace_restore", "replace"], 3):
                        nxt = self.same_size_variant(f, rng, cur) if rng.random() < 0.8 else None
                        if nxt is None:
                            nxt = ("text", self.contents(f, rng, rng.choice([1, 2, 3, 5])))
                        h.append(("edit", nxt, mode))
                        cur = nxt
                        h.extend(rng.sample(bat, 3))
                    case["hist"] = h
                    yield case
        # 2c. an edit injected while the long-lived source parses the file (atomic rename and in place, at the first
        #     line and at the end of the load); the following calls must see the new content
        for fam in MAIN_FAMS:
            f = FAMILIES[fam]
            bat = self.battery(f)
            for fl in self.flags():
                if not fl["cache"] and rng.random() < 0.8:
                    continue
                for mode in ("replace", "inplace_restore"):
                    for when in ("first_line", "exit"):
                        if quick and rng.random() < 0.5:
                            continue
                        cur = ("text", self.contents(f, rng, rng.choice([1, 2, 3, 4])))
                        nxt = (self.same_size_variant(f, rng, cur) if mode != "replace" and rng.random() < 0.6 else None) \
                            or self.random_state(f, rng)
                        h = [] if rng.random() < 0.5 else [rng.choice(bat), ("edit", cur, "replace")]
                        h.append(("cedit", rng.choice(bat), nxt, mode, when))
                        h.extend(rng.sample(bat, 4))
                        yield dict(fl, fam=fam, init=cur, hist=h, omit=rng.random() < 0.5)
        # 2e. fault injection on open / read / stat of the file in ONE call of a long-lived source: with a valid
        #     snapshot the call does not touch the file and answers; otherwise the exception is the result of the
        #     call, nothing of it is remembered, and the following calls are correct
        for fam in MAIN_FAMS:
            f = FAMILIES[fam]
            bat = self.battery(f)
            for fl in self.flags():
                if (not fl["cache"] and rng.random() < 0.6) or (quick and rng.random() < 0.5):
                    continue
                cur = ("text", self.contents(f, rng, rng.choice([1, 2, 3, 4])))
                nxt = self.random_state(f, rng)
                h = [rng.choice(bat), rng.choice(bat)]
                h += [("edit", nxt)] if rng.random() < 0.7 else []
                h += rng.sample(bat, 3)
                h += [("edit", self.random_state(f, rng), rng.choice(["replace", "inplace_restore"]))]
                h += rng.sample(bat, 3)
                h = self.with_faults(f, rng, h)
                yield dict(fl, fam=fam, init=cur, hist=h, omit=rng.random() < 0.5)
        # 2d. rewrites between lines whose captured groups differ only in where a '|' falls, and between an
        #     unmatched optional group and the text "None": the data changes, so must the version
        f = FAMILIES["pipes"]
        twins = [("a;r|7;c", "a;r;7|c"), ("a;r;c", "a;r;c;None"), ("b;|;", "b;;|"), ("a;r|7|c;", "a;;r|7|c"),
                 ("c;x|;y;None", "c;x;|y"), ("b;;;None", "b;;"), ("a;r|7;c", "a;r|7|c;")]
        for (l1, l2) in twins:
            for (x, y) in ((l1, l2), (l2, l1)):
                for cache in (True, False):
                    for eol in ("\n", ""):
                        sid = x.split(";")[0]
                        yield {"fam": "pipes", "cache": cache, "ffm": False, "mis": "warn", "dup": "warn", "omit": cache,
                               "init": ("text", "#c\n" + x + eol),
                               "hist": [("get", sid), ("edit", ("text", y + eol + ("" if eol else "\n") + "c;x;y\n")), ("get", sid),
                                        ("find", "x", "r|7")]}
        # 2g. the configured path is a symbolic link: the target is rewritten in place / replaced by rename, the
        #     link is switched to another file and rolled back
        for fam in MAIN_FAMS:
            f = FAMILIES[fam]
            bat = self.battery(f)
            for fl in self.flags():
                if (not fl["cache"] and rng.random() < 0.7) or (quick and rng.random() < 0.6):
                    continue
                a = ("text", self.contents(f, rng, rng.choice([1, 2, 3])))
                b = self.same_size_variant(f, rng, a) or ("text", self.contents(f, rng, rng.choice([1, 2, 4])))
                cst = self.random_state(f, rng)
                h = [rng.choice(bat), ("edit", b, rng.choice(["inplace_restore", "replace", "replace_restore"])), rng.choice(bat),
                     rng.choice(bat), ("edit", cst, "relink"), rng.choice(bat), rng.choice(bat)]
                if cst[0] != "missing":
                    h += [("edit", b, "relink_back"), rng.choice(bat), rng.choice(bat)]
                yield dict(fl, fam=fam, init=a, hist=h, omit=rng.random() < 0.5, link=True)
        # 2h. a variable whose value kind (None / list) differs between lines and between versions of the file, in both
        #     orders, looked up with both kinds after every step
        f = FAMILIES["named"]
        kinds = [("a;1", "b;2;p,q"), ("b;2;p,q", "a;1"), ("a;1;p", "b;1"), ("c;;p", "a;0")]
        for (l1, l2) in kinds:
            for cache in (True, False):
                for ffm in (False, True):
                    look = [("find", "n:l", None), ("find", "n:l", l1.split(";")[2].split(",") if l1.count(";") == 2 else ["p", "q"]),
                            ("get", l1[0]), ("get", l2[0])]
                    yield {"fam": "named", "cache": cache, "ffm": ffm, "mis": "error", "dup": "error", "omit": ffm,
                           "init": ("text", l1 + "\n" + l2 + "\n"),
                           "hist": look + [("edit", ("text", l2 + "\n"))] + look + [("edit", ("text", l1 + "\n"))] + look}
        # 2f. legal inputs at and beyond natural limits: long fields, long lines, many lines, many systems
        for n in ((255, 256, 4096) if quick else (254, 255, 256, 257, 1023, 1024, 4095, 4096, 4097, 8191, 8192, 20000)):
            long_line = "a;" + "x" * n + ";" + "|" * (n // 2)
            yield {"fam": "pipes", "cache": True, "ffm": False, "mis": "error", "dup": "error", "omit": True,
                   "init": ("text", "#c\n" + long_line + "\nb;1;2\n"),
                   "hist": [("get", "a"), ("find", "x", "x" * n), ("edit", ("text", long_line + "\r\n")), ("get", "a"), ("get", "b")]}
        for n in ((300,) if quick else (300, 1000, 3000)):
            body = "".join("a 1\n" if i % 7 else "b %d\n" % i for i in range(n)) + "c x"
            yield {"fam": "numbered", "cache": True, "ffm": True, "mis": "warn", "dup": "ignore", "omit": False,
                   "init": ("text", body), "hist": [("get", "a.d"), ("get", "b.d"), ("find", "v", 1), ("find", "v", 7), ("get", "c.d")]}
        # 3. random histories: <= 6 edits interleaved with calls
        n = 5000 if quick else 60000
        fams = list(FAMILIES)
        flags = list(self.flags())
        for _ in range(n):
            fam = rng.choice(MAIN_FAMS) if rng.random() < 0.92 else "raising"
            f = FAMILIES[fam]
            case = dict(rng.choice(flags), fam=fam, omit=rng.random() < 0.5, link=rng.random() < 0.3)
            if fam == "raising" and rng.random() < 0.5:
                case["alt"] = True
                f = fam_of(case)
            case["init"] = self.random_state(f, rng)
            cur = case["init"]
            h = []
            nedits = rng.randrange(0, 7)
            for _e in range(nedits):
                for _c in range(rng.choice([0, 1, 1, 2, 3])):
                    h.append(self.random_call(f, rng))
                h.append(self.random_edit(f, rng, cur))
                cur = h[-1][2] if h[-1][0] == "cedit" else h[-1][1]
            for _c in range(rng.choice([1, 2, 3])):
                h.append(self.random_call(f, rng))
            if rng.random() < 0.3:
                h = self.with_faults(f, rng, h)
            case["hist"] = h
            yield case

    # ---- the real code
    def impl(self, c):
        path = SB.path()
        SB.configure(c.get("link"))
        SB.apply(c["init"])
        src = TF.get_instance(make_config(c, path))
        out = Obs()
        for stp in c["hist"]:
            if stp[0] == "edit":
                SB.apply(stp[1], stp[2] if len(stp) > 2 else "replace")
                continue
            if stp[0] == "fcall":
                # The fresh source answers without the fault; the long-lived source gets ONE injected fault, identified
                # by WHAT it hits (the stat of the configured path / the open / the first read), not by a call count.
                # Whether the call got that far (the fault fired) is an event of the environment that is recorded
                # with the observation: a fault that did not fire makes the step an ordinary call for the model.
                b = call_source(TF.get_instance(make_config(c, path)), stp[1])
                if stp[2][0] == "stat":
                    OSP.fault = stp[2][1]
                else:
                    TAP.arm_fault(stp[2][0], stp[2][1])
                try:
                    a = call_source(src, stp[1])
                finally:
                    out.fired.append(OSP.fault is None and TAP.fault is None)
                    TAP.fault = None
                    OSP.fault = None
                out.append([a, b])
                continue
            if stp[0] == "cedit":
                # the fresh source answers first (file still unchanged), then the long-lived source with the edit
                # injected into its parse; if it did not parse at all the edit happens right after the call
                b = call_source(TF.get_instance(make_config(c, path)), stp[1])
                TAP.arm(stp[2], stp[3], stp[4])
                try:
                    a = call_source(src, stp[1])
                finally:
                    TAP.fire()
                out.append([a, b])
                continue
            a = call_source(src, stp)
            b = call_source(TF.get_instance(make_config(c, path)), stp)
            out.append([a, b])
        return out

    # ---- sx line for the driver
    def line(self, c, obs):
        f = fam_of(c)
        famkey = (c["fam"], bool(c.get("alt")))
        states = [c["init"]] + [s[1] for s in primitive_steps(c["hist"]) if s[0] == "edit"]
        lines = []
        seen = set()
        for stt in states:
            if stt[0] == "text":
                for ln in _SPLIT.split(stt[1]):
                    if ln not in seen:
                        seen.add(ln)
                        lines.append(ln)
        ig, mt, xf, hs = [], [], [], []
        xseen = set()
        hseen = {}
        for ln in lines:
            ign, groups, xs, hv = line_tables(famkey, f, ln)
            ig.append([ln, ign])
            mt.append([ln, [] if groups is None else [[enc_ostr(g) for g in groups]]])
            for (i, g, res) in xs:
                if (i, g) not in xseen:
                    xseen.add((i, g))
                    xf.append([i, enc_ostr(g), res])
            hs.append([ln, hv])
            if hseen.setdefault(hv, ln) != ln:
                raise RuntimeError("hash collision among generated lines")
        sidc = ["", f["sid"][2], False]
        cfgx = [c["cache"], c["ffm"], ACT[c["mis"]], ACT[c["dup"]], f["ign"] is not None, sidc,
                [[v[0], v[3], v[4]] for v in f["vars"]]]
        ver = 0
        steps = []

        def fs_sx(stt):
            nonlocal ver
            if stt[0] == "missing":
                return [0, [0]]
            ver += 1
            return [ver, enc_fstate(stt)]
        init = fs_sx(c["init"])
        cur = c["init"]
        fired = list(getattr(obs, "fired", []))
        for stp in primitive_steps(c["hist"]):
            if stp[0] == "fcall":
                did_fire = fired.pop(0) if fired else True
                if not did_fire or (stp[2][0] == "read" and cur[0] == "missing"):
                    stp = stp[1]    # the call never reached the faulted operation: an ordinary call
            if stp[0] == "edit":
                cur = stp[1]
                v, fx = fs_sx(stp[1])
                steps.append([0, v, fx])
            elif stp[0] == "fcall":
                cl = stp[1]
                clx = [1, enc_val(cl[1])] if cl[0] == "get" else [2, cl[1], enc_val(cl[2])]
                if stp[2][0] == "stat":
                    steps.append([3, clx, [1, STAT_TOKEN[stp[2][1]]]])
                else:
                    steps.append([3, clx, [0, ERR[stp[2][1]]]])
            elif stp[0] == "get":
                steps.append([1, enc_val(stp[1])])
            else:
                steps.append([2, stp[1], enc_val(stp[2])])
        return sx([[cfgx, [ig, mt, xf, hs], init, steps], obs])

    def canon(self, obs):
        return tobytes(obs)

    def nontrivial(self, c, obs):
        edits = [i for i, s in enumerate(c["hist"]) if s[0] in ("edit", "cedit")]
        if not edits or edits[0] == len(c["hist"]) - 1:
            return None
        f = fam_of(c)
        rx = re.compile(f["re"])
        ok = False
        for stt in [c["init"]] + [s[1] for s in primitive_steps(c["hist"]) if s[0] == "edit"]:
            if stt[0] == "text" and sum(1 for ln in _SPLIT.split(stt[1]) if rx.fullmatch(ln)) >= 2:
                ok = True
        if not ok:
            return None
        return hashlib.sha1(repr(self.show(c)).encode()).hexdigest()

    def show(self, c):
        if c.get("_extra"):
            return c
        return {"family": c["fam"] + ("/alt" if c.get("alt") else ""),
                "config": {k: c[k] for k in ("cache", "ffm", "mis", "dup")}, "defaults_omitted": bool(c.get("omit")), "configured_path_is_symlink": bool(c.get("link")),
                "regular_expression": fam_of(c)["re"], "regular_expression_ignore": fam_of(c)["ign"],
                "system_id": repr(fam_of(c)["sid"]), "variables": [repr(v) for v in fam_of(c)["vars"]],
                "init": list(c["init"]), "hist": [(["call-with-injected-fault", list(s[1]), list(s[2])] if s[0] == "fcall" else
                                                   ["call-with-edit-during-parse", list(s[1]), list(s[2]), s[3], s[4]] if s[0] == "cedit" else
                                                   list(s) if s[0] != "edit" else ["edit", list(s[1])] + list(s[2:])) for s in c["hist"]]}

    # ---- two threads on one long-lived source (small schedule family; the general scheduler work is C19's)
    def schedule_run(self, cfgcase, old, new, call, k, deep=False):
        """The long-lived source has loaded `old`.  Thread B performs `call` and is paused at its k-th traced line
        inside vinegar/data_source/text_file.py; the file is rewritten to `new`, thread C performs the same call
        (and is given 20 ms - it may be blocked by the lock B holds), B is resumed, both are joined, then the call is
        made once more sequentially.  Returns (answers [prologue, B, C, D], number of line events of B)."""
        path = SB.path()
        SB.configure(False)
        SB.apply(old)
        src = TF.get_instance(make_config(cfgcase, path))
        pro = call_source(src, call)
        paused, resume = threading.Event(), threading.Event()
        count = [0]
        res = {}

        def local(frame, event, arg):
            if event == "line":
                count[0] += 1
                if count[0] == k:
                    paused.set()
                    resume.wait(5)
            return local

        def tracer(frame, event, arg):
            if event == "call" and frame.f_code.co_filename.endswith("text_file.py") and \
                    (deep or frame.f_code.co_name in ("get_data", "find_system")):
                return local
            return None

        def body_b():
            sys.settrace(tracer)
            try:
                res["B"] = call_source(src, call)
            finally:
                sys.settrace(None)
                paused.set()

        def body_c():
            res["C"] = call_source(src, call)
        tb = threading.Thread(target=body_b, daemon=True)
        tb.start()
        paused.wait(5)
        SB.apply(new)
        tc = threading.Thread(target=body_c, daemon=True)
        tc.start()
        tc.join(0.02)
        resume.set()
        tb.join(5)
        tc.join(5)
        hung = tb.is_alive() or tc.is_alive()
        d = call_source(src, call)
        return [pro, res.get("B", [2, 96 if hung else 97]), res.get("C", [2, 96 if hung else 97]), d], count[0]

    def extra_checks(self, tier, rng, report):
        scen = [("named", "a;1\nb;2\n", "a;2\nb;2\n", ("get", "a")), ("named", "a;1;p,q\n", "a;1;p\nc;1\n", ("get", "a")),
                ("named", "a;1\n", "b;1\n", ("find", "x", "1")), ("numbered", "a 1\nb x\n", "a 2\n", ("get", "a.d")),
                ("pipes", "a;r|7;c\n", "a;r;7|c\n", ("get", "a")), ("named", "a;1\n", "a;1\n#x\n", ("get", "a"))]
        if tier == "quick":
            scen = scen[:4]
        lines, metas = [], []
        for fam, old, new, call in scen:
            for cache in (True, False):
                cfgcase = {"fam": fam, "cache": cache, "ffm": True, "mis": "warn", "dup": "warn", "omit": False}
                deep = tier != "quick"      # thorough: also every line of _update_data / _process_variable
                _ans, total = self.schedule_run(cfgcase, ("text", old), ("text", new), call, 10 ** 9, deep)
                for k in range(1, total + 1):
                    ans, _n = self.schedule_run(cfgcase, ("text", old), ("text", new), call, k, deep)
                    obs = [[a, a] for a in ans]
                    # B overlaps the edit: it may take effect before or after it; C and D come after the edit
                    hists = [[call, call, ("edit", ("text", new)), call, call], [call, ("edit", ("text", new)), call, call, call]]
                    for h in hists:
                        lines.append(self.line(dict(cfgcase, init=("text", old), hist=h), obs))
                    metas.append({"_extra": True, "kind": "two threads on one source", "family": fam, "cache_enabled": cache,
                                  "old_content": old, "new_content": new, "call": list(call),
                                  "thread_B_paused_at_line_event": k, "of": total,
                                  "answers_prologue_B_C_D": common._jsonable(tobytes(ans))})
        outs = common.run_model(self.ident, lines)
        for i, meta in enumerate(metas):
            fails = []
            for out in outs[2 * i:2 * i + 2]:
                r = common.unsx(out)
                fails.append(common.names(r[2]) if isinstance(r, list) and len(r) >= 3 else ["schedule_case_rejected"])
                if isinstance(r, list) and len(r) >= 5 and r[4] in (0, 1):
                    key = "cases_within_theorem_hypotheses" if r[4] == 1 else "cases_outside_theorem_hypotheses"
                    report["extra"][key] = report["extra"].get(key, 0) + 1
            report["evaluations"] += 1
            if all(fails):       # neither linearisation explains the answers
                report.setdefault("extra_failing", []).append(
                    (meta, ["concurrent_call_not_linearizable"] + fails[0], meta["answers_prologue_B_C_D"],
                     "answers of [prologue; B; edit; C; D] or [prologue; edit; B; C; D]"))
        report["extra"]["two_thread_schedules"] = len(metas)

    def do_replay(self, path, build):
        import json as _json
        doc = _json.load(open(path))
        case = common._unpickle_b64(doc["case_pickle"]) if doc.get("case_pickle") else None
        if not (isinstance(case, dict) and case.get("_extra")):
            return super().do_replay(path, build)
        cfgcase = {"fam": case["family"], "cache": case["cache_enabled"], "ffm": True, "mis": "warn", "dup": "warn", "omit": False}
        call = tuple(case["call"])
        old, new = ("text", case["old_content"]), ("text", case["new_content"])
        k, total = case["thread_B_paused_at_line_event"], case["of"]
        ans, n = self.schedule_run(cfgcase, old, new, call, k, deep=total > 12)
        obs = [[a, a] for a in ans]
        hists = [[call, call, ("edit", new), call, call], [call, ("edit", new), call, call, call]]
        outs = common.run_model(self.ident, [self.line(dict(cfgcase, init=old, hist=h), obs) for h in hists])
        fails = [common.names(common.unsx(o)[2]) for o in outs]
        print("answers [prologue, B, C, D]:", common._jsonable(tobytes(ans)))
        print("failed clauses if B takes effect before the edit:", fails[0])
        print("failed clauses if B takes effect after the edit :", fails[1])
        if all(fails):
            print(f"VIOLATION property={self.ident} replay={path}")
            return 1
        return 0

    def shrink(self, c):
        h = c["hist"]
        # drop steps
        for i in range(len(h)):
            yield dict(c, hist=h[:i] + h[i + 1:])
        # drop lines of contents
        def smaller(stt):
            if stt[0] != "text":
                return
            parts = re.split("(\r\n|\r|\n)", stt[1])
            units = ["".join(parts[i:i + 2]) for i in range(0, len(parts), 2)]
            for i in range(len(units)):
                yield ("text", "".join(units[:i] + units[i + 1:]))
        for s2 in smaller(c["init"]):
            yield dict(c, init=s2)
        for i, stp in enumerate(h):
            if stp[0] == "edit":
                for s2 in smaller(stp[1]):
                    yield dict(c, hist=h[:i] + [("edit", s2) + tuple(stp[2:])] + h[i + 1:])
            if stp[0] == "cedit":
                for s2 in smaller(stp[2]):
                    yield dict(c, hist=h[:i] + [("cedit", stp[1], s2) + tuple(stp[3:])] + h[i + 1:])
        if c["init"][0] != "missing":
            yield dict(c, init=("missing",))


if __name__ == "__main__":
    raise SystemExit(C14().main())
