#!/bin/sh
# MANIFEST.setup_cmd: build the Coq development (full .vo build), extract, compile drivers, hygiene greps.
set -e
cd "$(dirname "$0")"
# hygiene: no axioms / admits / disabled checks anywhere in the development
if grep -rnE '\b(Admitted|admit|Axiom|Axioms|Parameter|Parameters|Conjecture|Admit Obligations)\b|Unset Guard|bypass_check|type-in-type|impredicative-set|Unset Positivity|Unset Universe' coq/theories; then
  echo "setup: forbidden construct found" >&2; exit 1
fi
# Variable/Hypothesis only inside sections
/venv/bin/python tools/check_sections.py coq/theories
mkdir -p ocaml/gen ocaml/bin coq/assumptions
rm -f coq/Makefile
sh tools/build_coq.sh | tail -20
# every source file must have produced its .vo
miss=0
for v in $(find coq/theories -name '*.v'); do { [ -f "${v}o" ] && [ ! "$v" -nt "${v}o" ]; } || { echo "setup: $v did not compile" >&2; miss=1; }; done
[ $miss = 0 ] || exit 1
for f in ocaml/gen/*_model.ml; do
  id=$(basename "$f" _model.ml)
  (cd ocaml && ./build.sh "$id")
done
echo "setup done"
