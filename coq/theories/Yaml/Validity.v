(* Content validity of cache items (DESIGN appendix A.6): a property of the item alone - it mentions no
   snapshot - which (i) makes the item usable for every later call of the same system and (ii) is
   enjoyed by everything compile_data stores.  Needs the hash to be injective and its outputs to be
   non-empty and free of "|" and "+". *)
From Coq Require Import List NArith ZArith Bool Arith Lia.
From VF Require Import PyVal.Val PyVal.ValProofs Merge.Merge Yaml.Target Yaml.TargetProofs.
Import ListNotations.

(* ---- splitting joined strings ---- *)
Lemma bar_split (a a' b b' : str) : ~ In BAR a -> ~ In BAR a' ->
  a ++ BAR :: b = a' ++ BAR :: b' -> a = a' /\ b = b'.
Proof.
  revert a'. induction a as [|x a IH]; intros [|x' a'] Ha Ha' E; cbn [app] in E.
  - injection E as ->. auto.
  - injection E as E1 _. exfalso. apply Ha'. left. now symmetry.
  - injection E as E1 _. exfalso. apply Ha. now left.
  - injection E as -> E. destruct (IH a') as [-> ->]; auto.
    + intros Hin. apply Ha. now right.
    + intros Hin. apply Ha'. now right.
Qed.

Lemma join_bar_cons v r : r <> [] -> join_bar (v :: r) = v ++ BAR :: join_bar r.
Proof. destruct r; [congruence | reflexivity]. Qed.

Lemma join_bar_inj : forall vs vs' : list str,
  Forall (fun v : str => ~ In BAR v /\ v <> []) vs -> Forall (fun v : str => ~ In BAR v /\ v <> []) vs' ->
  join_bar vs = join_bar vs' -> vs = vs'.
Proof.
  induction vs as [|v r IH]; intros [|v' r'] F F' E.
  - reflexivity.
  - exfalso. inversion F' as [|? ? [_ Hne] _]; subst. destruct r'; cbn [join_bar] in E; [now apply Hne|]. destruct v'; [now apply Hne | discriminate].
  - exfalso. inversion F as [|? ? [_ Hne] _]; subst. destruct r; cbn [join_bar] in E; [now apply Hne|]. destruct v; [now apply Hne | discriminate].
  - inversion F as [|? ? [Hb Hne] Fr]; subst. inversion F' as [|? ? [Hb' Hne'] Fr']; subst.
    destruct r as [|w r0]; destruct r' as [|w' r0'].
    + cbn [join_bar] in E. now subst.
    + exfalso. rewrite (join_bar_cons v' (w' :: r0')) in E by discriminate. change (join_bar [v]) with v in E.
      apply Hb. rewrite E. apply in_or_app. right. now left.
    + exfalso. rewrite (join_bar_cons v (w :: r0)) in E by discriminate. change (join_bar [v']) with v' in E.
      apply Hb'. rewrite <- E. apply in_or_app. right. now left.
    + rewrite (join_bar_cons v (w :: r0)), (join_bar_cons v' (w' :: r0')) in E by discriminate.
      apply bar_split in E as [-> E]; [|assumption|assumption]. f_equal. now apply IH.
Qed.

Section Validity.
  Variable V : variants.
  Variable C : config.
  Variable H : str -> str.
  Variable yload : str -> res val.
  (* the meaning of (system id, preceding-data version) for targeting: the matcher a call with these
     two arguments uses; assumed faithful, i.e. the version identifies the preceding data *)
  Variable mo : str -> str -> str -> res bool.
  Hypothesis V_tag : tag_after V = true.
  Hypothesis H_inj : forall a b, H a = H b -> a = b.
  Hypothesis H_nobar : forall s, ~ In BAR (H s).
  Hypothesis H_noplus : forall s, ~ In PLUS (H s).
  Hypothesis H_nonempty : forall s, H s <> [].

  Notation parse_file := (parse_file H yload).
  Notation piece_ok := (piece_ok V H yload).
  Notation cfile_valid := (cfile_valid H yload).

  Definition ctop_valid (sys : str) (ce : top_entry) : Prop :=
    exists text pv0, snd ce = top_version H pv0 text /\
      bind (wrap_rt (yload text)) (eval_top C (mo sys pv0)) = Ok (fst ce).
  Definition cres_valid (r : dict * str) : Prop :=
    exists pl, Forall piece_ok pl /\ snd r = aggregate_version H (map snd pl) /\ merge_all C (map fst pl) = Ok (fst r).
  Definition item_cvalid (sys : str) (it : item) : Prop :=
    match i_top it with Some ce => ctop_valid sys ce | None => True end /\
    (forall n e, flookup n (i_files it) = Some e -> cfile_valid e) /\
    match i_result it with Some r => cres_valid r | None => True end.

  Lemma item_cvalid_empty sys : item_cvalid sys empty_item.
  Proof. repeat split. intros n e E. discriminate. Qed.

  (* ---- content validity makes an item usable, whatever the snapshot ---- *)
  Lemma files_usable fs : (forall n e, flookup n fs = Some e -> cfile_valid e) -> oc_ok H yload fs.
  Proof.
    intros Hv n e En text Eh. destruct (Hv n e En) as [text0 Hp].
    pose proof (parse_file_version H yload text0 e Hp) as Ev. rewrite Ev in Eh. apply H_inj in Eh. now subst.
  Qed.

  Lemma top_usable sys pv ce : ctop_valid sys ce -> top_ok C H yload (mo sys pv) pv ce.
  Proof.
    intros (text0 & pv0 & Ev & Ed) text Et. rewrite Ev in Et. unfold top_version, aggregate_version in Et.
    apply H_inj in Et. cbn [join_bar] in Et. apply bar_split in Et as [Eh ->]; [|apply H_nobar|apply H_nobar].
    apply H_inj in Eh. now subst.
  Qed.

  Lemma piece_version_shape p : piece_ok p -> ~ In BAR (snd p) /\ snd p <> [].
  Proof.
    intros (text & b & inc & a & _ & Hin). apply in_app_or in Hin as [Hin|Hin].
    - destruct b as [[|x r]|]; cbn [opt_piece] in Hin; try destruct Hin as [<-|[]]; try destruct Hin. cbn [snd]. split; [apply H_nobar | apply H_nonempty].
    - unfold after_version in Hin. rewrite V_tag in Hin.
      destruct a as [[|x r]|]; cbn [opt_piece] in Hin; try destruct Hin as [<-|[]]; try destruct Hin. cbn [snd]. split.
      + intros Hb. apply in_app_or in Hb as [Hb|[Hb|[]]]; [now apply (H_nobar text) | discriminate].
      + intros E. now apply app_eq_nil in E as [_ E].
  Qed.

  Lemma opt_piece_in (d : option dict) v p : In p (opt_piece d v) -> d = Some (fst p) /\ snd p = v.
  Proof. destruct d as [[|x r]|]; cbn [opt_piece]; intros Hin; try destruct Hin as [<-|[]]; try destruct Hin. auto. Qed.

  (* versions determine pieces: needs the "+" tag (e62fc38) *)
  Lemma version_determines_piece p p' : piece_ok p -> piece_ok p' -> snd p = snd p' -> fst p = fst p'.
  Proof.
    intros (text & b & inc & a & Hp & Hin) (text' & b' & inc' & a' & Hp' & Hin') Ev.
    unfold after_version in *. rewrite V_tag in *.
    apply in_app_or in Hin as [Hin|Hin]; apply opt_piece_in in Hin as [Ed Es];
      apply in_app_or in Hin' as [Hin'|Hin']; apply opt_piece_in in Hin' as [Ed' Es']; rewrite Es, Es' in Ev.
    - apply H_inj in Ev. subst text'. rewrite Hp in Hp'. injection Hp' as <- <- <-. congruence.
    - exfalso. apply (H_noplus text). rewrite Ev. apply in_or_app. right. now left.
    - exfalso. apply (H_noplus text'). rewrite <- Ev. apply in_or_app. right. now left.
    - apply app_inv_tail in Ev. apply H_inj in Ev. subst text'. rewrite Hp in Hp'. injection Hp' as <- <- <-. congruence.
  Qed.

  Lemma versions_determine_pieces : forall pl pl', Forall piece_ok pl -> Forall piece_ok pl' ->
    map snd pl = map snd pl' -> map fst pl = map fst pl'.
  Proof.
    induction pl as [|p r IH]; intros [|p' r'] F F' E; cbn [map] in *; try discriminate; [reflexivity|].
    inversion F; subst. inversion F'; subst. injection E as E1 E2. f_equal; [now apply version_determines_piece | now apply IH].
  Qed.

  Lemma aggregate_determines_pieces pl pl' : Forall piece_ok pl -> Forall piece_ok pl' ->
    aggregate_version H (map snd pl) = aggregate_version H (map snd pl') -> map fst pl = map fst pl'.
  Proof.
    intros F F' E. unfold aggregate_version in E. apply H_inj in E. apply join_bar_inj in E.
    - now apply versions_determine_pieces.
    - apply Forall_forall. intros v Hv. apply in_map_iff in Hv as [p [<- Hp]]. rewrite Forall_forall in F. now apply piece_version_shape, F.
    - apply Forall_forall. intros v Hv. apply in_map_iff in Hv as [p [<- Hp]]. rewrite Forall_forall in F'. now apply piece_version_shape, F'.
  Qed.

  Lemma result_usable r : cres_valid r -> res_ok V C H yload r.
  Proof.
    intros (pl & F & Ev & Em) pl' F' Ev'. rewrite Ev in Ev'.
    now rewrite (aggregate_determines_pieces pl' pl F' F Ev').
  Qed.

  (* item_validity_is_state_independent: a content-valid item is usable by every call of its system *)
  Theorem cvalid_usable sys pv it : item_cvalid sys it -> item_ok V C H yload (mo sys pv) pv it.
  Proof.
    intros (Ht & Hf & Hr). split; [|split].
    - destruct (i_top it) as [ce|]; [now apply top_usable | exact I].
    - now apply files_usable.
    - destruct (i_result it) as [r|]; [now apply result_usable | exact I].
  Qed.

  (* two results that differ have different versions *)
  Theorem cres_valid_version_tracks r r' : cres_valid r -> cres_valid r' -> snd r = snd r' -> fst r = fst r'.
  Proof.
    intros (pl & F & Ev & Em) (pl' & F' & Ev' & Em') E. rewrite Ev, Ev' in E.
    rewrite (aggregate_determines_pieces pl pl' F F' E) in Em. congruence.
  Qed.

  (* ---- everything compile_data stores or returns is content valid ---- *)
  Section Produce.
    Variable render_o : str -> res str.
    Variable t : fstree.
    Variable sys pv : str.
    Hypothesis V_norerender : rerender V = false.
    Hypothesis yload_wf : forall text v, yload text = Ok v -> wf v = true.
    Notation compile := (compile V C H render_o yload (mo sys pv) t pv).

    Lemma process_top_valid oc te : match i_top oc with Some ce => ctop_valid sys ce | None => True end ->
      process_top C H render_o yload (mo sys pv) t pv oc = Ok te -> ctop_valid sys te.
    Proof.
      intros Ht. unfold process_top.
      assert (G : forall text, match
          match i_top oc with Some ce => if str_eqb (snd ce) (top_version H pv text) then Some ce else None | None => None end
        with
        | Some ce => Ok ce
        | None => bind (wrap_rt (yload text)) (fun data => bind (eval_top C (mo sys pv) data) (fun fl => Ok (fl, top_version H pv text)))
        end = Ok te -> ctop_valid sys te).
      { intros text. destruct (i_top oc) as [ce|].
        - destruct (str_eqb (snd ce) (top_version H pv text)).
          + intros E. injection E as <-. exact Ht.
          + intros E. exists text, pv. destruct (wrap_rt (yload text)) as [d|x]; cbn [bind] in *; [|discriminate].
            destruct (eval_top C (mo sys pv) d) as [fl|x]; cbn [bind] in *; [|discriminate]. injection E as <-. auto.
        - intros E. exists text, pv. destruct (wrap_rt (yload text)) as [d|x]; cbn [bind] in *; [|discriminate].
          destruct (eval_top C (mo sys pv) d) as [fl|x]; cbn [bind] in *; [|discriminate]. injection E as <-. auto. }
      destruct (fs_kind t (top_path C)); try discriminate;
        (destruct (wrap_rt (render_path C render_o t (top_path C))) as [txt|x]; cbn [bind]; [apply G | discriminate]).
    Qed.

    Theorem compile_valid oc d v o : item_cvalid sys oc -> compile oc = Ok (d, v, o) ->
      cres_valid (d, v) /\ match o with Some new => item_cvalid sys new | None => True end.
    Proof.
      intros (Ht & Hf & Hr). unfold Target.compile.
      destruct (process_top C H render_o yload (mo sys pv) t pv oc) as [te|x] eqn:Ep; cbn [bind]; [|discriminate].
      pose proof (process_top_valid oc te Ht Ep) as Tv.
      assert (Fin : forall pl nc, Forall piece_ok pl -> (forall n e, flookup n nc = Some e -> cfile_valid e) ->
        match i_result oc with
        | Some (rd, rv) =>
            if str_eqb rv (aggregate_version H (map snd pl)) then Ok (rd, rv, None)
            else bind (merge_all C (map fst pl)) (fun d0 =>
                   Ok (d0, aggregate_version H (map snd pl),
                       Some {| i_top := Some te; i_files := nc; i_result := Some (d0, aggregate_version H (map snd pl)) |}))
        | None =>
            bind (merge_all C (map fst pl)) (fun d0 =>
              Ok (d0, aggregate_version H (map snd pl),
                  Some {| i_top := Some te; i_files := nc; i_result := Some (d0, aggregate_version H (map snd pl)) |}))
        end = Ok (d, v, o) ->
        cres_valid (d, v) /\ match o with Some new => item_cvalid sys new | None => True end).
      { intros pl nc P Hnc.
        assert (New : forall d0, merge_all C (map fst pl) = Ok d0 ->
                  cres_valid (d0, aggregate_version H (map snd pl))).
        { intros d0 Em. exists pl. auto. }
        destruct (i_result oc) as [[rd rv]|].
        - destruct (str_eqb rv (aggregate_version H (map snd pl))).
          + intros E. injection E as <- <- <-. split; [exact Hr | exact I].
          + destruct (merge_all C (map fst pl)) as [d0|x] eqn:Em; cbn [bind]; [|discriminate].
            intros E. injection E as <- <- <-. split; [now apply New|]. split; [exact Tv | split; [exact Hnc | now apply New]].
        - destruct (merge_all C (map fst pl)) as [d0|x] eqn:Em; cbn [bind]; [|discriminate].
          intros E. injection E as <- <- <-. split; [now apply New|]. split; [exact Tv | split; [exact Hnc | now apply New]]. }
      assert (Nil : forall n e, flookup n (@nil (name * entry)) = Some e -> cfile_valid e) by (intros n e E; discriminate).
      destruct (fst te) as [[|x r]|].
      - cbn [bind fst snd]. apply (Fin [] [] (Forall_nil _) Nil).
      - pose proof (pfiles_rel V C H render_o yload t V_norerender yload_wf (i_files oc) (files_usable _ Hf)
                      (fuel_for t) (initial_parents V) (map name_of_top_elem (x :: r)) [] (nc_ok_nil _ _ _ _ _)) as R.
        destruct (pfiles V C H render_o yload t (fuel_for t) (i_files oc) (initial_parents V) (map name_of_top_elem (x :: r)) [])
          as [[pl nc]|e]; cbn [bind fst snd]; [|discriminate].
        destruct R as (_ & Nc & P).
        assert (Hnc : forall n e, flookup n nc = Some e -> cfile_valid e) by (intros n e E; apply (Nc n e E)).
        destruct pl as [|q pl'].
        + destruct (empty_raises V); cbn [bind fst snd]; [discriminate|]. apply (Fin [] nc (Forall_nil _) Hnc).
        + cbn [bind fst snd]. apply (Fin (q :: pl') nc P Hnc).
      - cbn [bind fst snd]. apply (Fin [] [] (Forall_nil _) Nil).
    Qed.
  End Produce.
End Validity.
