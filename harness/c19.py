"""C19 - shared components are linearizable under every thread interleaving.

Real threads call one shared component (SynchronizedCache(LRUCache), TextFileSource, DataStore,
YamlTargetSource) under harness/sched.py: the threads are serialised, switched at the traced source lines
of the component's module, `threading.Lock` is the cooperative lock, file edits are an extra thread
that can be placed at every point.  ALL schedules with a bounded number of pre-emptions are run.  Every
run yields one case for the extracted Coq model:

    (component parameters, calls per thread, model schedule, results per thread)

where the model schedule is the sequence of micro-steps (lock acquire, accesses, release) and file edits
in the order in which the REAL run performed them (taken from the cooperative lock's log and from
wrappers around stat/open/render).  The model replays that schedule (model obs must equal the results)
and the extracted `linearizable` decision procedure judges the results of the implementation.
"""
import itertools
import json
import logging
import multiprocessing
import os
import shutil
import sys
import tempfile
import threading
import time
import types

import common
from common import Check, sx
import sched

import vinegar.utils.cache as VC
import vinegar.data_source.text_file as TF
import vinegar.data_source.yaml_target as YT
import vinegar.utils.sqlite_store as SS

logging.disable(logging.CRITICAL)

EXC_CODES = {"KeyError": 1, "RuntimeError": 2, "ValueError": 3, "TypeError": 4, "AttributeError": 5,
             "IndexError": 6, "OSError": 7, "FileNotFoundError": 7, "Abandoned": 8}


def _attrs(obj):
    """(name, value) of the instance attributes, whatever they are called"""
    try:
        return list(vars(obj).items())
    except TypeError:
        out = []
        for k in dir(obj):
            if not k.startswith("__"):
                try:
                    out.append((k, getattr(obj, k)))
                except Exception:      # noqa
                    pass
        return out


def lock_of(obj):
    """the lock of a component, found by TYPE (the module's threading is the scheduler's shim, so the lock is a
    CoopLock), not by its private name"""
    for _, v in _attrs(obj):
        if isinstance(v, sched.CoopLock):
            return v
    return None


def attr_name_where(obj, pred, what):
    for k, v in _attrs(obj):
        if pred(v):
            return k
    raise LookupError(f"{what}: no such attribute on {type(obj).__name__}")


def _patch_function(patch, mod, real, new):
    """replace the function `real` as module `mod` uses it: under whatever name it was imported into mod, else (the
    module calls it through its home module) in the home module"""
    import sys as _sys
    hits = [k for k, v in vars(mod).items() if v is real]
    for k in hits:
        patch.set(mod, k, new)
    if not hits:
        patch.set(_sys.modules[real.__module__], real.__name__, new)


def exc_result(e):
    return [9, EXC_CODES.get(type(e).__name__, 0)]


# ============================================================================ event recorder
class Rec:
    """builds the model schedule from what the real threads do.  A call has a known number of micro-steps
    and critical sections (start, end) in its program; the observed events (lock acquire/release, stat,
    open, render) say WHEN a step happened; steps without an observable event (a cache hit needs no read,
    an unchanged item no update) are emitted just before the next observed step of the same call."""
    def __init__(self):
        self.sch = []
        self.idx = {}          # thread ident -> model thread index
        self.total = {}        # model index -> number of micro-steps of the current call
        self.done = {}         # model index -> micro-steps emitted so far
        self.sections = {}
        self.owner = None      # model index holding the (model) lock
        self.deferred = []     # entries to emit once the lock is free again
        self.guard_violations = 0
        self.completed = {}    # model index -> number of calls that have returned
        self.stamps = {}       # model index -> per call: [(thread, index of its last returned call)] at invocation

    def invoked(self, i):
        """real-time stamp of the call thread i invokes now: the calls of other threads that have returned"""
        self.stamps.setdefault(i, []).append(sorted((j, n - 1) for j, n in self.completed.items() if j != i and n > 0))

    def returned(self, i):
        self.completed[i] = self.completed.get(i, 0) + 1

    def bind(self, i):
        self.idx[threading.get_ident()] = i

    def me(self):
        return self.idx.get(threading.get_ident())

    def begin_call(self, i, nsteps, sections):
        self.total[i] = nsteps
        self.done[i] = 0
        self.sections[i] = sections
        self.files_seen = getattr(self, "files_seen", {})
        self.files_seen[i] = {}        # file -> index of its (tentative) read step in self.sch, or None once final

    # a file access behind a caching loader: the up-to-date check (a stat) is the moment the cached content is
    # validated -- it counts as the read unless an open() of the same file follows in the same call
    def file_stat(self, i, f, upto):
        seen = self.files_seen.setdefault(i, {})
        if f in seen:
            return
        before = len(self.sch)
        self.emit(i, upto=upto)
        seen[f] = before if len(self.sch) > before else None

    def file_open(self, i, f, upto):
        seen = self.files_seen.setdefault(i, {})
        idx = seen.get(f, "new")
        if idx == "new":
            self.emit(i, upto=upto)
        elif idx is not None and idx < len(self.sch) and self.sch[idx] == i:
            # retract the tentative step taken at the stat: the content is fetched now
            del self.sch[idx]
            self.done[i] -= 1
            for j, d in self.files_seen.items():
                for g, k in d.items():
                    if k is not None and k > idx:
                        d[g] = k - 1
            self.emit(i, upto=upto)
        seen[f] = None

    def emit_to(self, i, target):
        """emit steps of thread i until `target` steps of the current call are out"""
        target = min(target, self.total.get(i, 0))
        while self.done.get(i, 0) < target:
            self.done[i] += 1
            self.sch.append(i)

    def emit(self, i, upto=None):
        """one more step, but never beyond `upto`"""
        lim = self.total.get(i, 0) if upto is None else min(upto, self.total.get(i, 0))
        if self.done.get(i, 0) < lim:
            self.emit_to(i, self.done[i] + 1)

    def _section(self, i):
        for (a, b) in self.sections.get(i, []):
            if self.done.get(i, 0) < b:
                return a, b
        return None

    def acq(self, _tid):
        i = self.me()
        if i is None:
            return
        sec = self._section(i)
        if sec is None:
            return
        self.emit_to(i, sec[0])
        self.owner = i
        self.emit_to(i, sec[0] + 1)

    def rel(self, _tid):
        i = self.me()
        if i is None:
            return
        sec = self._section(i)
        if sec is not None:
            self.emit_to(i, sec[1])
        self.owner = None
        d, self.deferred = self.deferred, []
        self.sch += d

    def end_call(self, i):
        n = self.total.get(i, 0) - self.done.get(i, 0)
        if n <= 0:
            return
        if self.owner is not None and self.owner != i:
            self.deferred += [i] * n
            self.done[i] = self.total[i]
        else:
            self.emit_to(i, self.total[i])

    def env(self, code):
        self.sch.append(code)


class _LockLog:
    def __init__(self, rec):
        self.rec = rec

    def append(self, ev):
        (self.rec.acq if ev[0] == "acq" else self.rec.rel)(ev[1])


class _Patch:
    def __init__(self):
        self.saved = []

    def set(self, obj, name, value):
        self.saved.append((obj, name, getattr(obj, name, _Patch)))
        setattr(obj, name, value)

    def undo(self):
        for obj, name, old in reversed(self.saved):
            if old is _Patch:
                delattr(obj, name)
            else:
                setattr(obj, name, old)
        self.saved = []


# ============================================================================ scenarios
# The models treat values as opaque naturals that are only compared for equality.  In the real calls the
# natural n stands for the n-th entry of these tables: falsy-but-valid values, values that look like sentinels,
# non-ASCII text, nested containers, huge and negative numbers (all pairwise different in every representation
# the code uses: Python equality, type, JSON text).
STORE_VALUES = [0, 1, 2, 3, 4, 5, 6, "", {}, [], False, None, "Z\u00fcrich", ["j\u00f6rg", "zo\u00eb"],
                {"k": "\u6a5f\u623f-1"}, -2 ** 63, 10 ** 30, "null", "0", True, "\u00e9\u00e8", [0], {"": ""},
                " ", "\t\n", "x" * 255, "y" * 256, "z" * 4097, 2 ** 63 - 1, 0.5, [[[[[[[[[[[[[[[[[1]]]]]]]]]]]]]]]]]]
CACHE_VALUES = [0, 1, 2, 3, 4, 5, 6, "", {}, [], False, "Z\u00fcrich", (), "None", -1, True, " ", "x" * 4097, 0.0]
CACHE_KEYS = {7: "", 8: "\u00f6", 9: "9", 10: (1, 2), 11: b"k", 12: -1}      # other keys: the natural itself


def _canon(v):
    return (type(v).__name__, json.dumps(v, sort_keys=True, default=repr))


def to_value(table, n):
    return table[n] if n < len(table) else n


def from_value(table, v):
    cv = _canon(v)
    for i, x in enumerate(table):
        if _canon(x) == cv:
            return i
    if isinstance(v, int) and not isinstance(v, bool) and v >= len(table):
        return v
    return 9999          # a value the call was never given


class Scenario:
    """common part: thread bodies, results, env thread"""
    files = ()
    funcs = None

    def __init__(self, case):
        self.case = case
        self.rec = Rec()
        self.patch = _Patch()
        self.results = {}
        self.tmp = None
        self.build()
        n = len(case["calls"])
        self.bodies = [self._body(i, calls) for i, calls in enumerate(case["calls"])]
        self.names = [f"t{i}" for i in range(n)]
        if case.get("edits"):
            self.bodies.append(self._env_body())
            self.names.append("env")

    # -- to be provided
    def build(self):
        raise NotImplementedError

    def nsteps(self, call):
        return 3

    def sections(self, call):
        return [(0, self.nsteps(call))]

    def do(self, call):
        raise NotImplementedError

    def edit(self, k):
        pass

    def post_calls(self):
        return []

    # --
    def _run_calls(self, i, calls):
        out = []
        for call in calls:
            self.rec.begin_call(i, self.nsteps(call), self.sections(call))
            self.rec.invoked(i)
            try:
                r = self.do(call)
            except sched.Abandoned:
                raise
            except Exception as e:      # noqa
                r = self.on_exception(call, e)
            self.rec.end_call(i)
            self.rec.returned(i)
            out.append(r)
        return out

    def on_exception(self, call, e):
        return exc_result(e)

    def _body(self, i, calls):
        def body():
            self.rec.bind(i)
            self.results[i] = []
            self.results[i] = self._run_calls(i, calls)
        return body

    def _env_body(self):
        def body():
            s = sched._current
            st = s.me()
            # one decision of the scheduler = one edit (the first decision performs edit 0)
            for k, e in enumerate(self.case["edits"]):
                if k:
                    s.yield_point(st)
                self.edit(k)
                self.rec.env(self.env_code(k))
        return body

    def env_code(self, k):
        return -1

    def finish(self, results, status, s):
        n = len(self.case["calls"])
        exc = [r for r in results if r is not None and r[0] == "exc"]
        res = [list(self.results.get(i, [])) for i in range(n)]
        # the post thread: after everything else, outside the scheduler
        post = self.post_calls()
        if post and status == "ok" and not exc:
            self.rec.bind(n)
            try:
                res.append(self._run_calls(n, post))
            except sched.Abandoned:
                # the object is unusable after the run: a lock was left held, the post call can never return
                res.append([[9, 8] for _ in post])
        elif post:
            res.append([])
        # a call that never returned (deadlock) shows as a missing result -> pad with an error marker
        for i, calls in enumerate(self.case["calls"]):
            while len(res[i]) < len(calls):
                res[i].append([9, 8])
        nthreads = n + (1 if post else 0)
        stamps = [[list(map(list, ps)) for ps in self.rec.stamps.get(i, [])] for i in range(nthreads)]
        return {"results": res, "sch": list(self.rec.sch), "status": status, "stamps": stamps,
                "thread_exc": [(r[1], r[2]) for r in exc]}

    def cleanup(self):
        self.patch.undo()
        if self.tmp:
            shutil.rmtree(self.tmp, ignore_errors=True)


_FAIL_FOR = set()          # idents of threads whose next guarded access raises


class InjectedFault(RuntimeError):
    """raised by the guards inside a component's critical section to model an inner step that fails"""


class _GuardedBacking:
    """wraps the backing cache: every access must happen while the SynchronizedCache lock is held"""
    def __init__(self, backing, owner, rec):
        self._b = backing
        self._o = owner
        self._rec = rec

    def _chk(self):
        lk = lock_of(self._o)
        if not (isinstance(lk, sched.CoopLock) and lk.owner is not None):
            self._rec.guard_violations += 1
        if threading.get_ident() in _FAIL_FOR:     # the fault is injected into the injecting thread's call only
            _FAIL_FOR.discard(threading.get_ident())
            raise InjectedFault("backing cache fails")

    def clear(self):
        self._chk()
        return self._b.clear()

    def get(self, *a):
        self._chk()
        return self._b.get(*a)

    def __contains__(self, k):
        self._chk()
        return k in self._b

    def __delitem__(self, k):
        self._chk()
        del self._b[k]

    def __getitem__(self, k):
        self._chk()
        return self._b[k]

    def __len__(self):
        self._chk()
        return len(self._b)

    def __setitem__(self, k, v):
        self._chk()
        self._b[k] = v


class CacheScenario(Scenario):
    files = [VC.__file__]

    def build(self):
        sched.patch_module_use(VC, threading, sched.shim(), self.patch.set)
        self.cache_inner = VC.LRUCache(cache_size=self.case["cap"], mark_on_update=bool(self.case.get("mark", 1)))
        self.cache = VC.SynchronizedCache(self.cache_inner)
        lk = lock_of(self.cache)
        if isinstance(lk, sched.CoopLock):
            lk.log = _LockLog(self.rec)
        inner = self.cache_inner
        name = attr_name_where(self.cache, lambda v: v is inner, "backing cache of SynchronizedCache")
        setattr(self.cache, name, _GuardedBacking(inner, self.cache, self.rec))
        # legal configuration "wrapper around wrapper": a component wraps the cache it is handed once more while
        # the owner keeps using the inner wrapper; the LRU cache must still be guarded by the INNER lock
        self.outer = VC.SynchronizedCache(self.cache) if self.case.get("nested") else None

    def do(self, call):
        before = self.rec.guard_violations
        r = self._do(call)
        if self.rec.guard_violations != before:
            return [10, 1]        # the LRU cache was touched outside the critical section
        return r

    def _do(self, call):
        op = call[0]
        c = self.cache
        if self.outer is not None and (self.rec.me() or 0) % 2 == 1:
            c = self.outer              # odd threads go through the outer wrapper
        key = CACHE_KEYS.get(call[1], call[1]) if len(call) > 1 else None
        if op == 0:
            v = c.get(key)
            return [0] if v is None else [1, from_value(CACHE_VALUES, v)]
        if op in (1, 7):          # 7: the same __setitem__ on a cache built with mark_on_update=False
            c[key] = to_value(CACHE_VALUES, call[2])
            return [5]
        if op == 2:
            return [2, 1 if key in c else 0]
        if op == 3:
            try:
                del c[key]
                return [5]
            except KeyError:
                return [4]
        if op == 4:
            return [3, len(c)]
        if op == 6:
            # an access whose inner step raises while the lock is held: the exception is the call's result
            _FAIL_FOR.add(threading.get_ident())
            try:
                c.get(key)
            except InjectedFault:
                return [8]
            finally:
                _FAIL_FOR.discard(threading.get_ident())
            return [9, 0]
        c.clear()
        return [5]

    def on_exception(self, call, e):
        if isinstance(e, KeyError) and call[0] == 0:
            return [4]          # KeyError out of get(): the model's unsynchronised variant has it, the locked one never
        return exc_result(e)

    def post_calls(self):
        keys = sorted({c[1] for l in self.case["calls"] for c in l if len(c) > 1})
        return [[4]] + [[2, k] for k in keys]


TEXT_RE = "(?P<id>[0-9]+);(?P<v>[^;]+)"


def text_value(n):
    """the value column: even naturals are written as digits, odd ones as non-ASCII text"""
    return str(n) if n % 2 == 0 else f"w\u00e4rt-{n}-\u6a5f"


def text_unvalue(sv):
    return int(sv) if sv.isdigit() else int(sv.split("-")[1])


def text_content(pairs, bad):
    if bad:
        return "garbage\n"
    return "".join(f"{s};{text_value(v)}\n" for s, v in pairs)


class TextScenario(Scenario):
    files = [TF.__file__]
    funcs = sched.with_fallback({"get_data": None, "find_system": None, "_update_data": 16},
                                [(TF.__file__, ["get_data", "find_system", "_update_data"])])

    def build(self):
        c = self.case
        self.tmp = tempfile.mkdtemp(prefix="c19t")
        self.path = os.path.join(self.tmp, "f.txt")
        # worlds are file IDENTITIES: ids[0] = 0 is the initial state, every edit switches the path to ids[k+1]
        self.ids = list(c["ids"]) if "ids" in c else list(range(len(c["edits"]) + 1))
        self.world = 0
        if c.get("symlink"):
            # the configured path is a "current release" symlink; every file state is a file of its own that is
            # never touched again, so switching back to an earlier state restores the identical stat result
            self.path = os.path.join(self.tmp, "current.txt")
            for wid in sorted(set(self.ids)):
                if c["bad"][wid] != 2:
                    with open(os.path.join(self.tmp, f"state{wid}.txt"), "w") as f:
                        f.write(text_content(c["contents"][wid], c["bad"][wid]))
        self._write(0)
        sched.patch_module_use(TF, threading, sched.shim(), self.patch.set)
        rec = self.rec
        import vinegar.utils.version as VV0
        real_vffp = VV0.version_for_file_path

        import errno
        import vinegar.utils.version as VV
        scen_ = self

        def vffp(p):
            i = rec.me()
            if i is not None:
                rec.emit_to(i, 2)        # the stat step
            if threading.get_ident() in _FAIL_FOR:
                # a transient stat error other than ENOENT/EACCES while the file is being replaced; the file
                # itself stays readable
                _FAIL_FOR.discard(threading.get_ident())
                real_os = os
                fake_os = types.SimpleNamespace(**{k: getattr(real_os, k) for k in dir(real_os) if not k.startswith("__")})

                def failing_stat(*a, **k):
                    raise OSError(errno.ESTALE, "Stale file handle")
                fake_os.stat = failing_stat
                # `import os` and `from os import stat` in the version module are the same to the harness
                stat_patch = _Patch()
                sched.patch_module_use(VV, real_os, fake_os, stat_patch.set)
                try:
                    return real_vffp(p)
                finally:
                    stat_patch.undo()
            return real_vffp(p)
        _patch_function(self.patch, TF, real_vffp, vffp)
        scen = self

        def opener(*a, **k):
            # files are replaced atomically (rename), so the content a call sees is fixed at open()
            i = rec.me()
            if i is not None:
                rec.emit_to(i, 3)        # (the stat step, a no-op when the cache is disabled, and) the read step
            return open(*a, **k)
        self.patch.set(TF, "open", opener)
        self.src = TF.get_instance({"file": self.path, "regular_expression": TEXT_RE,
                                    "system_id": {"source": "id"}, "variables": {"v": {"source": "v"}},
                                    "cache_enabled": bool(c["cache_enabled"]), "mismatch_action": "error"})
        lk = lock_of(self.src)
        if isinstance(lk, sched.CoopLock):
            lk.log = _LockLog(self.rec)

    def _write(self, w):
        c = self.case
        if c.get("symlink"):
            tmp_link = self.path + ".new"
            if os.path.lexists(tmp_link):
                os.remove(tmp_link)
            os.symlink(os.path.join(self.tmp, f"state{w}.txt"), tmp_link)      # dangling when the state has no file
            os.replace(tmp_link, self.path)
            return
        if c["bad"][w] == 2:
            # the window of a delete-and-recreate replacement: the file does not exist
            if os.path.exists(self.path):
                os.remove(self.path)
            return
        tmp = self.path + ".new"
        with open(tmp, "w") as f:
            f.write(text_content(c["contents"][w], c["bad"][w]))
        os.utime(tmp, ns=(1_000_000_000 * (w + 1), 1_000_000_000 * (w + 1)))
        os.replace(tmp, self.path)          # atomic edit: readers see the old or the new file, never a mix

    def edit(self, k):
        self.world = self.ids[k + 1]
        self._write(self.world)

    def env_code(self, k):
        return -(self.ids[k + 1] + 1)

    def nsteps(self, call):
        return 4

    def do(self, call):
        op = call[0]
        arg = call[-1]
        if op in (4, 5):
            _FAIL_FOR.add(threading.get_ident())       # this call's os.stat fails once
            op = 0 if op == 4 else 1
        try:
            if op in (0, 2):
                data, _version = self.src.get_data(str(arg), {}, "")
                return [1, text_unvalue(data["v"])] if data else [0]
            # 999 stands for a look-up value that is not hashable (the not-hashable index path)
            r = self.src.find_system("v", ["x"] if arg == 999 else text_value(arg))
            return [0] if r is None else [1, int(r)]
        except ValueError:
            # the file (as it is now) has a line that does not match and mismatch_action is error; the message text
            # is not fixed by anything, so it is not matched on
            return [8]
        except FileNotFoundError:
            return [8]
        finally:
            _FAIL_FOR.discard(threading.get_ident())

    def post_calls(self):
        ids = self.case["ids"] if "ids" in self.case else list(range(len(self.case["edits"]) + 1))
        last = ids[-1]
        sys_ids = sorted({s for w in self.case["contents"] for s, _ in w})
        return [[2, last, s] for s in sys_ids[:2]]


class _GuardedCursor:
    """the cursor steps lazily on the shared connection: using it is an access to the shared resource"""
    def __init__(self, cur, conn):
        self._cur = cur
        self._conn = conn

    def fetchall(self):
        self._conn._chk()
        return self._cur.fetchall()

    def fetchone(self):
        self._conn._chk()
        return self._cur.fetchone()

    def fetchmany(self, *a):
        self._conn._chk()
        return self._cur.fetchmany(*a)

    def close(self):
        self._conn._chk()
        return self._cur.close()

    def __iter__(self):
        self._conn._chk()
        return iter(self._cur)

    def __setattr__(self, n, v):
        if n in ("_cur", "_conn"):
            object.__setattr__(self, n, v)
        else:
            setattr(self._cur, n, v)

    def __getattr__(self, n):
        return getattr(self._cur, n)


class _GuardedConn:
    def __init__(self, conn, store, rec):
        self._c = conn
        self._store = store
        self._rec = rec

    def _chk(self):
        lk = lock_of(self._store)
        if not (isinstance(lk, sched.CoopLock) and lk.owner is not None):
            self._rec.guard_violations += 1

    def execute(self, *a, **k):
        self._chk()
        if threading.get_ident() in _FAIL_FOR:
            _FAIL_FOR.discard(threading.get_ident())
            import sqlite3
            raise sqlite3.OperationalError("injected: disk I/O error")
        return _GuardedCursor(self._c.execute(*a, **k), self)

    def __getattr__(self, n):
        return getattr(self._c, n)


class StoreScenario(Scenario):
    files = [SS.__file__]

    def build(self):
        sched.patch_module_use(SS, threading, sched.shim(), self.patch.set)
        self.tmp = tempfile.mkdtemp(prefix="c19s")
        self.store = SS.DataStore(os.path.join(self.tmp, "db.sqlite"))
        lk = lock_of(self.store)
        if isinstance(lk, sched.CoopLock):
            lk.log = _LockLog(self.rec)
        import sqlite3
        self.conn_name = attr_name_where(self.store, lambda v: isinstance(v, sqlite3.Connection), "connection of DataStore")
        self.real_conn = getattr(self.store, self.conn_name)
        setattr(self.store, self.conn_name, _GuardedConn(self.real_conn, self.store, self.rec))

    def do(self, call):
        op = call[0]
        st = self.store
        before = self.rec.guard_violations
        if op == 0:
            st.set_value(str(call[1]), str(call[2]), to_value(STORE_VALUES, call[3]))
            r = [5]
        elif op == 1:
            try:
                r = [1, from_value(STORE_VALUES, st.get_value(str(call[1]), str(call[2])))]
            except KeyError:
                r = [4]
        elif op == 2:
            st.delete_value(str(call[1]), str(call[2]))
            r = [5]
        elif op == 3:
            d = st.get_data(str(call[1]))
            r = [6] + [x for k in sorted(d, key=int) for x in (int(k), from_value(STORE_VALUES, d[k]))]
        elif op == 5:
            st.delete_data(str(call[1]))
            r = [5]
        elif op == 6:
            # a statement that fails inside the critical section (sqlite error)
            import sqlite3
            _FAIL_FOR.add(threading.get_ident())
            try:
                st.get_data(str(call[1]))
                r = [9, 0]
            except sqlite3.OperationalError:
                r = [8]
            finally:
                _FAIL_FOR.discard(threading.get_ident())
        else:
            r = [7] + sorted(int(s) for s in st.find_systems(str(call[1]), to_value(STORE_VALUES, call[2])))
        if self.rec.guard_violations != before:
            return [10, 1]        # the connection was used outside the critical section
        return r

    def post_calls(self):
        syss = sorted({c[1] for l in self.case["calls"] for c in l if c[0] in (0, 1, 2, 3, 5, 6)})
        return [[3, s] for s in syss]

    def cleanup(self):
        try:
            self.real_conn.close()
        except Exception:
            pass
        super().cleanup()


_YAML_MEMO = {}


def _memo_safe_load(text):
    """yaml.safe_load with a memo (the pure-Python parser under sys.settrace dominates the run time; the
    parser is not what C19 is about)"""
    import copy
    import yaml as real_yaml
    if not isinstance(text, str):
        return real_yaml.safe_load(text)
    if text not in _YAML_MEMO:
        _YAML_MEMO[text] = real_yaml.safe_load(text)
    return copy.deepcopy(_YAML_MEMO[text])


def yaml_text(pairs):
    if [tuple(p) for p in pairs] == [(0, 0)]:
        return "{\n"                # an unparsable file version: compile_data raises
    # values >= 100 stand for a literal block scalar with keep indicator whose value ends in (v - 99) line
    # breaks: two such values differ ONLY in trailing line breaks of the file
    out = ""
    for k, v in pairs:
        if v >= 100:
            out += f"{k}: |+\n  x\n" + "\n" * (v - 100)
        else:
            out += f"{k}: {v}\n"
    return out or "{}\n"


import vinegar.template.jinja as JJ


class YamlScenario(Scenario):
    files = [YT.__file__, VC.__file__, JJ.__file__]
    # yield points: the first lines of compile_data (where the per-call state is set up), every lock
    # operation of the item cache, and every file open (explicit yield in the wrapper below)
    # with the Jinja engine (case["engine"] == "jinja") the data files are read by the template loader: every
    # line of its get_source / up-to-date callback is a yield point, so that a file can be replaced between any
    # two of the loader's file-system accesses (stat, open, stat)
    funcs = sched.with_fallback({"compile_data": 9, "get_source": None, "up_to_date_with_cache": None,
                                 "up_to_date_without_cache": None},
                                [(JJ.__file__, ["get_source", "up_to_date_with_cache", "up_to_date_without_cache"])])
    # (compile_data is not in a fallback group: tracing every function of yaml_target.py would put thousands of
    # points into one call; if it is renamed the lock operations and file opens remain the yield points)

    def build(self):
        c = self.case
        self.tmp = tempfile.mkdtemp(prefix="c19y")
        self.world = list(c["w0"])
        names = [f"f{i}" for i in range(len(c["table"]))]
        with open(os.path.join(self.tmp, "top.yaml"), "w") as f:
            f.write("'*':\n" + "".join(f"  - {names[t]}\n" for t in c["tree"]))
        for i in range(len(names)):
            self._write(i)
        sh = sched.shim()
        sched.patch_module_use(YT, threading, sh, self.patch.set)
        sched.patch_module_use(VC, threading, sh, self.patch.set)
        rec = self.rec
        tmp = self.tmp
        def opener(path, *a, **k):
            i = rec.me()
            sc = sched._current
            st = sc.me() if sc is not None else None
            if st is not None and not sc.free:
                sc.yield_point(st)                             # a file may change right before it is read
            if i is not None and os.path.basename(str(path)) != "top.yaml":
                # one file read = one step of the compile phase
                rec.file_open(i, os.path.basename(str(path)), rec.total.get(i, 0) - 3)
            return open(path, *a, **k)
        self.patch.set(YT, "open", opener)
        self.patch.set(JJ, "open", opener)
        import vinegar.utils.version as VV0
        real_jj_vffp = VV0.version_for_file_path

        def jj_vffp(path):
            i = rec.me()
            if i is not None and os.path.basename(str(path)) != "top.yaml":
                rec.file_stat(i, os.path.basename(str(path)), rec.total.get(i, 0) - 3)
            return real_jj_vffp(path)
        _patch_function(self.patch, JJ, real_jj_vffp, jj_vffp)
        import yaml as real_yaml
        ysh = types.SimpleNamespace(**{k: getattr(real_yaml, k) for k in dir(real_yaml) if not k.startswith("__")})
        ysh.safe_load = _memo_safe_load
        sched.patch_module_use(YT, real_yaml, ysh, self.patch.set)      # `import yaml` or `from yaml import safe_load`
        cfg = {"root_dir": self.tmp, "template": None, "cache_size": 8}
        if c.get("engine") == "jinja":
            cfg = {"root_dir": self.tmp, "cache_size": 8}          # the default engine, template cache enabled
        self.src = YT.YamlTargetSource(cfg)
        # the item cache of the source: the attribute that is a SynchronizedCache (or anything holding a lock)
        lk = None
        for _, v in _attrs(self.src):
            if isinstance(v, VC.SynchronizedCache) or (not isinstance(v, (str, bytes, int, float, bool, type(None)))
                                                       and hasattr(v, "__dict__") and lock_of(v) is not None):
                lk = lock_of(v)
                if lk is not None:
                    break
        if isinstance(lk, sched.CoopLock):
            lk.log = _LockLog(self.rec)

    def _write(self, f):
        c = self.case
        path = os.path.join(self.tmp, f"f{f}.yaml")
        with open(path + ".new", "w") as fh:
            fh.write(yaml_text(c["table"][f][self.world[f]]))
        os.replace(path + ".new", path)

    def edit(self, k):
        f = self.case["edits"][k]
        self.world[f] += 1
        self._write(f)

    def env_code(self, k):
        return -(self.case["edits"][k] + 1)

    def nsteps(self, call):
        return 6 + len(self.case["tree"])

    def sections(self, call):
        n = self.nsteps(call)
        return [(0, 3), (n - 3, n)]

    def do(self, call):
        try:
            data, _version = self.src.get_data("sys", {}, "")
        except RuntimeError as e:
            # a data file that cannot be processed: RuntimeError chained to its cause (the message text is not
            # fixed by anything: do not match on it)
            if e.__cause__ is not None:
                return [8]
            raise
        def unv(v):
            if isinstance(v, str):
                return 99 + (len(v) - len(v.rstrip("\n")))
            return int(v)
        return [x for k, v in data.items() for x in (int(k), unv(v))]

    def post_calls(self):
        return [[0]]


SCENARIOS = {"cache": CacheScenario, "text": TextScenario, "store": StoreScenario, "yaml": YamlScenario}


def run_schedule(case, schedule):
    cls = SCENARIOS[case["comp"]]
    out = sched.run_one(lambda: cls(case), cls.files, cls.funcs, [tuple(p) for p in schedule], max_decisions=3000)
    return out


def explore_config(job):
    """worker entry: all schedules with <= bound pre-emptions of one configuration"""
    case, bound, budget_s = job
    cls = SCENARIOS[case["comp"]]
    res = []
    # the budget is CPU time of this worker process (so that the set of schedules covered does not shrink when other
    # checks run at the same time); wall-clock only as a cap at four times the budget
    deadline = time.time() + 4 * budget_s
    cpu_deadline = time.process_time() + budget_s
    for schedule, out in sched.explore(lambda: cls(case), cls.files, cls.funcs, max_preempt=bound,
                                       unit_names=("env",), max_decisions=3000, deadline=deadline,
                                       cpu_deadline=cpu_deadline):
        res.append(([list(p) for p in schedule], out.verdict))
    return res


# ============================================================================ the check
class C19(Check):
    ident = "C19"
    technique = ("Coq proof (generic lock_linearizable over a machine of threads/calls/micro-steps, instances, YAML "
                 "cache-validity invariant, completeness of the `linearizable` search) + schedule enumeration over "
                 "real threads with the model replaying the real run's micro-step order")
    rule = ("case = one scheduled run: (component, parameters, calls of 2-3 threads x 1-3 calls, file edits, the "
            "pre-emption schedule); all schedules with <= 2 (quick) / <= 3 (thorough) pre-emptions at traced source "
            "lines of the component's module, a file edit being one of the threads; non-trivial = the run contains a "
            "pre-emption or a file edit inside/between overlapping calls; distinct by (configuration, schedule)")
    assumptions = [
        "CPython executes each traced source line of the four modules atomically with respect to the modelled state",
        "threading.Lock is a mutex (replaced by the cooperative lock of harness/sched.py in the scheduled runs)",
        "SQLite executes one statement in autocommit mode atomically (its own locking is not modelled)",
        "every file STATE has a stat version (ctime/mtime/size) of its own; an edit that switches the path back to an earlier state brings back that state's version (text files: symlink roll-back)",
        "YAML: C12's cache transparency enters the model as the invariant 'every stored item is a correct result for "
        "the versions its call read', proved preserved by every interleaving",
    ]
    trusted_extra = ["harness/sched.py (deterministic scheduler, cooperative lock); event recorder that derives the "
                     "model schedule from the lock log and stat/open/render wrappers (harness/c19.py)"]
    search_budget_s = 60

    # ---------------------------------------------------------------- configurations
    def configs(self, tier):
        q = tier == "quick"
        b2, b1 = (2, 1) if q else (3, 2)
        out = []
        # text file: two systems, one edit (and a three-state history with an unparsable state)
        base = {"comp": "text", "contents": [[(1, 10), (2, 20)], [(1, 11), (3, 20)]], "bad": [0, 0], "edits": [0]}
        for ce in (1, 0):
            out.append((dict(base, cache_enabled=ce, calls=[[[0, 1]], [[0, 1]]]), b2))
            out.append((dict(base, cache_enabled=ce, calls=[[[0, 1], [1, 20]], [[0, 2]]]), b2 if ce else b1))
        out.append((dict(base, cache_enabled=1, calls=[[[0, 1]], [[1, 20]], [[0, 3]]]), b1))
        out.append((dict(base, cache_enabled=1, calls=[[[0, 1], [0, 1], [0, 2]], [[1, 20], [0, 3]]]), b1))
        bad = {"comp": "text", "contents": [[(1, 10)], [], [(1, 12)]], "bad": [0, 1, 0], "edits": [0, 0],
               "cache_enabled": 1}
        out.append((dict(bad, calls=[[[0, 1], [0, 1]], [[0, 1]]]), b2))
        out.append((dict(bad, calls=[[[0, 1], [0, 1], [0, 1]]]), b2))
        # failure-then-continue: an operation whose inner step raises while the lock is held (unparsable file,
        # file absent during a delete-and-recreate), followed by more operations on the SAME object from the
        # same and from another thread; the failed call's answer is its exception, later calls complete and
        # see the current data
        # a "current release" symlink switched to a broken state (dangling link / unparsable file) and rolled back
        # to the untouched earlier release: the stat result after the roll-back is IDENTICAL to the remembered one
        for badkind in (2, 1):
            rb = {"comp": "text", "symlink": 1, "contents": [[(1, 10), (2, 20)], []], "bad": [0, badkind],
                  "ids": [0, 1, 0], "edits": [0, 0], "cache_enabled": 1}
            out.append((dict(rb, calls=[[[0, 1], [0, 1], [0, 1]]]), b2))
            out.append((dict(rb, calls=[[[0, 1], [0, 1], [0, 1]], [[1, 20], [0, 2]]]), b2))
        out.append(({"comp": "text", "symlink": 1, "contents": [[(1, 10)], [(1, 11)]], "bad": [0, 0], "ids": [0, 1, 0],
                     "edits": [0, 0], "cache_enabled": 1, "calls": [[[0, 1], [0, 1], [0, 1]], [[0, 1]]]}, b2))
        # find_system corners: a value carried by two systems (no unique match), a non-hashable look-up value
        nu = {"comp": "text", "contents": [[(1, 20), (2, 20), (3, 31)], [(1, 20), (3, 31)]], "bad": [0, 0], "edits": [0],
              "cache_enabled": 1}
        out.append((dict(nu, calls=[[[1, 20], [1, 31], [1, 999]], [[1, 20], [0, 2]]]), b1))
        for badkind in (1, 2):
            fb = {"comp": "text", "contents": [[(1, 10)], [], [(1, 12)]], "bad": [0, badkind, 0], "edits": [0, 0],
                  "cache_enabled": 1}
            out.append((dict(fb, calls=[[[1, 10], [1, 12]], [[0, 1]]]), b2))
            out.append((dict(fb, calls=[[[1, 10], [1, 12], [0, 1]], [[1, 12], [1, 10]]]), b1))
        fb0 = {"comp": "text", "contents": [[], [(1, 10)]], "bad": [1, 0], "edits": [0], "cache_enabled": 1}
        out.append((dict(fb0, calls=[[[1, 10], [1, 10]], [[0, 1]]]), b2))
        out.append((dict(fb0, cache_enabled=0, calls=[[[1, 10], [0, 1]], [[1, 10]]]), b1))
        out.append(({"comp": "cache", "cap": 2, "calls": [[[1, 1, 1], [6, 1], [0, 1]], [[6, 2], [1, 2, 2]]]}, b1))
        out.append(({"comp": "cache", "cap": 2, "calls": [[[3, 7], [1, 1, 1], [0, 1]], [[3, 7], [4]]]}, b1))
        out.append(({"comp": "store", "calls": [[[0, 1, 1, 5], [6, 1], [1, 1, 1]], [[6, 1], [3, 1]]]}, b1))
        ybad = [[[(0, 0)], [(1, 2)]], [[(3, 1)]]]
        out.append(({"comp": "yaml", "table": ybad, "tree": [0, 1], "w0": [0, 0], "edits": [0], "calls": [[[0], [0]]]}, b2))
        out.append(({"comp": "yaml", "table": ybad, "tree": [0, 1], "w0": [0, 0], "edits": [0],
                     "calls": [[[0], [0]], [[0]]]}, b1))
        ygb = [[[(1, 1)], [(0, 0)]], [[(3, 1)]]]
        out.append(({"comp": "yaml", "table": ygb, "tree": [0, 1], "w0": [0, 0], "edits": [0], "calls": [[[0], [0]]]}, b2))
        # LRU histories: fill the cache, UPDATE a key that is already cached (not the least recently used one),
        # then look at the others; with and without mark_on_update
        out.append(({"comp": "cache", "cap": 3, "mark": 1,
                     "calls": [[[1, 1, 1], [1, 2, 2], [1, 3, 3], [1, 2, 9], [2, 1], [4], [0, 1]], [[0, 2], [4]]]}, 1))
        out.append(({"comp": "cache", "cap": 3, "mark": 0,
                     "calls": [[[7, 1, 1], [7, 2, 2], [7, 3, 3], [7, 2, 9], [2, 1], [4], [7, 4, 4], [2, 1], [2, 2]],
                               [[0, 3], [4]]]}, 1))
        out.append(({"comp": "cache", "cap": 2, "mark": 0,
                     "calls": [[[7, 1, 1], [7, 2, 2], [7, 1, 5], [7, 3, 3], [2, 1], [2, 2], [0, 3]], [[2, 1]]]}, 1))
        # a transient stat failure (ESTALE) at one call while the file is readable, before/after an edit
        sf = {"comp": "text", "contents": [[(1, 10), (2, 20)], [(1, 11), (3, 20)]], "bad": [0, 0], "edits": [0],
              "cache_enabled": 1}
        out.append((dict(sf, calls=[[[0, 1], [4, 1], [0, 1]], [[5, 20], [0, 2]]]), b1))
        out.append((dict(sf, calls=[[[4, 1], [0, 1]], [[0, 1]]]), b2))
        # file states that differ only in the trailing line breaks of a final `|+` block scalar
        ybs = [[[(1, 100)], [(1, 101)]], [[(3, 1)]]]
        out.append(({"comp": "yaml", "table": ybs, "tree": [1, 0], "w0": [0, 0], "edits": [0], "calls": [[[0], [0]]]}, b2))
        out.append(({"comp": "yaml", "table": ybs, "tree": [1, 0], "w0": [0, 0], "edits": [0],
                     "calls": [[[0], [0]], [[0]]]}, b1))
        # nested wrappers: SynchronizedCache(SynchronizedCache(LRUCache)), thread 0 through the inner wrapper,
        # thread 1 through the outer one
        out.append(({"comp": "cache", "cap": 2, "nested": 1,
                     "calls": [[[1, 1, 1], [1, 2, 2], [1, 1, 5], [0, 2]], [[3, 2], [1, 3, 3], [0, 1], [4]]]}, b1))
        out.append(({"comp": "cache", "cap": 1, "nested": 1, "calls": [[[1, 1, 1], [0, 1]], [[1, 2, 2]]]}, b2))
        # the default Jinja engine in front of the data files (template cache): an edit between any two of the
        # loader's file-system accesses
        yj = {"comp": "yaml", "engine": "jinja", "table": [[[(1, 1), (2, 1)], [(1, 2)]], [[(3, 1)]]], "tree": [0, 1],
              "w0": [0, 0], "edits": [0]}
        out.append((dict(yj, calls=[[[0], [0]]]), b2))
        out.append((dict(yj, calls=[[[0]], [[0]]]), b1))
        # value corners (falsy, sentinel-like, non-ASCII, nested, huge): every value position of the store and
        # of the cache; interleaving is irrelevant here, bound 1 suffices
        vs = list(range(7, len(STORE_VALUES)))
        for i in range(0, len(vs), 3):
            a, b, cc = (vs + vs)[i:i + 3]
            out.append(({"comp": "store", "calls": [[[0, 1, 1, a], [0, 2, 1, b], [4, 1, a], [4, 1, b], [1, 2, 1]],
                                                    [[0, 3, 1, cc], [4, 1, cc], [3, 3], [0, 1, 1, b], [4, 1, b]]]}, 1))
        cv = list(range(7, len(CACHE_VALUES)))
        for i in range(0, len(cv), 3):
            a, b, cc = (cv + cv)[i:i + 3]
            out.append(({"comp": "cache", "cap": 3, "calls": [[[1, 7, a], [1, 8, b], [0, 7], [0, 8], [2, 9]],
                                                              [[1, 10, cc], [0, 10], [3, 11], [1, 12, a], [0, 12]]]}, 1))
        # cache
        for cap, calls in ((1, [[[1, 1, 1], [0, 1]], [[1, 2, 2]]]),
                           (2, [[[1, 1, 1], [0, 1]], [[1, 2, 2], [1, 3, 3]]]),
                           (2, [[[1, 1, 1], [3, 1]], [[0, 1], [4]]]),
                           (1, [[[1, 1, 5]], [[1, 1, 6]], [[0, 1], [2, 1]]]),
                           (2, [[[1, 1, 1], [1, 2, 2], [0, 1]], [[1, 3, 3], [5], [4]]])):
            out.append(({"comp": "cache", "cap": cap, "calls": calls}, b2 if len(calls) == 2 and sum(map(len, calls)) <= 3 else b1))
        # store
        for calls in ([[[0, 1, 1, 5], [1, 1, 1]], [[0, 1, 1, 6]]],
                      [[[0, 1, 1, 5], [0, 1, 2, 6]], [[3, 1], [4, 1, 5]]],
                      [[[0, 1, 1, 5], [2, 1, 1]], [[1, 1, 1]], [[3, 1]]]):
            out.append(({"comp": "store", "calls": calls}, b1))
        # get_data of a system with several keys concurrent with delete_data / delete + re-create of the SAME
        # system: a partially stepped cursor would yield a dict that never existed
        out.append(({"comp": "store", "calls": [[[0, 1, 1, 1], [0, 1, 2, 2], [0, 1, 3, 3], [3, 1]], [[5, 1]]]}, b2))
        out.append(({"comp": "store", "calls": [[[0, 1, 1, 1], [0, 1, 2, 2], [0, 1, 3, 3], [3, 1], [3, 1]],
                                                [[5, 1], [0, 1, 4, 4]]]}, b1))
        # yaml: a tree that reaches one file twice (D15) and a plain two-file tree; ONE edit
        tbl = [[[(1, 1), (2, 1)], [(1, 2)]], [[(3, 1)], [(3, 2), (4, 2)]]]
        for tree, edits in (([0, 1, 0], [0]), ([0, 1], [1]), ([0, 1, 0], [1])):
            y = {"comp": "yaml", "table": tbl, "tree": tree, "w0": [0, 0], "edits": edits}
            out.append((dict(y, calls=[[[0]]]), b2))
            out.append((dict(y, calls=[[[0]], [[0]]]), b2))
            out.append((dict(y, calls=[[[0], [0]], [[0]]]), b1 if q else 2))
        return out

    def gen(self, tier, rng):
        self.tier = tier
        cfgs = self.configs(tier)
        budget = 24 if tier == "quick" else 300
        jobs = [(c, b, budget) for c, b in cfgs]
        order = sorted(range(len(jobs)), key=lambda i: -jobs[i][1])
        with multiprocessing.get_context("fork").Pool(min(14, common.NPROC), initializer=common.die_with_parent) as pool:
            for i, res in zip(order, pool.imap(explore_config, [jobs[i] for i in order], chunksize=1)):
                case, bound, _ = jobs[i]
                for schedule, verdict in res:
                    c = dict(case, schedule=schedule)
                    c["_pre"] = verdict
                    yield c

    # ---------------------------------------------------------------- implementation
    def impl(self, c):
        pre = c.get("_pre")
        if pre is not None:
            return pre
        return run_schedule({k: v for k, v in c.items() if k not in ("schedule", "_pre")}, c["schedule"]).verdict

    def calls_with_post(self, c):
        cls = SCENARIOS[c["comp"]]
        # the post calls are a function of the case only
        dummy = cls.__new__(cls)
        dummy.case = c
        post = cls.post_calls(dummy)
        return list(c["calls"]) + ([post] if post else [])

    def line(self, c, obs):
        calls = self.calls_with_post(c)
        sch = obs["sch"]
        res = obs["results"]
        st = obs.get("stamps", [])
        comp = c["comp"]
        if comp == "cache":
            return sx([0, c["cap"], calls, st, sch, res])
        if comp == "text":
            return sx([1, [[list(p) for p in w] for w in c["contents"]], [1 if b else 0 for b in c["bad"]], c["cache_enabled"], calls, st, sch, res])
        if comp == "store":
            return sx([2, calls, st, sch, res])
        ncalls = [len(l) for l in calls]
        return sx([3, [[[list(p) for p in v] for v in f] for f in c["table"]], c["tree"], c["w0"], ncalls, st, sch, 1, res])

    def canon(self, obs):
        return [[list(r) for r in t] for t in obs["results"]]

    def model_should_hold(self, case):
        return True

    def nontrivial(self, c, obs):
        if c["schedule"]:
            return (json.dumps({k: v for k, v in c.items() if k not in ("_pre",)}, sort_keys=True, default=list))
        return None

    def show(self, c):
        d = {k: v for k, v in c.items() if k != "_pre"}
        d["schedule_format"] = "pre-emptions (decision index, thread, number of decisions or null=until blocked)"
        return d

    def shrink(self, c):
        sch = c["schedule"]
        base = {k: v for k, v in c.items() if k != "_pre"}
        for i in range(len(sch)):
            yield dict(base, schedule=sch[:i] + sch[i + 1:])
        calls = c["calls"]
        for i, l in enumerate(calls):
            if len(l) > 1:
                for j in range(len(l)):
                    yield dict(base, calls=calls[:i] + [l[:j] + l[j + 1:]] + calls[i + 1:])
        if len(calls) > 2:
            for i in range(len(calls)):
                yield dict(base, calls=calls[:i] + calls[i + 1:])

    def search(self, rng, deadline):
        # raise the pre-emption bound by one
        cfgs = self.configs("quick")
        for case, bound in cfgs:
            if time.time() > deadline:
                return
            for schedule, verdict in explore_config((case, bound + 1, max(1, deadline - time.time()))):
                if len(schedule) == bound + 1:
                    c = dict(case, schedule=schedule)
                    c["_pre"] = verdict
                    yield c


if __name__ == "__main__":
    raise SystemExit(C19().main())
