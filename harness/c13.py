"""C13 - data-tree merging and data-source chaining follow the documented algebra."""
import collections
import collections.abc
import copy
import itertools
import types

import common
from common import Check, sx, unsx, hist
import pyval
from pyval import enc, norm, norm_res, exc_code

from vinegar import data_source as DS
from vinegar.utils.version import version_for_str
from vinegar.utils.smart_dict import SmartLookupDict


# ----------------------------------------------------------------------------- real code runners
class CustomMapping(collections.abc.Mapping):
    """a Mapping that is not a dict (what a plug-in data source may hand out)"""
    def __init__(self, d):
        self._d = dict(d)

    def __getitem__(self, k):
        return self._d[k]

    def __iter__(self):
        return iter(self._d)

    def __len__(self):
        return len(self._d)


class CustomSequence(collections.abc.Sequence):
    """a Sequence that is neither list nor tuple"""
    def __init__(self, l):
        self._l = list(l)

    def __getitem__(self, i):
        return self._l[i]

    def __len__(self):
        return len(self._l)


WRAPS = {
    "proxy": lambda d: types.MappingProxyType(d),
    "chainmap": lambda d: collections.ChainMap(d),
    "userdict": lambda d: collections.UserDict(d),
    "custom": lambda d: CustomMapping(d),
    "ordered": lambda d: collections.OrderedDict(d),
    "smart": lambda d: SmartLookupDict(d),          # the project's own Mapping: get() resolves "a:b" paths and list indices
}


def wrapify(v, kind, top=True):
    """the same tree with every nested mapping as another Mapping type, sets frozen, list values under a key as a custom
    Sequence (the model sees mapping / set / sequence: the classification is by collections.abc)"""
    if isinstance(v, dict):
        d = {k: wrapify(x, kind, False) for k, x in v.items()}
        if top and kind not in ("all", "smart"):
            return d
        return WRAPS["custom" if kind == "all" else kind](d)
    if isinstance(v, list):
        l = [wrapify(x, kind, False) for x in v]
        return CustomSequence(l) if kind in ("custom", "all") and not any(isinstance(x, (list, dict, CustomSequence)) for x in l) else l
    if isinstance(v, tuple):
        return tuple(wrapify(x, kind, False) for x in v)
    if isinstance(v, set):
        return frozenset(v) if kind in ("custom", "all", "proxy") else v
    return v


def run_merge(a, b, ml, ms, wrap=None):
    """real merge_data_trees on private copies; returns (result | exception, a afterwards, b afterwards)"""
    a1, b1 = copy.deepcopy(a), copy.deepcopy(b)
    if wrap:
        a1, b1 = wrapify(a1, wrap), wrapify(b1, wrap)
    try:
        r = ("ok", DS.merge_data_trees(a1, b1, ml, ms))
    except Exception as e:     # noqa: BLE001 - the class is the observation
        r = ("exc", exc_code(e))
    return r, a1, b1


def run_assoc(a, b, c, ml, ms):
    """both groupings of three trees through the real merge_data_trees (exception class on failure)"""
    def m2(x, y):
        try:
            return ("ok", DS.merge_data_trees(copy.deepcopy(x), copy.deepcopy(y), ml, ms))
        except Exception as e:     # noqa: BLE001
            return ("exc", exc_code(e))
    ab = m2(a, b)
    left = ab if ab[0] == "exc" else m2(ab[1], c)
    bc = m2(b, c)
    right = bc if bc[0] == "exc" else m2(a, bc[1])
    return left, right


class Recording(DS.DataSource):
    """data source with a fixed answer that notes what it is asked"""
    def __init__(self, idx, out, found, glog, flog, fexc=None):
        self.idx, self.out, self.found, self.glog, self.flog, self.fexc = idx, out, found, glog, flog, fexc

    def set(self, s):
        """the source's backing data changes (a history on one composite)"""
        data = s["data"]
        if s.get("smart") and s["exc"] is None:
            data = wrapify(copy.deepcopy(data), "smart")
        self.out = ("ok", data, s["ver"]) if s["exc"] is None else ("exc", RAISES[s["exc"]])
        self.found, self.fexc = s["find"], s.get("fexc")

    def get_data(self, system_id, preceding_data, preceding_data_version):
        self.glog.append((self.idx, system_id, copy.deepcopy(preceding_data), preceding_data_version))
        if self.out[0] == "exc":
            raise self.out[1]()
        return copy.deepcopy(self.out[1]), self.out[2]

    def find_system(self, lookup_key, lookup_value):
        self.flog.append(self.idx)
        if self.fexc is not None:
            raise RAISES[self.fexc]()
        return self.found


RAISES = {4: RuntimeError, 3: KeyError, 6: OSError, 5: FileNotFoundError, 2: ValueError}


def call_pair(comp, c):
    try:
        d, v = comp.get_data(c["sys"], copy.deepcopy(c["pd"]), c["pv"])
        gres = ("ok", d, v)
    except Exception as e:     # noqa: BLE001
        gres = ("exc", exc_code(e))
    try:
        fres = ("ok", comp.find_system(c["fk"], c["fv"]))
    except Exception as e:     # noqa: BLE001
        fres = ("exc", exc_code(e))
    return gres, fres


def build_sources(descs, glog, flog):
    """recording sources for plain constituents; a real (nested) composite with its own flags for {"comp": ...} - its
    inner sources write to logs nobody reads (the outer chain sees one source)"""
    out = []
    for i, s in enumerate(descs):
        if "comp" in s:
            inner = build_sources(s["comp"]["srcs"], [], [])
            comp = DS.get_composite_data_source(inner, merge_lists=s["comp"]["ml"], merge_sets=s["comp"]["ms"])
            # the nested composite stays what it is (a _CompositeDataSource object); its two methods are shadowed on the
            # instance so that the call it receives from the outer chain is noted like for a recording source
            og, of = comp.get_data, comp.find_system

            def g(system_id, preceding_data, preceding_data_version, _i=i, _og=og):
                glog.append((_i, system_id, copy.deepcopy(preceding_data), preceding_data_version))
                return _og(system_id, preceding_data, preceding_data_version)

            def f(lookup_key, lookup_value, _i=i, _of=of):
                flog.append(_i)
                return _of(lookup_key, lookup_value)
            comp.get_data, comp.find_system = g, f
            out.append(comp)
        else:
            r = Recording(i, None, None, glog, flog)
            r.set(s)
            out.append(r)
    return out


def run_chain(c):
    glog, flog = [], []
    srcs = build_sources(c["srcs"], glog, flog)
    comp = DS.get_composite_data_source(srcs, merge_lists=c["ml"], merge_sets=c["ms"])
    gres, fres = call_pair(comp, c)
    return glog, gres, flog, fres


class HistObs(list):
    """observation of a history (one entry per call pair)"""


def run_steps(comps, srcs, glog, flog, steps):
    out = []
    for st in steps:
        for r, s in zip(srcs, st["srcs"]):
            r.set(s)
        del glog[:], flog[:]
        gres, fres = call_pair(comps[st.get("comp", 0) % len(comps)], st)
        out.append((list(glog), gres, list(flog), fres))
    return out


def run_chist(c):
    """ONE composite (or two composites over the same source objects, used alternately); the sources' answers change
    between the calls"""
    glog, flog = [], []
    n = len(c["steps"][0]["srcs"])
    srcs = [Recording(i, None, None, glog, flog) for i in range(n)]
    comps = [DS.get_composite_data_source(srcs, merge_lists=c["ml"], merge_sets=c["ms"]) for _ in range(c.get("ncomp", 1))]
    return HistObs(run_steps(comps, srcs, glog, flog, c["steps"]))


class BuildObs(tuple):
    """(construction attempts, call pairs)"""


_build_seq = [0]


def run_build(c):
    """a composite built from (name, config) descriptions; creating constituent j raises the first fails[j] times;
    the caller retries the construction and then uses the composite"""
    import vfsrc.rec as R
    glog, flog = [], []
    n = len(c["fails"])
    srcs = [Recording(i, None, None, glog, flog) for i in range(n)]
    _build_seq[0] += 1
    key = "b%d" % _build_seq[0]
    R.REGISTRY[key] = {"fails": list(c["fails"]), "exc": RAISES[c["fexc"]], "sources": srcs, "attempts": []}
    try:
        cons, comp = [], None
        for _ in range(c["tries"]):
            try:
                comp = DS.get_composite_data_source([("vfsrc.rec", {"reg": key, "idx": j}) for j in range(n)],
                                                    merge_lists=c["ml"], merge_sets=c["ms"])
                cons.append(0)
                break
            except Exception as e:     # noqa: BLE001
                cons.append(exc_code(e))
        steps = run_steps([comp], srcs, glog, flog, c["steps"]) if comp is not None else []
        return BuildObs((cons, steps))
    finally:
        del R.REGISTRY[key]


def u8(s):
    """version-like strings travel as their UTF-8 bytes (any code point; "|" stays a single byte)"""
    return s.encode("utf-8") if isinstance(s, str) else s


def chain_versions(srcs, cur, t):
    """follows the chain (into nested composites) and notes every string aggregate_version is expected to hash, with
    the real hash; returns the resulting version or None when a constituent raises"""
    for s in srcs:
        if "comp" in s:
            nv = chain_versions(s["comp"]["srcs"], cur, t)
            if nv is None:
                return None
        elif s["exc"] is not None:
            return None
        else:
            nv = s["ver"]
        text = cur + "|" + nv
        cur = version_for_str(text)
        t.append([u8(text), u8(cur)])
    return cur


def hash_table(c, t=None):
    """the strings aggregate_version is expected to hash along the chain, with the real hash"""
    t = [] if t is None else t
    chain_versions(c["srcs"], c["pv"], t)
    return t


# ----------------------------------------------------------------------------- encoding
def enc_res_tree(r):
    return [0, enc(r[1])] if r[0] == "ok" else [1, r[1]]


def enc_gres(r):
    return [0, [enc(r[1]), u8(r[2])]] if r[0] == "ok" else [1, r[1]]


def enc_ostr(o):
    return [] if o is None else [u8(o)]


def enc_fres(r):
    return enc_ostr(r[1]) if r[0] == "ok" else [r[1]]


def enc_src(s):
    if "comp" in s:
        return [9, s["comp"]["ml"], s["comp"]["ms"], [enc_src(x) for x in s["comp"]["srcs"]]]
    return [[0, [enc(s["data"]), u8(s["ver"])]] if s["exc"] is None else [1, s["exc"]],
            enc_ostr(s["find"]) if s.get("fexc") is None else [s["fexc"]]]


def enc_step_obs(o):
    glog, gres, flog, fres = o
    return [[[i, u8(s), enc(d), u8(v)] for (i, s, d, v) in glog], enc_gres(gres), list(flog), enc_fres(fres)]


def norm_step(x):
    return [[[c[0], c[1], norm(c[2]), c[3]] for c in x[0]], norm_gres(x[1]), x[2], x[3]]


def norm_gres(x):
    return [0, [norm(x[1][0]), x[1][1]]] if x[0] == 0 else x


def norm_obs(kind, x):
    if kind == "assoc":
        return [norm_res(x[0]), norm_res(x[1])]
    if kind == "chist":
        return [norm_step(o) for o in x]
    if kind == "build":
        return [x[0], [norm_step(o) for o in x[1]]]
    if kind == "merge":
        return [norm_res(x[0]), norm(x[1]), norm(x[2])]
    return norm_step(x)


def show_src(s):
    if "comp" in s:
        return {"composite": {"merge_lists": s["comp"]["ml"], "merge_sets": s["comp"]["ms"],
                              "srcs": [show_src(x) for x in s["comp"]["srcs"]]}}
    return dict(s, data=pyval.show(s["data"]))


class C13(Check):
    ident = "C13"
    technique = ("Coq proofs about a Gallina model of _merge_data_trees / _CompositeDataSource / aggregate_version "
                 "(merge_lookup_spec, identities, idempotence, composite = fold with exact source arguments, "
                 "first non-None, version injectivity) + differential correspondence with the real functions")
    rule = ("construction of a composite from (name, config) descriptions where creating one constituent fails the first "
            "k times, retried, then used; failing operations in the middle of a history (merge TypeError, source raising) "
            "followed by the identical call and by recovery, on one or two composites over the same sources; histories: 3-5 call pairs on ONE composite whose sources change data/version, start or stop raising "
            "(get_data and find_system) between the calls; special values (None/0/''/b''/False/{}/[]/()/set()/non-ASCII/"
            "huge) in every value position and as keys; assoc cases: every triple of dict trees up to 2 nodes and random triples up to 3 nodes / random deeper trees, "
            "both groupings through the real merge_data_trees compared incl. the exception class; merge cases: every ordered pair of dict trees over {None,0,1,'x',b'x',[],(),set(),{}} and nested "
            "list/tuple/set/dict with node-count bound, all four (merge_lists, merge_sets) settings, the single-key "
            "family {a:X} x {a:Y} over sampled pairs of values up to 3 nodes, and seeded random deeper trees (tuple/bytes/int/None "
            "keys, opaque objects); chain cases: chains of 0..4 recording sources (fixed answer or raising) through the "
            "real get_composite_data_source; non-trivial = merge with at least one common key, or chain with >= 2 sources; "
            "distinct by full case")
    assumptions = [
        "bool is not mixed with int 0/1 as dict key, set member or list element (Python's True == 1 is outside the model)",
        "no float NaN, no user classes with custom __eq__ besides the harness' Opaque",
        "_hash_str is a function; composite_version_injective assumes it is injective on the strings hashed and has fixed-length output",
    ]

    # ---- generators
    def gen(self, tier, rng):
        flags = [(False, False), (False, True), (True, False), (True, True)]
        bound = 5 if tier == "quick" else 6
        by_size = {n: pyval.trees(n) for n in range(1, 5)}
        for na in range(1, 5):
            for nb in range(1, 5):
                if na + nb > bound:
                    continue
                for a in by_size[na]:
                    for b in by_size[nb]:
                        for ml, ms in flags:
                            yield {"kind": "merge", "a": pyval.thaw(a), "b": pyval.thaw(b), "ml": ml, "ms": ms}
        # one common key, every pair of values up to 3 nodes
        vs = [v for n in (1, 2, 3) for v in pyval.vals(n)]
        pairs = [(x, y) for x in vs for y in vs]
        pairs = rng.sample(pairs, 3500 if tier == "quick" else 60000)
        for x, y in pairs:
            for ml, ms in flags:
                yield {"kind": "merge", "a": {"a": pyval.thaw(x)}, "b": {"a": pyval.thaw(y)}, "ml": ml, "ms": ms}
        # random deeper trees, as pairs and as triples (fold of two merges through a chain)
        for _ in range(3000 if tier == "quick" else 40000):
            a, b = pyval.rand_tree(rng, 3), pyval.rand_tree(rng, 3)
            if rng.random() < 0.2:
                a = copy.deepcopy(b) if rng.random() < 0.5 else a
            if rng.random() < 0.1 and a:
                a[rng.choice(list(a))] = rng.choice([True, False])
            ml, ms = rng.choice(flags)
            yield {"kind": "merge", "a": a, "b": b, "ml": ml, "ms": ms}
        # associativity (incl. the exception): every triple of trees up to 2 nodes, random triples of trees up to 3 nodes
        small = [pyval.thaw(t) for n in (1, 2) for t in pyval.trees(n)]
        for a, b, c in itertools.product(small, repeat=3):
            for ml, ms in flags:
                yield {"kind": "assoc", "a": a, "b": b, "c": c, "ml": ml, "ms": ms}
        mid = [pyval.thaw(t) for n in (1, 2, 3) for t in pyval.trees(n)]
        for i in range(2200 if tier == "quick" else 150000):
            if i % 4 == 0:
                a, b, c = (pyval.rand_tree(rng, 3, keys=("a", "b", 1)) for _ in range(3))
            else:
                a, b, c = (rng.choice(mid) for _ in range(3))
            ml, ms = rng.choice(flags)
            yield {"kind": "assoc", "a": a, "b": b, "c": c, "ml": ml, "ms": ms}
        # falsy / sentinel / non-ASCII / huge values in every value position under one common key, and as keys
        special = [None, 0, "", b"", False, True, {}, [], (), set(), "\xe9", -7, 10 ** 30, {"": None}, [None], (None,), {0}]
        for x in special:
            for y in special:
                for ml, ms in flags:
                    yield {"kind": "merge", "a": {"a": x, "k": 1}, "b": {"a": y}, "ml": ml, "ms": ms}
        for k in (None, 0, "", b"", "\xe9", (), ("", None), -1, 10 ** 30):
            for x in (None, 0, {}, [1]):
                for ml, ms in flags[1:3]:
                    yield {"kind": "merge", "a": {k: x, "z": {k: x}}, "b": {"z": {k: [2]}, k: {}}, "ml": ml, "ms": ms}
        # limits: nesting depth 17 / 64 with a special value at the bottom of the overriding tree, 300 keys, long
        # strings, long lists and sets
        def nest(depth, leaf):
            t = leaf
            for i in range(depth):
                t = {"n": t, "side%d" % (i % 3): i}
            return t
        for depth in (2, 3, 16, 17, 64):
            for leaf_a, leaf_b in ((1, None), ([1], None), ({"x": 1}, {"x": None}), (None, 0), ({1}, set()), ([1, 2], [2, 3]), ({}, 5)):
                for ml, ms in flags[1:]:
                    yield {"kind": "merge", "a": nest(depth, leaf_a), "b": nest(depth, leaf_b), "ml": ml, "ms": ms}
        wide_a = {"k%d" % i: i for i in range(300)}
        wide_b = {"k%d" % i: {"n": i} if i % 7 == 0 else None for i in range(299, 100, -1)}
        yield {"kind": "merge", "a": wide_a, "b": wide_b, "ml": False, "ms": True}
        yield {"kind": "merge", "a": {"s": "x" * 4096, "l": list(range(300)), "st": set(range(300))},
               "b": {"s": "", "l": list(range(150, 450)), "st": set(range(200, 500))}, "ml": True, "ms": True}
        # histories on ONE composite: a source changes its answer (or starts / stops failing) between calls
        hmenu = [{"a": 1}, {"a": 2, "b": [1]}, {"b": [2]}, {}, {"c": {"d": 1}}, {"a": None}, {"a": 0, "b": []},
                 {"c": 5}, {"a": {"x": 1}}, {"b": {"y": 1}}]
        for n in (2, 3):
            for _ in range(60 if tier == "quick" else 1500):
                cur = [{"data": rng.choice(hmenu), "ver": "v%d" % j, "exc": None, "find": rng.choice([None, None, "sys%d" % j, ""]),
                        "fexc": None} for j in range(n)]
                steps = []
                sysid, pd, pv = rng.choice(["s1", ""]), rng.choice([{}, {"a": 0}]), rng.choice(["", "p0"])
                for k in range(rng.randrange(3, 6)):
                    if k >= 1 and rng.random() < 0.65:
                        j = rng.randrange(n)
                        r = rng.random()
                        if r < 0.55:
                            cur[j] = dict(cur[j], data=rng.choice(hmenu), ver=cur[j]["ver"] + "'", exc=None)
                        elif r < 0.7:
                            cur[j] = dict(cur[j], exc=rng.choice([6, 4]))
                        elif r < 0.85:
                            cur[j] = dict(cur[j], fexc=rng.choice([6, 5, None]), exc=None)
                        else:
                            cur[j] = dict(cur[j], find=rng.choice([None, "other", ""]), fexc=None)
                    steps.append({"srcs": [dict(x) for x in cur], "sys": sysid, "pd": pd, "pv": pv, "fk": "mac", "fv": "02:00"})
                ml, ms = rng.choice(flags)
                ncomp = rng.choice([1, 1, 2])
                for i, st in enumerate(steps):
                    st["comp"] = rng.randrange(ncomp)
                yield {"kind": "chist", "ml": ml, "ms": ms, "steps": steps, "ncomp": ncomp}
        # Mapping / Set / Sequence types other than dict / set / list / tuple in every nested position (the classification is
        # by collections.abc): MappingProxyType, ChainMap, UserDict, OrderedDict, custom Mapping, frozenset, custom Sequence
        wvals = [{"x": 1}, {"x": {"y": 1}}, {}, [1, 2], [2, 3], {1, 2}, {2}, 5, None, (1,), "s"]
        # SmartLookupDict as either tree, with keys of the other tree that are ":"-paths or list indices into it, and non-str keys
        sm_a = [{"boot:kernel": 1, "boot": {"initrd": 2}}, {"l:0": "x", "l": ["a0"]}, {1: "int", "1": "str", None: 0}, {"a:b:c": 1, "a": {"b": {"d": 2}}},
                {"boot:kernel": {"deep": 1}}, {":": 1, "": {"": 2}}, {"boot": {"kernel:x": 1}}]
        sm_b = [{"boot": {"kernel": "K"}}, {"l": ["e0", "e1"]}, {"a": {"b": {"c": "C"}}}, {"1": {"x": 1}}, {"": {"": "E"}}, {"boot": {"kernel": {"x": 9}}},
                {"boot": {"kernel": {"deep": 2}}, "boot:kernel": {"flat": 3}}]
        for x in sm_a:
            for y in sm_b:
                for ml, ms in flags[1:3]:
                    yield {"kind": "merge", "a": x, "b": y, "ml": ml, "ms": ms, "wrap": "smart"}
                    yield {"kind": "merge", "a": y, "b": x, "ml": ml, "ms": ms, "wrap": "smart"}
        for i, x in enumerate(sm_a):
            y = sm_b[i % len(sm_b)]
            srcs = [{"data": x, "ver": "v0", "exc": None, "find": None, "fexc": None, "smart": True},
                    {"data": y, "ver": "v1", "exc": None, "find": None, "fexc": None, "smart": True},
                    {"data": x, "ver": "v2", "exc": None, "find": None, "fexc": None}]
            yield {"kind": "chain", "ml": False, "ms": True, "srcs": srcs, "sys": "s1", "pd": {}, "pv": "", "fk": "mac", "fv": 1}
        for kind in ("proxy", "chainmap", "userdict", "custom", "ordered", "all", "smart"):
            for x in wvals:
                for y in wvals:
                    for ml, ms in (flags if kind in ("proxy", "custom") else flags[1:2]):
                        yield {"kind": "merge", "a": {"a": x, "n": {"k": x}}, "b": {"a": y, "n": {"k": y, "z": 1}}, "ml": ml, "ms": ms,
                               "wrap": kind}
        for _ in range(300 if tier == "quick" else 6000):
            ml, ms = rng.choice(flags)
            yield {"kind": "merge", "a": pyval.rand_tree(rng, 3, keys=("a", "b", 1)), "b": pyval.rand_tree(rng, 3, keys=("a", "b", 1)),
                   "ml": ml, "ms": ms, "wrap": rng.choice(["proxy", "chainmap", "userdict", "custom", "all", "smart"])}
        # nested composites: a composite (with its OWN merge flags) as a constituent of another composite
        leafs = [{"data": {"l": [1, 2], "s": {1}, "d": {"p": [1]}}, "ver": "v0", "exc": None, "find": None, "fexc": None},
                 {"data": {"l": [2, 3], "s": {2}, "d": {"p": [2]}}, "ver": "v1", "exc": None, "find": "one", "fexc": None},
                 {"data": {"l": [3, 1], "s": {3}, "d": {"p": [1, 3]}}, "ver": "v2", "exc": None, "find": "two", "fexc": None},
                 {"data": None, "ver": "", "exc": 6, "find": None, "fexc": 6}]
        shapes = [lambda f, i: [{"comp": dict(f, srcs=[leafs[0], leafs[1]])}, leafs[2]],
                  lambda f, i: [leafs[0], {"comp": dict(f, srcs=[leafs[1], leafs[2]])}],
                  lambda f, i: [{"comp": dict(f, srcs=[leafs[0], {"comp": dict(i, srcs=[leafs[1], leafs[2]])}])}, leafs[0]],
                  lambda f, i: [{"comp": dict(f, srcs=[])}, leafs[1]],
                  lambda f, i: [{"comp": dict(f, srcs=[leafs[0], leafs[3]])}, leafs[2]],
                  lambda f, i: [{"comp": dict(f, srcs=[leafs[1]])}, {"comp": dict(i, srcs=[leafs[0], leafs[2]])}]]
        for shape in shapes:
            for (oml, oms) in flags:
                for (iml, ims) in flags:
                    srcs = shape({"ml": iml, "ms": ims}, {"ml": not iml, "ms": not ims})
                    yield {"kind": "chain", "ml": oml, "ms": oms, "srcs": srcs, "sys": "s1", "pd": {"l": [0]}, "pv": "p0",
                           "fk": "mac", "fv": 1}
        # non-ASCII version strings, among them canonically equivalent but different ones (composed / decomposed)
        wvers = ["rev-7", "rev-7\n", "rev-7 ", " rev-7", "rev-7\t", "", " ", "\n", "17", "17 ", "1 7", "\u00a017", "17\r\n"]
        for i, v1 in enumerate(wvers):
            for v2 in wvers[i + 1:]:
                for pos in (0, 1):
                    base = [{"data": {"a": 1}, "ver": "k0", "exc": None, "find": None, "fexc": None},
                            {"data": {"b": 1}, "ver": "k1", "exc": None, "find": None, "fexc": None}]
                    one, two = [dict(x) for x in base], [dict(x) for x in base]
                    one[pos]["ver"], two[pos]["ver"] = v1, v2
                    steps = [{"srcs": [dict(x) for x in srcs], "sys": "s1", "pd": {}, "pv": pv, "fk": "mac", "fv": 1}
                             for srcs in (one, two, one) for pv in ("p0",)]
                    yield {"kind": "chist", "ml": False, "ms": True, "steps": steps}
        # the caller's preceding version differing only in white space
        for pv1, pv2 in (("p", "p "), ("", " "), ("p", "p\n"), (" p", "p")):
            srcs = [{"data": {"a": 1}, "ver": "k0", "exc": None, "find": None, "fexc": None}]
            yield {"kind": "chist", "ml": False, "ms": True,
                   "steps": [{"srcs": [dict(x) for x in srcs], "sys": "s1", "pd": {}, "pv": pv, "fk": "mac", "fv": 1} for pv in (pv1, pv2, pv1)]}
        uvers = ["Ren\u00e9", "Rene\u0301", "\u00c5", "A\u030a", "\u212b", "\u00e9", "e\u0301", "v\u00fc|x", "\U0001f600", "\u00df", "ss"]
        for v1 in uvers:
            for v2 in uvers:
                if v1 == v2:
                    continue
                base = [{"data": {"a": 1}, "ver": v1, "exc": None, "find": None, "fexc": None},
                        {"data": {"b": 1}, "ver": "k", "exc": None, "find": None, "fexc": None}]
                other = [dict(base[0], ver=v2), base[1]]
                steps = [{"srcs": [dict(x) for x in srcs], "sys": "s\u00e9", "pd": {}, "pv": pv, "fk": "m\u00e4c", "fv": 1}
                         for srcs in (base, other, base) for pv in ("p\u00e9",)]
                yield {"kind": "chist", "ml": False, "ms": True, "steps": steps}
        # a failing operation in the middle of a history leaves no trace: call 1 succeeds, then a source changes so that
        # the call fails (a scalar meets a mapping / a flagged list or set meets another kind / the source raises from
        # get_data / from find_system), the identical call is repeated, then the source heals; one or two composites
        okd = [{"a": {"x": 1}, "b": [1], "s": {1}}, {"a": {"y": 2}}, {}]
        bad = [("data", {"a": 5}), ("data", {"b": {"z": 1}}), ("data", {"s": [1]}), ("exc", 6), ("exc", 4), ("fexc", 6), ("fexc", 5)]
        for n in (2, 3):
            for pos in range(n):
                for what, val in bad:
                    for ncomp in (1, 2):
                        base = [{"data": okd[j % len(okd)], "ver": "v%d" % j, "exc": None, "find": None if j < n - 1 else "last",
                                 "fexc": None} for j in range(n)]
                        broken = [dict(x) for x in base]
                        if what == "data":
                            broken[pos] = dict(broken[pos], data=val, ver="w%d" % pos)
                        elif what == "exc":
                            broken[pos] = dict(broken[pos], exc=val)
                        else:
                            broken[pos] = dict(broken[pos], fexc=val)
                        healed = [dict(x) for x in base]
                        healed[pos] = dict(healed[pos], ver="h%d" % pos)
                        seq = [base, base, broken, broken, healed, broken, base]
                        steps = [{"srcs": [dict(x) for x in srcs], "sys": "s1", "pd": {}, "pv": "p0", "fk": "mac", "fv": "02:00",
                                  "comp": (i % ncomp)} for i, srcs in enumerate(seq)]
                        yield {"kind": "chist", "ml": True, "ms": True, "steps": steps, "ncomp": ncomp}
        # construction from (name, config) descriptions with a constituent that cannot be created at first
        for n in (1, 2, 3):
            for pos in range(n):
                for k in (1, 2):
                    for fexc in (6, 4):
                        fails = [0] * n
                        fails[pos] = k
                        base = [{"data": {"k%d" % j: j, "a": {"x%d" % j: j}}, "ver": "v%d" % j, "exc": None,
                                 "find": "sys%d" % j if j == pos else None, "fexc": None} for j in range(n)]
                        steps = [{"srcs": [dict(x) for x in base], "sys": "s1", "pd": {}, "pv": "", "fk": "mac", "fv": 1}
                                 for _ in range(3)]
                        for tries in (1, k, k + 1):
                            yield {"kind": "build", "ml": False, "ms": True, "fails": fails, "fexc": fexc, "tries": tries, "steps": steps}
        for _ in range(40 if tier == "quick" else 800):
            n = rng.randrange(1, 4)
            fails = [rng.choice([0, 0, 1, 2]) for _ in range(n)]
            cur = [{"data": rng.choice(hmenu), "ver": "v%d" % j, "exc": None, "find": rng.choice([None, "sys%d" % j]), "fexc": None}
                   for j in range(n)]
            steps = [{"srcs": [dict(x) for x in cur], "sys": "s1", "pd": {}, "pv": "", "fk": "mac", "fv": 1} for _ in range(3)]
            yield {"kind": "build", "ml": rng.random() < 0.5, "ms": True, "fails": fails, "fexc": rng.choice([6, 4, 5]),
                   "tries": rng.randrange(1, 5), "steps": steps}
        # chains
        menu = [{"a": 1}, {"a": 2, "b": [1]}, {"b": [2, 1]}, {"c": {"d": 1}}, {"c": {"e": {1}}}, {"c": 5}, {}, {"a": {"x": None}}]
        n_ex = 0
        for n in range(0, 5):
            combos = itertools.product(range(len(menu) + 1), repeat=n)
            combos = list(combos)
            if len(combos) > (300 if tier == "quick" else 3000):
                combos = rng.sample(combos, 300 if tier == "quick" else 3000)
            for combo in combos:
                srcs = []
                for j, m in enumerate(combo):
                    if m == len(menu):
                        srcs.append({"data": None, "ver": "", "exc": rng.choice([4, 3, 6]), "find": None,
                                     "fexc": rng.choice([None, 6, 5, 2])})
                    else:
                        srcs.append({"data": menu[m], "ver": rng.choice(["v%d" % j, "", "a|b", "v"]),
                                     "exc": None, "find": rng.choice([None, None, "sys%d" % j, ""])})
                ml, ms = rng.choice(flags)
                yield {"kind": "chain", "ml": ml, "ms": ms, "srcs": srcs, "sys": rng.choice(["s1", ""]),
                       "pd": rng.choice([{}, {"a": 0}, {"c": {"z": 0}, "b": [0]}]), "pv": rng.choice(["", "p0", "x|y"]),
                       "fk": "mac", "fv": rng.choice(["02:00", 5, None])}
                n_ex += 1
        for _ in range(500 if tier == "quick" else 8000):
            n = rng.randrange(0, 5)
            srcs = []
            for j in range(n):
                if rng.random() < 0.08:
                    srcs.append({"data": None, "ver": "", "exc": rng.choice([4, 3, 6]), "find": rng.choice([None, "q"]),
                                 "fexc": rng.choice([None, None, 6, 5])})
                else:
                    srcs.append({"data": pyval.rand_tree(rng, 2, keys=("a", "b", "c")),
                                 "ver": "".join(rng.choice("ab|0") for _ in range(rng.randrange(0, 5))),
                                 "exc": None, "find": rng.choice([None, None, None, "sys%d" % j])})
            ml, ms = rng.choice(flags)
            yield {"kind": "chain", "ml": ml, "ms": ms, "srcs": srcs, "sys": rng.choice(["s1", "", "other"]),
                   "pd": pyval.rand_tree(rng, 2, keys=("a", "b", "c")), "pv": rng.choice(["", "p0", "x|y"]),
                   "fk": rng.choice(["mac", "a:b"]), "fv": rng.choice(["02:00", 5, None, ("t",)])}

    # ---- real code
    def impl(self, c):
        if c["kind"] == "assoc":
            return run_assoc(c["a"], c["b"], c["c"], c["ml"], c["ms"])
        if c["kind"] == "merge":
            return run_merge(c["a"], c["b"], c["ml"], c["ms"], c.get("wrap"))
        if c["kind"] == "chist":
            return run_chist(c)
        if c["kind"] == "build":
            return run_build(c)
        return run_chain(c)

    def enc_obs(self, c, o):
        if c["kind"] == "assoc":
            return [enc_res_tree(o[0]), enc_res_tree(o[1])]
        if c["kind"] == "merge":
            r, a1, b1 = o
            return [enc_res_tree(r), enc(a1), enc(b1)]
        if c["kind"] == "chist":
            return [enc_step_obs(x) for x in o]
        if c["kind"] == "build":
            return [list(o[0]), [enc_step_obs(x) for x in o[1]]]
        return enc_step_obs(o)

    def line(self, c, o):
        if c["kind"] == "assoc":
            return sx([2, c["ml"], c["ms"], enc(c["a"]), enc(c["b"]), enc(c["c"]), self.enc_obs(c, o)])
        if c["kind"] == "merge":
            return sx([0, c["ml"], c["ms"], enc(c["a"]), enc(c["b"]), self.enc_obs(c, o)])
        if c["kind"] in ("chist", "build"):
            ht = []
            for st in c["steps"]:
                hash_table(st, ht)
            steps = [[[enc_src(s) for s in st["srcs"]], u8(st["sys"]), enc(st["pd"]), u8(st["pv"]), u8(st["fk"]), enc(st["fv"])]
                     for st in c["steps"]]
            if c["kind"] == "build":
                return sx([4, c["ml"], c["ms"], ht, list(c["fails"]), c["fexc"], c["tries"], steps, self.enc_obs(c, o)])
            return sx([3, c["ml"], c["ms"], ht, steps, self.enc_obs(c, o)])
        srcs = [enc_src(s) for s in c["srcs"]]
        return sx([1, c["ml"], c["ms"], hash_table(c), srcs, u8(c["sys"]), enc(c["pd"]), u8(c["pv"]), u8(c["fk"]), enc(c["fv"]),
                   self.enc_obs(c, o)])

    def evaluate(self, cases):
        # model observations are brought to the same canonical form as canon() (set members sorted)
        res = super().evaluate(cases)
        out = []
        for (c, o, m, fm, fi, rest) in res:
            # rest[0] = 0: a triple on which the MODEL's two groupings disagree (associativity is checked, not proved)
            if len(rest) >= 2 and rest[1] == 0:
                self._outside.add(id(c))
            if c["kind"] == "assoc" and len(rest) >= 2 and rest[1] == 0:
                self._not_assoc_in_model.add(id(c))
                fm = fm or ["merge_assoc(model)"]
            out.append((c, o, norm_obs(c["kind"], m), fm, fi, rest))
        return out

    _not_assoc_in_model = set()
    _outside = set()

    def canon(self, o):
        # the case kind is recoverable from the observation's arity
        kind = "build" if isinstance(o, BuildObs) else "chist" if isinstance(o, HistObs) else {2: "assoc", 3: "merge"}.get(len(o), "chain")
        c = {"kind": kind}
        return norm_obs(kind, unsx(sx(self.enc_obs(c, o))))

    def nontrivial(self, c, o):
        if c["kind"] == "assoc":
            if any(k in c["b"] and k in c["c"] for k in c["a"]):
                return sx([enc(c["a"]), enc(c["b"]), enc(c["c"]), c["ml"], c["ms"]])
            return None
        if c["kind"] == "merge":
            if any(k in c["b"] for k in c["a"]):
                return sx([enc(c["a"]), enc(c["b"]), c["ml"], c["ms"]])
            return None
        if c["kind"] in ("chist", "build"):
            return repr(c) if len(c["steps"]) >= 3 else None
        if len(c["srcs"]) >= 2:
            return repr(c)
        return None

    def model_should_hold(self, c):
        # histories on which the real hash collides are outside the theorem's hypotheses (they are reported through the
        # implementation's observation: version_changes_with_constituents)
        return id(c) not in self._outside

    def show(self, c):
        if c["kind"] == "assoc":
            return {"kind": "assoc", "a": pyval.show(c["a"]), "b": pyval.show(c["b"]), "c": pyval.show(c["c"]),
                    "merge_lists": c["ml"], "merge_sets": c["ms"]}
        if c["kind"] == "merge":
            return {"kind": "merge", "a": pyval.show(c["a"]), "b": pyval.show(c["b"]),
                    "merge_lists": c["ml"], "merge_sets": c["ms"], "nested_container_types": c.get("wrap") or "dict/list/set"}
        if c["kind"] in ("chist", "build"):
            return {"kind": "history on one composite" if c["kind"] == "chist" else "composite built from (name, config) descriptions",
                    "composites": c.get("ncomp", 1), "construction_failures_per_constituent": c.get("fails"),
                    "construction_error": c.get("fexc"), "construction_attempts_allowed": c.get("tries"), "merge_lists": c["ml"], "merge_sets": c["ms"],
                    "steps": [dict(st, srcs=[show_src(s) for s in st["srcs"]], pd=pyval.show(st["pd"]))
                              for st in c["steps"]]}
        d = dict(c)
        d["srcs"] = [show_src(s) for s in c["srcs"]]
        d["pd"] = pyval.show(c["pd"])
        d["fv"] = pyval.show(c["fv"])
        return d

    def shrink(self, c):
        if c["kind"] in ("chist", "build"):
            st = c["steps"]
            for i in range(len(st)):
                if len(st) > 1:
                    yield dict(c, steps=st[:i] + st[i + 1:])
            n = len(st[0]["srcs"])
            for j in range(n):
                if n > 1:
                    d = dict(c, steps=[dict(x, srcs=x["srcs"][:j] + x["srcs"][j + 1:]) for x in st])
                    if c["kind"] == "build":
                        d["fails"] = c["fails"][:j] + c["fails"][j + 1:]
                    yield d
            return
        if c["kind"] in ("merge", "assoc"):
            for side in (("a", "b") if c["kind"] == "merge" else ("a", "b", "c")):
                t = c[side]
                for k in list(t):
                    s = dict(t)
                    del s[k]
                    yield dict(c, **{side: s})
                for k, v in t.items():
                    if isinstance(v, dict):
                        for k2 in v:
                            s = dict(t)
                            s[k] = {q: w for q, w in v.items() if q != k2}
                            yield dict(c, **{side: s})
                    elif isinstance(v, (list, tuple)) and len(v) > 0:
                        for i in range(len(v)):
                            s = dict(t)
                            s[k] = type(v)(list(v[:i]) + list(v[i + 1:]))
                            yield dict(c, **{side: s})
                    elif isinstance(v, set) and len(v) > 0:
                        for e in list(v):
                            s = dict(t)
                            s[k] = v - {e}
                            yield dict(c, **{side: s})
        else:
            for i in range(len(c["srcs"])):
                yield dict(c, srcs=c["srcs"][:i] + c["srcs"][i + 1:])
            if c["pd"]:
                yield dict(c, pd={})
            for i, s in enumerate(c["srcs"]):
                if "comp" not in s and s["exc"] is None and s["data"]:
                    for k in s["data"]:
                        d = {q: w for q, w in s["data"].items() if q != k}
                        yield dict(c, srcs=c["srcs"][:i] + [dict(s, data=d)] + c["srcs"][i + 1:])


if __name__ == "__main__":
    raise SystemExit(C13().main())
