(* C04 - File serving is confined to the configured root directory or file.
   Property theorems only; each is closed by a lemma from the proof files.
   Vocabulary: root_ok root := root starts with "/", has no trailing "/", normpath root = root;
   named_ok e segs := segs are the non-empty "/"-segments of the remaining path e, there is at least one,
   none is "", "." or "..", none contains "/" or NUL;  slashed segs = "/" ++ s1 ++ "/" ++ s2 ... *)
From Coq Require Import String.
From Coq Require Import List NArith Bool Arith Lia.
From VF Require Import Base.Sx FileH.Str FileH.Unquote FileH.UnquoteProofs FileH.PosixPath FileH.Handler FileH.Spec
  FileH.PosixPathProofs FileH.MatchProofs FileH.TranslateProofs C04.Entry C04.EntryProofs.
Import ListNotations.
Open Scope N_scope.

(* directory mode: one request opens nothing, or exactly root ++ "/" ++ seg1 ++ "/" ... ++ suffix for the named
   segments of the decoded remaining path; normpath is the identity on it and root ++ "/" is a proper prefix *)
Theorem C04_confined : forall T FS GD fs_open old c r x log opened res,
  root_ok (c_target c) -> c_filemode c = false ->
  handle old T FS GD fs_open c r x = (log, opened, res) ->
  opened = [] \/
  exists e segs, extra_path x = Some e /\ named_ok e segs /\
    opened = [c_target c ++ slashed segs ++ c_suffix c] /\
    normpath (c_target c ++ slashed segs) = c_target c ++ slashed segs /\
    exists rest, c_target c ++ slashed segs ++ c_suffix c = (c_target c ++ [SL]) ++ rest /\ rest <> [].
Proof. exact confined. Qed.
Print Assumptions C04_confined.

(* _translate_path is exactly "root + named segments + suffix, or nothing" *)
Theorem C04_translate_path_spec : forall c e, root_ok (c_target c) -> translate_path c e = spec_path c e.
Proof. exact translate_path_spec. Qed.
Print Assumptions C04_translate_path_spec.

Theorem C04_serves_the_named_file : forall T FS GD fs_open old c r x log opened b tc,
  handle old T FS GD fs_open c r x = (log, opened, RContent b tc) ->
  exists p, opened = [p] /\ fs_open p = FsOpened b.
Proof. exact serves_the_named_file. Qed.
Print Assumptions C04_serves_the_named_file.

Theorem C04_file_mode_single_file : forall T FS GD fs_open old c r x log opened res,
  c_filemode c = true -> handle old T FS GD fs_open c r x = (log, opened, res) ->
  opened = [] \/ opened = [c_target c].
Proof. exact file_mode_single_file. Qed.
Print Assumptions C04_file_mode_single_file.

(* ENOENT / EISDIR / ENOTDIR / ENAMETOOLONG -> not found, never the error path *)
Theorem C04_not_regular_is_not_found : forall T FS GD fs_open c r x log p res,
  handle false T FS GD fs_open c r x = (log, [p], res) ->
  fs_open p = FsENOENT \/ fs_open p = FsEISDIR \/ fs_open p = FsENOTDIR \/ fs_open p = FsENAMETOOLONG ->
  res = RNotFound.
Proof. exact not_regular_is_not_found. Qed.
Print Assumptions C04_not_regular_is_not_found.

(* bytes >= 0x80 (escaped or raw) never decode to a code point < 128, and every ASCII byte survives in place:
   the ASCII characters of unquote(s) are exactly the ASCII bytes of the percent-decoded string *)
Theorem C04_unquote_no_ascii_from_high_bytes : forall s,
  filter asc (unquote s) = filter asc (map item_val (items s)).
Proof. exact unquote_ascii. Qed.
Print Assumptions C04_unquote_no_ascii_from_high_bytes.

(* the remaining answers of open(): PermissionError for a directory -> not found; PermissionError otherwise ->
   forbidden; any other OSError (EIO, ELOOP, ...) is the result of the request *)
Theorem C04_open_errors : forall T FS GD fs_open old c r x log p res,
  handle old T FS GD fs_open c r x = (log, [p], res) ->
  (fs_open p = FsEACCES_DIR -> res = RNotFound) /\
  (fs_open p = FsEACCES -> res = RForbidden) /\
  (fs_open p = FsEOTHER -> res = RError).
Proof. exact open_errors. Qed.
Print Assumptions C04_open_errors.

(* the three "extra sure" returns of _translate_path are dead code behind _prepare_context:
   (1) the extra path of an accepted request never contains NUL; *)
Theorem C04_nul_recheck_dead : forall c r uri e, init_request_path c = Ok r ->
  matches (prepare_context c r uri) = true -> extra_path (prepare_context c r uri) = Some e ->
  mem_N 0 e = false.
Proof. intros c r uri e H. apply extra_path_no_nul. exact (init_wf c r H). Qed.
Print Assumptions C04_nul_recheck_dead.

(* (2) after the empty / trailing-slash test there is always a segment left; *)
Theorem C04_segments_never_empty : forall e : str, e <> [] -> ends_with [SL] e = false ->
  drop_empty (split_on SL e) <> [].
Proof. exact segments_never_empty. Qed.
Print Assumptions C04_segments_never_empty.

(* (3) the final startswith(root_dir) test accepts every named file (for a normalised root it never rejects:
   C04_translate_path_spec says _translate_path returns exactly the named file). *)
Theorem C04_prefix_check_never_rejects : forall c e p,
  spec_path c e = Some p -> starts_with (c_target c) p = true.
Proof. exact prefix_check_never_rejects. Qed.
Print Assumptions C04_prefix_check_never_rejects.

(* the executable checker used on the implementation's observations accepts the model *)
Theorem C04_holds : forall k, valid k -> holds k (run_model k) = [].
Proof. exact holds_run_model. Qed.
Print Assumptions C04_holds.

(* the driver's `covered` flag (5th item of C04.Entry.entry's answer) implies the hypotheses of C04_holds *)
Lemma C04_validb_valid : forall k, validb k = true -> valid k.
Proof. exact validb_valid. Qed.
Theorem C04_covered_cases : forall k, validb k = true -> holds k (run_model k) = [].
Proof. intros k H. apply C04_holds. now apply C04_validb_valid. Qed.
Print Assumptions C04_covered_cases.

(* ---- the behaviour before commit 232ac55 (D9) violates not_regular_is_not_found ---- *)
Definition cfg_d : config :=
  {| c_request_path := [SL]; c_filemode := false; c_target := bytes_of_string "/srv"; c_suffix := [];
     c_lookup_key := []; c_placeholder := bytes_of_string "..."; c_continue := true; c_ds_ignore := false;
     c_template := false |}.
Definition rp_d : rp := {| extract := false; pre_segs := [[]]; ph_pre := []; ph_suf := []; suf_segs := [] |}.
Definition x_d : ctx := {| matches := true; raw_value := None; extra_path := Some (bytes_of_string "/f.txt/a") |}.
Definition fs_d (p : str) : fsr := if eqb_str p (bytes_of_string "/srv/f.txt/a") then FsENOTDIR else FsENOENT.

Theorem C04_not_regular_is_not_found_refuted_old :
  init_request_path cfg_d = Ok rp_d /\
  prepare_context cfg_d rp_d (bytes_of_string "/f.txt/a") = x_d /\
  handle true T_id FS_none GD_some fs_d cfg_d rp_d x_d = ([], [bytes_of_string "/srv/f.txt/a"], RError).
Proof. repeat split; vm_compute; reflexivity. Qed.

Theorem C04_holds_refuted_old :
  exists k, k_old232 k = true /\ holds k (run_model k) <> [].
Proof.
  exists {| k_tftp := false; k_old232 := true; k_cached := false; k_cfg := cfg_d; k_uri := bytes_of_string "/f.txt/a";
            k_table := [(bytes_of_string "/srv/f.txt/a", 3, [])] |}.
  split; [reflexivity | vm_compute; discriminate].
Qed.

(* ---- non-vacuity ---- *)
Example C04_nonvacuous :
  root_ok (c_target cfg_d) /\
  prepare_context cfg_d rp_d (bytes_of_string "/a//%2e%2e%41/f.txt?x")
    = {| matches := true; raw_value := None; extra_path := Some (bytes_of_string "/a//..A/f.txt") |} /\
  handle false T_id FS_none GD_some (fun _ => FsOpened [104; 105]) cfg_d rp_d
    {| matches := true; raw_value := None; extra_path := Some (bytes_of_string "/a//..A/f.txt") |}
    = ([], [bytes_of_string "/srv/a/..A/f.txt"], RContent [104; 105] None) /\
  handle false T_id FS_none GD_some (fun _ => FsOpened [104; 105]) cfg_d rp_d
    {| matches := true; raw_value := None; extra_path := Some (bytes_of_string "/a/../f.txt") |}
    = ([], [], RNotFound) /\
  valid {| k_tftp := false; k_old232 := false; k_cached := false; k_cfg := cfg_d; k_uri := bytes_of_string "/f.txt/a";
           k_table := [(bytes_of_string "/srv/f.txt/a", 3, [])] |}.
Proof.
  split; [repeat split; vm_compute; reflexivity|].
  split; [vm_compute; reflexivity|]. split; [vm_compute; reflexivity|]. split; [vm_compute; reflexivity|].
  split; [reflexivity|]. split; [reflexivity|]. split; [intros _; repeat split; vm_compute; reflexivity|].
  split; intros p Hp; vm_compute in Hp; destruct Hp as [<-|[]]; vm_compute; [discriminate|reflexivity].
Qed.

(* ---- known finding D27: with a template engine the loader opens os.path.abspath(file); for a configured `file` with
   a symbolic link followed by ".." that is the lexically normalised location, another file than the configured one.
   The model of the CURRENT code (loader_path) reproduces it, and the checker rejects it: file "/srv/cur/../data/f"
   (for the OS: the link's target /../data/f, content "real"), the loader opens "/srv/data/f" (content "decoy"). ---- *)
Definition cfg_d27 : config :=
  {| c_request_path := bytes_of_string "/p"; c_filemode := true; c_target := bytes_of_string "/srv/cur/../data/f";
     c_suffix := []; c_lookup_key := []; c_placeholder := bytes_of_string "..."; c_continue := true;
     c_ds_ignore := false; c_template := true |}.
Definition case_d27 : case :=
  {| k_tftp := false; k_old232 := false; k_cached := false; k_cfg := cfg_d27; k_uri := bytes_of_string "/p";
     k_table := [(bytes_of_string "/srv/cur/../data/f", 0, bytes_of_string "real");
                 (bytes_of_string "/srv/data/f", 0, bytes_of_string "decoy")] |}.
Theorem C04_refuted_D27_loader_abspath :
  o_opened (run_model case_d27) = [bytes_of_string "/srv/data/f"] /\
  o_body (run_model case_d27) = bytes_of_string "decoy" /\
  validb case_d27 = false /\
  holds case_d27 (run_model case_d27) =
    ["confined"; "file_mode_single_file"; "serves_the_named_file"]%string.
Proof. repeat split; vm_compute; reflexivity. Qed.
