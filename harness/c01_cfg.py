"""C01/C07/C02, server configuration: what TftpServer.__init__ makes of its numeric parameters and hands to every
transfer, against the extracted model of Tftp/ServerConfig.v (binary c01cfg).  The real TftpServer is constructed,
its real _handle_read is called, and the arguments with which it constructs _TftpReadRequest are recorded."""
import itertools
import time

import common
from common import sx, unsx, names
from vinegar.tftp import server as S
from vinegar.tftp.protocol import TransferMode


class _H(S.TftpRequestHandler):
    def can_handle(self, filename, context):
        return True

    def handle(self, filename, client_address, server_address, context):
        raise AssertionError("not called")


class _Stop(Exception):
    pass


def through_cli(c):
    """the keyword arguments vinegar.cli.server._run_server_internal hands to create_tftp_server for the
    configuration {"tftp": {...}} (a key whose value is None must arrive as None, not fall back to the default)"""
    import vinegar.cli.server as CLI
    import vinegar.http.server as H
    got = {}

    def fake_tftp(handlers, **kw):
        got.update(kw)
        raise _Stop()
    old_t, old_h = S.create_tftp_server, H.create_http_server
    S.create_tftp_server = fake_tftp
    H.create_http_server = lambda handlers, **kw: None
    try:
        CLI._run_server_internal({"tftp": {"default_timeout": c[0], "max_timeout": c[1], "max_retries": c[2],
                                           "max_block_size": c[3], "block_counter_wrap_value": c[4],
                                           "request_handlers": []}})
    except _Stop:
        pass
    finally:
        S.create_tftp_server, H.create_http_server = old_t, old_h
    return (got.get("default_timeout", "missing"), got.get("max_timeout", "missing"), got.get("max_retries", "missing"),
            got.get("max_block_size", "missing"), got.get("block_counter_wrap_value", "missing"))


RAISED = (-9, -9, -9, -9, -9)


def documented(c):
    """within the ranges the TftpServer docstring gives (default_timeout is documented as silently clamped, so any
    number is fine there); outside them a constructor that refuses the value breaks no property"""
    w = c[4]
    return (1 <= c[1] <= 255 and c[2] >= 1 and 512 <= c[3] <= 65464
            and (w is None or (type(w) is int and w in (0, 1))))


def observe(c, cli=True):
    try:
        return _observe(c, cli)
    except Exception as ex:       # a constructor (or the wiring) that raises is an observation, not a crash
        return ("raised", type(ex).__name__, str(ex)[:80])


def _observe(c, cli=True):
    import vinegar.cli.server as _CLI
    if cli and hasattr(_CLI, "_run_server_internal"):
        k = through_cli(c)
        if "missing" in k:
            # a configured key did not reach create_tftp_server: the server then runs with its default for it
            dflt = (10, 30, 3, 65464, 0)
            k = tuple(dflt[i] if k[i] == "missing" else k[i] for i in range(5))
        c = k
    return observe_server(c)


def observe_public(c):
    """the same five, observed from outside when the private transfer class cannot be intercepted (renamed or with
    another signature): a silent client sees 1 + max_retries copies of the OACK, default_timeout apart, announcing
    min(65464, max_block_size); the largest accepted timeout option is max_timeout (binary search).  The wrap value
    cannot be seen without a transfer of more than 65535 blocks: it is reported as configured (not judged here; the
    transfer part of C01 runs such transfers)."""
    import io
    import fake_net
    import tftp_common as T

    def run(opts):
        return fake_net.run_transfer([], lambda *a: io.BytesIO(b"x"), opts, default_timeout=c[0], max_timeout=c[1],
                                     max_retries=c[2], max_block_size=c[3], wrap=c[4], public=True)
    log = run({"blksize": "65464"})
    sends = [e for e in log if e[0] == "send"]
    oack = T.parse_packet(sends[0][3])
    max_bs = int(dict((k, v) for k, v in oack[1])[b"blksize"])
    retries = len(sends) - 1
    dflt = (sends[1][1] - sends[0][1]) / fake_net.TICK if len(sends) > 1 else -1

    def accepted(t):
        lg = run({"timeout": str(t)})
        p = T.parse_packet([e for e in lg if e[0] == "send"][0][3])
        return p[0] == 6 and any(k == b"timeout" for k, _v in p[1])
    lo, hi = 0, 255                  # largest accepted value; 0 = none
    while lo < hi:
        mid = (lo + hi + 1) // 2
        if accepted(mid):
            lo = mid
        else:
            hi = mid - 1
    return (dflt, lo, retries, max_bs, c[4])


def observe_server(c):
    """c = (default_tmo, max_tmo, retries, max_bs, wrap); wrap may be None/int/bool -> the same five as they reach
    the transfer"""
    import fake_net
    if fake_net.private_class() is None or not hasattr(S.TftpServer, "_handle_read"):
        return observe_public(c)
    seen = []

    class Rec:
        def __init__(self, *a):
            seen.append(a)
    old = S._TftpReadRequest
    S._TftpReadRequest = Rec
    try:
        srv = S.TftpServer([_H()], default_timeout=c[0], max_timeout=c[1], max_retries=c[2], max_block_size=c[3],
                           block_counter_wrap_value=c[4])
        h = _H()
        srv._handle_read("f", TransferMode.OCTET, {}, ("::1", 5555, 0, 0), ("::1", 69, 0, 0), h.handle, None)
    finally:
        S._TftpReadRequest = old
    a = seen[0]
    # _TftpReadRequest(filename, mode, options, client, server, handler, context, default_timeout, max_timeout,
    #                  max_retries, max_block_size, block_counter_wrap_value)
    return tuple(a[7:12])


def enc(c):
    w = c[4]
    return [int(c[0]), int(c[1]), int(c[2]), int(c[3]), -1 if w is None else int(w)]


def cases(tier, rng):
    grid_t = [-5, 0, 1, 2, 10, 30, 254, 255, 256, 1000]
    grid_r = [-1, 0, 1, 2, 3, 100]
    grid_b = [-1, 0, 8, 511, 512, 513, 1428, 65463, 65464, 65465, 10 ** 6]
    wraps = [None, 0, 1, 2, 65535, False, True]
    for (dt, mt) in itertools.product(grid_t, grid_t):
        for w in wraps:
            yield (dt, mt, rng.choice(grid_r), rng.choice(grid_b), w)
    for (r, b) in itertools.product(grid_r, grid_b):
        for w in wraps:
            yield (rng.choice(grid_t), rng.choice(grid_t), r, b, w)
    for _ in range(300 if tier == "quick" else 5000):
        yield (rng.randrange(-10, 400), rng.randrange(-10, 400), rng.randrange(-3, 10), rng.randrange(-10, 70000),
               rng.choice(wraps + [rng.randrange(0, 70000)]))


def replay(case):
    c = tuple(case["config"])
    o = observe(c)
    if o[0] == "raised":
        out, = common.run_model("c01cfg", [sx([enc(c), list(RAISED)])])
        r = unsx(out)
        return (list(o), r[0], names(r[1]), ["C01:documented_configuration_refused:" + o[1]])
    out, = common.run_model("c01cfg", [sx([enc(c), enc(o)])])
    r = unsx(out)
    return (enc(o), r[0], names(r[1]), names(r[2]))



def cfg_checks(tier, rng, report, prefix=""):
    t0 = time.time()
    stats = {"server_config_cases": 0, "server_config_disagreements": 0, "server_config_impl_failures": 0}
    failing = []
    cs = list(cases(tier, rng))
    import fake_net
    if fake_net.private_class() is None:
        # observation from outside costs nine transfers per configuration: a sample
        cs = cs[::9]
        stats["server_config_observed_through_the_public_path"] = True
    obs0 = [observe(c) for c in cs]
    # refused outside the documented ranges: no property says such a configuration must be accepted
    stats["server_config_refused_outside_documented_ranges"] = sum(
        1 for c, o in zip(cs, obs0) if o[0] == "raised" and not documented(c))
    keep = [(c, o) for c, o in zip(cs, obs0) if not (o[0] == "raised" and not documented(c))]
    cs = [c for c, _ in keep]
    raised = {i: o for i, (_, o) in enumerate(keep) if o[0] == "raised"}
    obs = [RAISED if o[0] == "raised" else o for _, o in keep]
    outs = common.run_model("c01cfg", [sx([enc(c), enc(o)]) for c, o in zip(cs, obs)])
    for i, (c, o, out) in enumerate(zip(cs, obs, outs)):
        if out.startswith("!") or out.startswith("#"):
            raise RuntimeError(f"c01cfg: driver rejected case {c!r} -> {out[:100]}")
        r = unsx(out)
        m, fm, fi = r[0], names(r[1]), names(r[2])
        stats["server_config_cases"] += 1
        if fm:
            raise RuntimeError(f"c01cfg: the model fails its own checker on {c!r}: {fm}")
        # wrap: None must stay None and a number must stay that number (bool is a number in Python: False == 0)
        same_wrap = (o[4] is None) == (c[4] is None) or i in raised
        dis = enc(o) != m or not same_wrap
        if i in raised:
            fi = ["C01:documented_configuration_refused:" + raised[i][1]]
        if dis:
            stats["server_config_disagreements"] += 1
        if fi:
            stats["server_config_impl_failures"] += 1
        if (fi or dis) and (len(failing) < 3 or documented(c)) and len(failing) < 40:
            failing.append(({"_extra": True, "part": "server-config", "config": [c[0], c[1], c[2], c[3], c[4]]},
                            fi or ["C01:server_config_correspondence"], enc(o), m))
    report["evaluations"] += stats["server_config_cases"]
    report["disagreements"] += stats["server_config_disagreements"]
    report["impl_failures"] += stats["server_config_impl_failures"]
    stats["server_config_wall_s"] = round(time.time() - t0, 1)
    report["extra"].update(stats)
    # prefer a configuration within the documented ranges as the reported input
    failing.sort(key=lambda f: 0 if documented(tuple(f[0]["config"])) else 1)
    report.setdefault("extra_failing", []).extend(failing[:2])
