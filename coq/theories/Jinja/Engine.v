(* Model for C17, part 1: vinegar/template/jinja.py:JinjaEngine - the loader variants with their
   up-to-date callbacks, jinja2's template cache (Environment._load_template), include/import
   resolution through the cache at render time, _Environment.join_path, render's context merge.
   Definitions only; proofs are in EngineProofs.v. *)
From Coq Require Import List NArith Bool Arith.
From VF Require Import Jinja.PosixPath.
Import ListNotations.

(* ---------- templates ---------- *)
(* a template body: literal text, {{ key }}, {% include 'n' %}, {% import 'n' as m %}{{ m.v }};
   [export] is the value the file binds to v at its top level ({% set v = '...' %}) *)
(* IncludeOpt = {% include 'n' ignore missing %}: a template that is not found renders nothing *)
Inductive item := Text (s : bytes) | Var (k : bytes) | Include (n : bytes) | Import (n : bytes) | IncludeOpt (n : bytes).
(* broken <> 0: the file's bytes do not compile (1: syntax error, 2: not decodable); items/export are then irrelevant *)
Record content := { items : list item; export : bytes; broken : N }.

(* ---------- file system: path -> content with its stat version ---------- *)
(* f_ver stands for the stat tuple (ctime_ns, mtime_ns, ino, size) that version_for_file_path hashes,
   f_mtime for st_mtime alone (all that jinja2.FileSystemLoader looks at).  The history semantics
   below gives every edit a stat version never used before (the kernel moves ctime on every write);
   an edit may keep the mtime of the file it replaces (os.utime, cp -p, rsync -t) *)
Record file := { f_content : content; f_ver : nat; f_mtime : nat }.
Definition fsys := list (bytes * file).

Fixpoint alookup {A} (l : list (bytes * A)) (k : bytes) : option A :=
  match l with
  | [] => None
  | (k', v) :: r => if bytes_eqb k' k then Some v else alookup r k
  end.
Fixpoint aremove {A} (l : list (bytes * A)) (k : bytes) : list (bytes * A) :=
  match l with
  | [] => []
  | (k', v) :: r => if bytes_eqb k' k then aremove r k else (k', v) :: aremove r k
  end.
Definition aset {A} (l : list (bytes * A)) (k : bytes) (v : A) : list (bytes * A) := (k, v) :: aremove l k.

(* ---------- configuration ---------- *)
Record config := {
  root_dir : option bytes;        (* Some r: jinja2.FileSystemLoader(r) / _NoCacheFileSystemLoader(r); None: _Loader *)
  cache_enabled : bool;
  relative_includes : bool;       (* _Environment (join_path overridden) or jinja2.Environment *)
  cwd : bytes;                    (* working directory of the process (for _Loader's abspath) *)
  arity_bug : bool;               (* _NoCacheFileSystemLoader as before fix 58671db: lambda _: False *)
  base_ctx : list (bytes * bytes) (* config["context"] *)
}.

(* jinja2.loaders.split_template_path *)
Fixpoint template_pieces (l : list bytes) : option (list bytes) :=
  match l with
  | [] => Some []
  | p :: r =>
      if bytes_eqb p DOTDOT then None
      else match template_pieces r with
           | None => None
           | Some r' => if bytes_eqb p [] || bytes_eqb p DOT then Some r' else Some (p :: r')
           end
  end.

(* which file a template name denotes *)
Definition resolve (cfg : config) (name : bytes) : option bytes :=
  match root_dir cfg with
  | None => Some (abspath (cwd cfg) name)
  | Some r =>
      match template_pieces (split_slash name) with
      | None => None
      | Some pieces => Some (fold_left join2 pieces r)       (* posixpath.join(searchpath, *pieces) *)
      end
  end.

(* _Environment.join_path / jinja2.Environment.join_path *)
Definition join_path (cfg : config) (template parent : bytes) : bytes :=
  if relative_includes cfg then normpath (join2 (join2 parent DOTDOT) template) else template.

(* ---------- jinja2's template cache ---------- *)
Record entry := { e_content : content; e_ver : nat; e_mtime : nat }.   (* compiled template + what its callback captured *)
Definition tcache := list (bytes * entry).                 (* keyed by template *name* *)

(* EBroken k: the file exists but cannot be turned into a template (k = 1 TemplateSyntaxError, 2 UnicodeDecodeError) *)
Inductive res (A : Type) := Ok (a : A) | ENotFound | ETypeError | EFuel | EBroken (k : N).
Arguments Ok {A}. Arguments ENotFound {A}. Arguments ETypeError {A}. Arguments EFuel {A}. Arguments EBroken {A}.

Definition load (cfg : config) (fs : fsys) (c : tcache) (name : bytes) : tcache * res content :=
  match resolve cfg name with
  | None => (c, ENotFound)
  | Some p =>
      match alookup fs p with
      | None => (c, ENotFound)
      | Some f =>
          (* compiling happens before the cache is touched: a file that does not compile leaves the cache as it is *)
          if (broken (f_content f) =? 0)%N
          then (aset c name {| e_content := f_content f; e_ver := f_ver f; e_mtime := f_mtime f |}, Ok (f_content f))
          else (c, EBroken (broken (f_content f)))
      end
  end.

(* what the up-to-date callback of the configured loader compares: the stat version (_Loader) or
   the mtime (jinja2.FileSystemLoader) *)
Definition file_key (cfg : config) (f : file) : nat :=
  match root_dir cfg with None => f_ver f | Some _ => f_mtime f end.
Definition entry_key (cfg : config) (e : entry) : nat :=
  match root_dir cfg with None => e_ver e | Some _ => e_mtime e end.

Definition current_version (cfg : config) (fs : fsys) (name : bytes) : option nat :=
  match resolve cfg name with
  | None => None
  | Some p => match alookup fs p with Some f => Some (file_key cfg f) | None => None end
  end.

Definition opt_nat_eqb (a : option nat) (b : nat) : bool :=
  match a with Some x => Nat.eqb x b | None => false end.

(* Environment._load_template: a cached template is reused iff its up-to-date callback says so *)
Definition get_template (cfg : config) (fs : fsys) (c : tcache) (name : bytes) : tcache * res content :=
  match alookup c name with
  | None => load cfg fs c name
  | Some e =>
      if cache_enabled cfg then
        (* up_to_date_with_cache (stat version) / FileSystemLoader.uptodate (mtime); a missing file is stale *)
        if opt_nat_eqb (current_version cfg fs name) (entry_key cfg e) then (c, Ok (e_content e)) else load cfg fs c name
      else
        match root_dir cfg with
        | Some _ => if arity_bug cfg then (c, ETypeError)      (* uptodate() with a one-argument lambda *)
                    else load cfg fs c name                    (* lambda: False *)
        | None => load cfg fs c name                           (* up_to_date_no_cache *)
        end
  end.

(* ---------- rendering ---------- *)
Definition ctx := list (bytes * bytes).
Definition ctx_get (x : ctx) (k : bytes) : bytes := match alookup x k with Some v => v | None => [] end.

(* merged = dict(context); merged.update(base)  - dicts as association lists with unique keys *)
Definition dict_update (d : ctx) (kv : bytes * bytes) : ctx :=
  match alookup d (fst kv) with
  | Some _ => map (fun p => if bytes_eqb (fst p) (fst kv) then (fst p, snd kv) else p) d
  | None => d ++ [kv]
  end.
Definition merge_ctx (caller base : ctx) : ctx := fold_left dict_update base caller.

Definition map_ok {A B} (f : A -> B) (r : res A) : res B :=
  match r with Ok a => Ok (f a) | ENotFound => ENotFound | ETypeError => ETypeError | EFuel => EFuel | EBroken k => EBroken k end.

Section Items.
  Variable cfg : config.
  Variable fs : fsys.
  Variable x : ctx.
  (* rendering of an included template (one level less fuel) *)
  Variable rec : bytes -> content -> tcache -> tcache * res bytes.

  Fixpoint render_items (parent : bytes) (its : list item) (c : tcache) : tcache * res bytes :=
    match its with
    | [] => (c, Ok [])
    | it :: r =>
        let '(c1, r1) :=
          match it with
          | Text s => (c, Ok s)
          | Var k => (c, Ok (ctx_get x k))
          | Include n =>
              let name := join_path cfg n parent in
              match get_template cfg fs c name with
              | (c1, Ok ct) => rec name ct c1
              | (c1, ENotFound) => (c1, ENotFound)
              | (c1, ETypeError) => (c1, ETypeError)
              | (c1, EFuel) => (c1, EFuel)
              | (c1, EBroken k) => (c1, EBroken k)
              end
          | Import n =>
              let name := join_path cfg n parent in
              match get_template cfg fs c name with
              | (c1, Ok ct) => (c1, Ok (export ct))
              | (c1, ENotFound) => (c1, ENotFound)
              | (c1, ETypeError) => (c1, ETypeError)
              | (c1, EFuel) => (c1, EFuel)
              | (c1, EBroken k) => (c1, EBroken k)
              end
          | IncludeOpt n =>
              let name := join_path cfg n parent in
              match get_template cfg fs c name with
              | (c1, Ok ct) => rec name ct c1
              | (c1, ENotFound) => (c1, Ok [])            (* only the lookup of THIS name is forgiven *)
              | (c1, ETypeError) => (c1, ETypeError)
              | (c1, EFuel) => (c1, EFuel)
              | (c1, EBroken k) => (c1, EBroken k)
              end
          end in
        match r1 with
        | Ok s1 => let '(c2, r2) := render_items parent r c1 in (c2, map_ok (app s1) r2)
        | ENotFound => (c1, ENotFound)
        | ETypeError => (c1, ETypeError)
        | EFuel => (c1, EFuel)
        | EBroken k => (c1, EBroken k)
        end
    end.
End Items.

Fixpoint render_tpl (fuel : nat) (cfg : config) (fs : fsys) (x : ctx) (name : bytes) (ct : content) (c : tcache)
  : tcache * res bytes :=
  match fuel with
  | O => (c, EFuel)
  | S f => render_items cfg fs x (render_tpl f cfg fs x) name (items ct) c
  end.

(* JinjaEngine.render(template_path, context) *)
Definition render (fuel : nat) (cfg : config) (fs : fsys) (c : tcache) (name : bytes) (caller : ctx) : tcache * res bytes :=
  match get_template cfg fs c name with
  | (c1, Ok ct) => render_tpl fuel cfg fs (merge_ctx caller (base_ctx cfg)) name ct c1
  | (c1, ENotFound) => (c1, ENotFound)
  | (c1, ETypeError) => (c1, ETypeError)
  | (c1, EFuel) => (c1, EFuel)
  | (c1, EBroken k) => (c1, EBroken k)
  end.

(* ---------- histories ---------- *)
(* keep_mtime: the edit leaves st_mtime as it was (irrelevant when the file is created or deleted) *)
Inductive step := Edit (path : bytes) (new : option content) (keep_mtime : bool) | Render (name : bytes) (caller : ctx).
Record est := { s_fs : fsys; s_cache : tcache; s_next : nat }.
Definition est0 : est := {| s_fs := []; s_cache := []; s_next := 0 |}.

Definition do_edit (st : est) (path : bytes) (new : option content) (keep : bool) : est :=
  match new with
  | Some ct =>
      let mt := match alookup (s_fs st) path with
                | Some old => if keep then f_mtime old else s_next st
                | None => s_next st
                end in
      {| s_fs := aset (s_fs st) path {| f_content := ct; f_ver := s_next st; f_mtime := mt |};
         s_cache := s_cache st; s_next := S (s_next st) |}
  | None => {| s_fs := aremove (s_fs st) path; s_cache := s_cache st; s_next := s_next st |}
  end.

(* one long-lived engine *)
Fixpoint run (fuel : nat) (cfg : config) (st : est) (h : list step) : list (res bytes) :=
  match h with
  | [] => []
  | Edit p new k :: r => run fuel cfg (do_edit st p new k) r
  | Render name caller :: r =>
      let '(c', out) := render fuel cfg (s_fs st) (s_cache st) name caller in
      out :: run fuel cfg {| s_fs := s_fs st; s_cache := c'; s_next := s_next st |} r
  end.

(* a fresh engine (empty template cache) for every render *)
Fixpoint run_fresh (fuel : nat) (cfg : config) (st : est) (h : list step) : list (res bytes) :=
  match h with
  | [] => []
  | Edit p new k :: r => run_fresh fuel cfg (do_edit st p new k) r
  | Render name caller :: r =>
      snd (render fuel cfg (s_fs st) [] name caller) :: run_fresh fuel cfg st r
  end.

(* ---------- cache-free specification of rendering ---------- *)
Definition spec_get (cfg : config) (fs : fsys) (name : bytes) : res content :=
  match resolve cfg name with
  | None => ENotFound
  | Some p => match alookup fs p with
              | Some f => if (broken (f_content f) =? 0)%N then Ok (f_content f) else EBroken (broken (f_content f))
              | None => ENotFound
              end
  end.

Section SpecItems.
  Variable cfg : config.
  Variable fs : fsys.
  Variable x : ctx.
  Variable rec : bytes -> content -> res bytes.
  Fixpoint spec_items (parent : bytes) (its : list item) : res bytes :=
    match its with
    | [] => Ok []
    | it :: r =>
        let r1 :=
          match it with
          | Text s => Ok s
          | Var k => Ok (ctx_get x k)
          | Include n => let name := join_path cfg n parent in
                         match spec_get cfg fs name with
                         | Ok ct => rec name ct
                         | ENotFound => ENotFound | ETypeError => ETypeError | EFuel => EFuel | EBroken k => EBroken k
                         end
          | Import n => map_ok export (spec_get cfg fs (join_path cfg n parent))
          | IncludeOpt n => let name := join_path cfg n parent in
                            match spec_get cfg fs name with
                            | Ok ct => rec name ct
                            | ENotFound => Ok [] | ETypeError => ETypeError | EFuel => EFuel | EBroken k => EBroken k
                            end
          end in
        match r1 with
        | Ok s1 => map_ok (app s1) (spec_items parent r)
        | ENotFound => ENotFound | ETypeError => ETypeError | EFuel => EFuel | EBroken k => EBroken k
        end
    end.
End SpecItems.

Fixpoint spec_tpl (fuel : nat) (cfg : config) (fs : fsys) (x : ctx) (name : bytes) (ct : content) : res bytes :=
  match fuel with
  | O => EFuel
  | S f => spec_items cfg fs x (spec_tpl f cfg fs x) name (items ct)
  end.

Definition spec_render (fuel : nat) (cfg : config) (fs : fsys) (name : bytes) (caller : ctx) : res bytes :=
  match spec_get cfg fs name with
  | Ok ct => spec_tpl fuel cfg fs (merge_ctx caller (base_ctx cfg)) name ct
  | ENotFound => ENotFound | ETypeError => ETypeError | EFuel => EFuel | EBroken k => EBroken k
  end.

(* the renders of a history as the cache-free specification gives them *)
Fixpoint run_spec (fuel : nat) (cfg : config) (st : est) (h : list step) : list (res bytes) :=
  match h with
  | [] => []
  | Edit p new k :: r => run_spec fuel cfg (do_edit st p new k) r
  | Render name caller :: r => spec_render fuel cfg (s_fs st) name caller :: run_spec fuel cfg st r
  end.


(* the configuration in which jinja2.FileSystemLoader's mtime-only test is in force *)
Definition fsl_cached (cfg : config) : bool :=
  match root_dir cfg with Some _ => cache_enabled cfg | None => false end.
Definition keeps_mtime (s : step) : bool := match s with Edit _ (Some _) k => k | _ => false end.
(* the assumption under which edits are visible: with the cached FileSystemLoader every edit changes
   the mtime; with the engine's own loader (or caching off) nothing is assumed beyond a new stat version *)
Definition history_ok (cfg : config) (h : list step) : bool :=
  negb (fsl_cached cfg) || forallb (fun s => negb (keeps_mtime s)) h.

(* ---------- two live engines in one process ---------- *)
(* engines share the file system and nothing else: every engine has its own configuration and template cache.
   A step is an edit, a render on engine A (observed), a render on engine B, or the construction of a new
   engine B with another configuration (its cache starts empty). *)
Inductive step2 :=
| S2Edit (path : bytes) (new : option content) (keep_mtime : bool)
| S2RenderA (name : bytes) (caller : ctx)
| S2RenderB (name : bytes) (caller : ctx)
| S2NewB (cfg : config).

Fixpoint run2 (fuel : nat) (cfgA cfgB : config) (st : est) (cacheB : tcache) (h : list step2) : list (res bytes) :=
  match h with
  | [] => []
  | S2Edit p new k :: r => run2 fuel cfgA cfgB (do_edit st p new k) cacheB r
  | S2RenderA name caller :: r =>
      let '(c', out) := render fuel cfgA (s_fs st) (s_cache st) name caller in
      out :: run2 fuel cfgA cfgB {| s_fs := s_fs st; s_cache := c'; s_next := s_next st |} cacheB r
  | S2RenderB name caller :: r =>
      let '(cB', _) := render fuel cfgB (s_fs st) cacheB name caller in
      run2 fuel cfgA cfgB st cB' r
  | S2NewB cfg' :: r => run2 fuel cfgA cfg' st [] r
  end.

(* the history as engine A alone sees it *)
Fixpoint only_A (h : list step2) : list step :=
  match h with
  | [] => []
  | S2Edit p new k :: r => Edit p new k :: only_A r
  | S2RenderA name caller :: r => Render name caller :: only_A r
  | _ :: r => only_A r
  end.
