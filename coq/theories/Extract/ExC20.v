From Coq Require Import ExtrOcamlBasic.
From Coq Require Extraction.
From VF Require Import Base.Sx C20.Entry.
Definition main := wrap entry.
Extraction "../ocaml/gen/c20_model.ml" main.
