(* Lemmas about the PosixPath model and the relative-include theorem. *)
From Coq Require Import List NArith Bool Arith Lia.
From VF Require Import Jinja.PosixPath.
Import ListNotations.
Open Scope N_scope.

Lemma beq_eq a b : bytes_eqb a b = true <-> a = b.
Proof. unfold bytes_eqb. destruct (list_eq_dec N.eq_dec a b); split; congruence. Qed.
Lemma beq_refl a : bytes_eqb a a = true.
Proof. now apply beq_eq. Qed.

Definition noslash (c : bytes) : bool := forallb (fun x => negb (x =? SL)) c.

Lemma plain_inv (c : bytes) : plain c = true ->
  c <> [] /\ bytes_eqb c [] = false /\ bytes_eqb c DOT = false /\ bytes_eqb c DOTDOT = false /\ noslash c = true.
Proof.
  unfold plain. intros H. repeat (apply andb_true_iff in H as [H ?]).
  apply negb_true_iff in H. repeat match goal with X : negb _ = true |- _ => apply negb_true_iff in X end.
  repeat split; auto. intros ->. discriminate.
Qed.

(* ---------- split / join ---------- *)
Lemma split_noslash (c : bytes) : noslash c = true -> split_slash c = [c].
Proof.
  induction c as [|x c IH]; [reflexivity|]. cbn [noslash forallb]. intros H.
  apply andb_true_iff in H as [Hx Hc]. apply negb_true_iff in Hx.
  cbn [split_slash]. rewrite Hx, (IH Hc). reflexivity.
Qed.

Lemma split_app_slash (c s : bytes) : noslash c = true -> split_slash (c ++ SL :: s) = c :: split_slash s.
Proof.
  induction c as [|x c IH]; intros H.
  - cbn [app split_slash]. rewrite N.eqb_refl. reflexivity.
  - cbn [noslash forallb] in H. apply andb_true_iff in H as [Hx Hc]. apply negb_true_iff in Hx.
    cbn [app split_slash]. rewrite Hx, (IH Hc). reflexivity.
Qed.

Lemma split_join (comps : list bytes) : comps <> [] -> forallb noslash comps = true -> split_slash (join_slash comps) = comps.
Proof.
  induction comps as [|c r IH]; [congruence|]. intros _ H. cbn [forallb] in H.
  apply andb_true_iff in H as [Hc Hr]. destruct r as [|c2 r].
  - cbn [join_slash]. now apply split_noslash.
  - change (join_slash (c :: c2 :: r)) with (c ++ SL :: join_slash (c2 :: r)).
    rewrite (split_app_slash _ _ Hc), IH; [reflexivity|discriminate|exact Hr].
Qed.

Lemma join_slash_app (l1 l2 : list bytes) : l1 <> [] -> l2 <> [] ->
  join_slash (l1 ++ l2) = join_slash l1 ++ SL :: join_slash l2.
Proof.
  induction l1 as [|a l1 IH]; [congruence|]. intros _ H2. destruct l1 as [|b l1].
  - cbn [app]. destruct l2 as [|c l2]; [congruence|]. reflexivity.
  - change (join_slash ((a :: b :: l1) ++ l2)) with (a ++ SL :: join_slash ((b :: l1) ++ l2)).
    rewrite IH; [|discriminate|exact H2].
    change (join_slash (a :: b :: l1)) with (a ++ SL :: join_slash (b :: l1)).
    now rewrite <- app_assoc.
Qed.

Lemma join_slash_last (l : list bytes) (b : bytes) : exists s, join_slash (l ++ [b]) = s ++ b.
Proof.
  destruct l as [|a l]; [exists []; reflexivity|].
  exists (join_slash (a :: l) ++ [SL]). rewrite join_slash_app; [|discriminate|discriminate].
  cbn [join_slash]. now rewrite <- app_assoc.
Qed.

Lemma join_slash_head (c : bytes) (r : list bytes) : c <> [] -> exists x s, join_slash (c :: r) = x :: s /\ hd 0 c = x.
Proof.
  destruct c as [|x c]; [congruence|]. intros _. destruct r as [|c2 r].
  - exists x, c. auto.
  - exists x, (c ++ SL :: join_slash (c2 :: r)). auto.
Qed.

(* ---------- join2 ---------- *)
Lemma ends_slash_app (s b : bytes) : b <> [] -> ends_slash (s ++ b) = ends_slash b.
Proof.
  intros Hb. unfold ends_slash. rewrite rev_app_distr.
  destruct (rev b) as [|x r] eqn:E; [|reflexivity].
  apply (f_equal (@rev N)) in E. rewrite rev_involutive in E. cbn in E. congruence.
Qed.

Lemma ends_slash_noslash (b : bytes) : noslash b = true -> ends_slash b = false.
Proof.
  intros H. unfold ends_slash. destruct (rev b) as [|x r] eqn:E; [reflexivity|].
  assert (Hin : In x b) by (apply in_rev; rewrite E; now left).
  unfold noslash in H. rewrite forallb_forall in H. specialize (H _ Hin).
  now apply negb_true_iff in H.
Qed.

Lemma starts_slash_noslash (b : bytes) : noslash b = true -> starts_slash b = false.
Proof.
  destruct b as [|x b]; [reflexivity|]. cbn. intros H. apply andb_true_iff in H as [H _].
  now apply negb_true_iff in H.
Qed.

Lemma join2_plain (a b : bytes) : a <> [] -> ends_slash a = false -> starts_slash b = false -> join2 a b = a ++ SL :: b.
Proof.
  intros Ha He Hs. unfold join2. rewrite Hs, He. destruct a; [congruence|reflexivity].
Qed.

(* ---------- normpath ---------- *)
Lemma norm_step_plain a (acc : list bytes) (c : bytes) : plain c = true -> norm_step a acc c = c :: acc.
Proof.
  intros H. destruct (plain_inv _ H) as (_ & H1 & H2 & H3 & _). unfold norm_step. now rewrite H1, H2, H3.
Qed.

Lemma fold_plain a (l : list bytes) : forallb plain l = true -> forall acc, fold_left (norm_step a) l acc = rev l ++ acc.
Proof.
  induction l as [|c l IH]; intros H acc; [reflexivity|]. cbn [forallb] in H.
  apply andb_true_iff in H as [Hc Hl]. cbn [fold_left rev]. rewrite (norm_step_plain _ _ _ Hc), (IH Hl).
  now rewrite <- app_assoc.
Qed.

Lemma plain_noslash_all (l : list bytes) : forallb plain l = true -> forallb noslash l = true.
Proof.
  induction l as [|c l IH]; [reflexivity|]. cbn [forallb]. intros H. apply andb_true_iff in H as [Hc Hl].
  rewrite (IH Hl), andb_true_r. now destruct (plain_inv _ Hc) as (_ & _ & _ & _ & ?).
Qed.

(* the component loop on  d1..dn base ".." t1..tm *)
Lemma norm_fold_updir a (dcomps : list bytes) (base : bytes) (tcomps : list bytes) : forallb plain dcomps = true -> plain base = true ->
  forallb plain tcomps = true ->
  rev (fold_left (norm_step a) (dcomps ++ [base] ++ [DOTDOT] ++ tcomps) []) = dcomps ++ tcomps.
Proof.
  intros Hd Hb Ht. rewrite !fold_left_app. rewrite (fold_plain _ _ Hd). rewrite app_nil_r.
  cbn [fold_left]. rewrite (norm_step_plain _ _ _ Hb).
  destruct (plain_inv _ Hb) as (_ & _ & _ & Hbd & _).
  unfold norm_step at 2. change (bytes_eqb DOTDOT []) with false. change (bytes_eqb DOTDOT DOT) with false.
  rewrite beq_refl. cbn [orb]. rewrite Hbd.
  rewrite (fold_plain _ _ Ht). now rewrite rev_app_distr, !rev_involutive.
Qed.

Lemma initial_slashes_one x (r : bytes) : (x =? SL) = false -> initial_slashes (SL :: x :: r) = 1%nat.
Proof. intros H. destruct r as [|y r]; cbn; rewrite H; reflexivity. Qed.

Lemma initial_slashes_zero x (r : bytes) : (x =? SL) = false -> initial_slashes (x :: r) = 0%nat.
Proof. intros H. destruct r as [|y [|z r]]; cbn; rewrite H; reflexivity. Qed.

Lemma plain_head (c : bytes) : plain c = true -> exists x r, c = x :: r /\ (x =? SL) = false.
Proof.
  intros H. destruct (plain_inv _ H) as (Hne & _ & _ & _ & Hs). destruct c as [|x r]; [congruence|].
  exists x, r. split; [reflexivity|]. cbn in Hs. apply andb_true_iff in Hs as [Hs _]. now apply negb_true_iff in Hs.
Qed.

(* normpath(join(parent, "..", template)) for a parent  [/]d1/../dn/base  and a template t1/../tm of plain
   components: the template is resolved in the directory of the parent *)
Theorem join_updir (absolute : bool) (dcomps : list bytes) (base : bytes) (tcomps : list bytes) :
  forallb plain dcomps = true -> plain base = true -> forallb plain tcomps = true -> tcomps <> [] ->
  let pre := if absolute then [SL] else [] in
  normpath (join2 (join2 (pre ++ join_slash (dcomps ++ [base])) DOTDOT) (join_slash tcomps))
  = pre ++ join_slash (dcomps ++ tcomps).
Proof.
  intros Hd Hb Ht Hne pre.
  destruct (plain_inv _ Hb) as (Hbne & _ & _ & _ & Hbs).
  destruct tcomps as [|t0 trest]; [congruence|]. cbn [forallb] in Ht. apply andb_true_iff in Ht as [Ht0 Htr].
  destruct (plain_inv _ Ht0) as (Ht0ne & _ & _ & _ & Ht0s).
  set (P := pre ++ join_slash (dcomps ++ [base])).
  assert (HPne : P <> []).
  { unfold P. destruct (join_slash_last dcomps base) as [s ->]. destruct base; [congruence|].
    destruct pre; destruct s; discriminate. }
  assert (HPe : ends_slash P = false).
  { unfold P. destruct (join_slash_last dcomps base) as [s ->]. rewrite app_assoc, ends_slash_app by exact Hbne.
    now apply ends_slash_noslash. }
  rewrite (join2_plain P DOTDOT HPne HPe eq_refl).
  assert (HTs : starts_slash (join_slash (t0 :: trest)) = false).
  { destruct (join_slash_head t0 trest Ht0ne) as (x & s & Hjs & Hx). rewrite Hjs. cbn [starts_slash].
    destruct (plain_head _ Ht0) as (x' & r' & Hc & Hx'). rewrite Hc in Hx. cbn in Hx. now subst x'. }
  rewrite join2_plain; [|destruct P; [congruence|discriminate]| |exact HTs].
  2:{ rewrite ends_slash_app by discriminate. reflexivity. }
  (* the whole string is pre ++ join of all components *)
  assert (Hall : (P ++ SL :: DOTDOT) ++ SL :: join_slash (t0 :: trest) =
                 pre ++ join_slash ((dcomps ++ [base]) ++ [DOTDOT] ++ t0 :: trest)).
  { unfold P. rewrite (join_slash_app (dcomps ++ [base]) ([DOTDOT] ++ t0 :: trest));
      [|destruct dcomps; discriminate|discriminate].
    change ([DOTDOT] ++ t0 :: trest) with (DOTDOT :: t0 :: trest).
    change (join_slash (DOTDOT :: t0 :: trest)) with (DOTDOT ++ SL :: join_slash (t0 :: trest)).
    rewrite <- !app_assoc. reflexivity. }
  rewrite Hall. clear Hall HTs HPe HPne P.
  set (comps := (dcomps ++ [base]) ++ [DOTDOT] ++ t0 :: trest).
  assert (Hcs : forallb noslash comps = true).
  { unfold comps. rewrite !forallb_app. rewrite (plain_noslash_all _ Hd). cbn [forallb].
    rewrite Hbs, Ht0s, (plain_noslash_all _ Htr). reflexivity. }
  assert (Hcne : comps <> []) by (unfold comps; destruct dcomps; discriminate).
  (* first character of the joined components is not a slash *)
  assert (Hhead : exists x s, join_slash comps = x :: s /\ (x =? SL) = false).
  { unfold comps. destruct dcomps as [|d0 dr].
    - cbn [app]. destruct (plain_head _ Hb) as (x & r & -> & Hx). eexists; eexists; split; [reflexivity|exact Hx].
    - cbn [forallb] in Hd. apply andb_true_iff in Hd as [Hd0 _].
      destruct (plain_head _ Hd0) as (x & r & -> & Hx). cbn [app].
      destruct (dr ++ [base]) eqn:E; [destruct dr; discriminate|].
      eexists; eexists; split; [reflexivity|exact Hx]. }
  destruct Hhead as (x & s & Hj & Hx).
  assert (Hfold : forall a, rev (fold_left (norm_step a) comps []) = dcomps ++ t0 :: trest).
  { intros a. unfold comps. rewrite <- app_assoc. apply norm_fold_updir; auto.
    cbn [forallb]. now rewrite Ht0, Htr. }
  assert (Hres : exists y z, join_slash (dcomps ++ t0 :: trest) = y :: z).
  { destruct dcomps as [|d0 dr].
    - cbn [app]. destruct (join_slash_head t0 trest Ht0ne) as (y & z & Hq & _). rewrite Hq. eauto.
    - cbn [forallb] in Hd. apply andb_true_iff in Hd as [Hd0 _].
      destruct (plain_inv _ Hd0) as (Hd0ne & _). cbn [app].
      destruct (join_slash_head d0 (dr ++ t0 :: trest) Hd0ne) as (y & z & Hq & _). rewrite Hq. eauto. }
  destruct Hres as (y & z & Hyz).
  unfold normpath. destruct absolute; unfold pre; cbn [app].
  - rewrite Hj, (initial_slashes_one _ _ Hx). rewrite <- Hj.
    change (SL :: join_slash comps) with ([] ++ SL :: join_slash comps).
    rewrite (split_app_slash [] _ eq_refl), (split_join _ Hcne Hcs).
    cbn [fold_left].
    replace (norm_step (negb (1 =? 0)%nat) [] []) with (@nil bytes) by reflexivity.
    rewrite Hfold. reflexivity.
  - rewrite Hj, (initial_slashes_zero _ _ Hx). rewrite <- Hj.
    rewrite (split_join _ Hcne Hcs), Hfold. cbn [Nat.eqb negb repeat app]. rewrite Hyz. reflexivity.
Qed.

(* ---------- include names with "." and ".." components ---------- *)
(* a component of an include name: non-empty, no slash (plain, "." or "..") *)
Definition comp_ok (c : bytes) : bool := negb (bytes_eqb c []) && noslash c.

Lemma comp_ok_inv (c : bytes) : comp_ok c = true -> c <> [] /\ noslash c = true.
Proof.
  unfold comp_ok. intros H. apply andb_true_iff in H as [H1 H2]. split; [|exact H2].
  intros ->. discriminate.
Qed.

Lemma comp_ok_noslash_all (l : list bytes) : forallb comp_ok l = true -> forallb noslash l = true.
Proof.
  induction l as [|c l IH]; [reflexivity|]. cbn [forallb]. intros H. apply andb_true_iff in H as [Hc Hl].
  rewrite (IH Hl), andb_true_r. now destruct (comp_ok_inv _ Hc).
Qed.

(* normpath(join(parent, "..", template)) for a parent [/]d1/../dn/base of plain components and ANY include
   name t1/../tm whose components are non-empty (plain, "." or ".."): the name is interpreted component
   by component starting in the directory of the parent - "." stays, ".." goes up (never above "/" for an
   absolute parent; collected in front for a relative one) *)
Theorem join_updir_general (absolute : bool) (dcomps : list bytes) (base : bytes) (tcomps : list bytes) :
  forallb plain dcomps = true -> plain base = true -> forallb comp_ok tcomps = true -> tcomps <> [] ->
  let pre := if absolute then [SL] else [] in
  normpath (join2 (join2 (pre ++ join_slash (dcomps ++ [base])) DOTDOT) (join_slash tcomps))
  = match pre ++ join_slash (rev (fold_left (norm_step absolute) tcomps (rev dcomps))) with
    | [] => DOT
    | r => r
    end.
Proof.
  intros Hd Hb Ht Hne pre.
  destruct (plain_inv _ Hb) as (Hbne & _ & _ & _ & Hbs).
  destruct tcomps as [|t0 trest]; [congruence|].
  cbn [forallb] in Ht. apply andb_true_iff in Ht as [Ht0 Htr].
  destruct (comp_ok_inv _ Ht0) as (Ht0ne & Ht0s).
  set (P := pre ++ join_slash (dcomps ++ [base])).
  assert (HPne : P <> []).
  { unfold P. destruct (join_slash_last dcomps base) as [s ->]. destruct base; [congruence|].
    destruct pre; destruct s; discriminate. }
  assert (HPe : ends_slash P = false).
  { unfold P. destruct (join_slash_last dcomps base) as [s ->]. rewrite app_assoc, ends_slash_app by exact Hbne.
    now apply ends_slash_noslash. }
  rewrite (join2_plain P DOTDOT HPne HPe eq_refl).
  assert (HTs : starts_slash (join_slash (t0 :: trest)) = false).
  { destruct (join_slash_head t0 trest Ht0ne) as (x & s & Hjs & Hx). rewrite Hjs. cbn [starts_slash].
    destruct t0 as [|x' r']; [congruence|]. cbn in Hx. subst x'.
    cbn in Ht0s. apply andb_true_iff in Ht0s as [Hx _]. now apply negb_true_iff in Hx. }
  rewrite join2_plain; [|destruct P; [congruence|discriminate]| |exact HTs].
  2:{ rewrite ends_slash_app by discriminate. reflexivity. }
  assert (Hall : (P ++ SL :: DOTDOT) ++ SL :: join_slash (t0 :: trest) =
                 pre ++ join_slash ((dcomps ++ [base]) ++ [DOTDOT] ++ t0 :: trest)).
  { unfold P. rewrite (join_slash_app (dcomps ++ [base]) ([DOTDOT] ++ t0 :: trest));
      [|destruct dcomps; discriminate|discriminate].
    change ([DOTDOT] ++ t0 :: trest) with (DOTDOT :: t0 :: trest).
    change (join_slash (DOTDOT :: t0 :: trest)) with (DOTDOT ++ SL :: join_slash (t0 :: trest)).
    rewrite <- !app_assoc. reflexivity. }
  rewrite Hall. clear Hall HTs HPe HPne P.
  set (comps := (dcomps ++ [base]) ++ [DOTDOT] ++ t0 :: trest).
  assert (Hcs : forallb noslash comps = true).
  { unfold comps. rewrite !forallb_app. rewrite (plain_noslash_all _ Hd). cbn [forallb].
    rewrite Hbs, Ht0s, (comp_ok_noslash_all _ Htr). reflexivity. }
  assert (Hcne : comps <> []) by (unfold comps; destruct dcomps; discriminate).
  assert (Hhead : exists x s, join_slash comps = x :: s /\ (x =? SL) = false).
  { unfold comps. destruct dcomps as [|d0 dr].
    - cbn [app]. destruct (plain_head _ Hb) as (x & r & -> & Hx). eexists; eexists; split; [reflexivity|exact Hx].
    - cbn [forallb] in Hd. apply andb_true_iff in Hd as [Hd0 _].
      destruct (plain_head _ Hd0) as (x & r & -> & Hx). cbn [app].
      destruct (dr ++ [base]) eqn:E; [destruct dr; discriminate|].
      eexists; eexists; split; [reflexivity|exact Hx]. }
  destruct Hhead as (x & s & Hj & Hx).
  assert (Hfold : forall a, fold_left (norm_step a) comps [] = fold_left (norm_step a) (t0 :: trest) (rev dcomps)).
  { intros a. unfold comps. rewrite app_assoc, fold_left_app. f_equal.
    pose proof (norm_fold_updir a dcomps base [] Hd Hb eq_refl) as H0.
    apply (f_equal (@rev bytes)) in H0. rewrite rev_involutive, !app_nil_r in H0.
    rewrite <- app_assoc. exact H0. }
  unfold normpath. destruct absolute; unfold pre; cbn [app].
  - rewrite Hj, (initial_slashes_one _ _ Hx). rewrite <- Hj.
    change (SL :: join_slash comps) with ([] ++ SL :: join_slash comps).
    rewrite (split_app_slash [] _ eq_refl), (split_join _ Hcne Hcs).
    cbn [fold_left].
    replace (norm_step (negb (1 =? 0)%nat) [] []) with (@nil bytes) by reflexivity.
    rewrite Hfold. reflexivity.
  - rewrite Hj, (initial_slashes_zero _ _ Hx). rewrite <- Hj.
    rewrite (split_join _ Hcne Hcs). cbn [Nat.eqb negb repeat app]. rewrite Hfold.
    destruct (join_slash (rev (fold_left (norm_step false) (t0 :: trest) (rev dcomps)))); reflexivity.
Qed.
