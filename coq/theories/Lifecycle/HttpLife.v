(* Model of vinegar/http/server.py : HttpServer.start / stop / _run with the embedded
   socketserver loop (serve_forever / shutdown / server_close).  Definitions only.

     start():  with lock:                          HIdle --acquire--> H_chk
                 if running: return                H_chk --(release)--> HIdle
                 server = _ThreadingHTTPServer()   H_chk --> H_spawn     socket(); bind(); listen()
                                                   (bind raises EADDRINUSE while an earlier listening
                                                    socket of this object is still open: the lock is
                                                    released by the with block and the call raises)
                 main_thread = Thread(_run).start  H_spawn --> H_setrun
                 running = True                    H_setrun --> H_rel
               (release)                           H_rel --> HIdle
     stop():   with lock:                          HIdle --acquire--> P_chk
                 if not running: return            P_chk --(release)--> HIdle
                 server.shutdown()                 P_chk --> P_wait      __shutdown_request = True
                                                   P_wait --> P_close    blocks until __is_shut_down is set
                 server.server_close()             P_close --> P_join    (since 6cff3cf)
                 main_thread.join()                P_join --> P_clear    (since 6cff3cf) blocks while alive
                 main_thread = None                P_clear --> P_reset   (since 6cff3cf)
                 running = False                   P_reset --> P_rel
               (release)                           P_rel --> HIdle
     _run() = serve_forever(0.1):
                 __is_shut_down.clear()            HM_clear --> HM_loop
                 while not __shutdown_request: select/accept        HM_loop --> HM_loop | HM_fin
                 finally: __shutdown_request = False; __is_shut_down.set()   HM_fin --> HM_ret
               thread returns                      HM_ret --> HMEnded

   [close_on_stop = false] is the code before commit 6cff3cf (no server_close, no join). *)
From Coq Require Import List Arith Bool.
From VF Require Import Lifecycle.Pool.
Import ListNotations.

(* HStartF: a start() whose _ThreadingHTTPServer constructor fails to bind (port taken by a foreign socket):
   nothing is assigned, the lock is released by the with block, the call raises *)
(* HStartT: a start() whose Thread.start() raises after the server socket is bound and listening *)
Inductive hop := HStart | HStop | HStartF | HStartT.
Inductive hpc := HIdle | H_chk | H_chkF | H_chkT | H_spawnT | H_spawn | H_setrun | H_rel
               | P_chk | P_wait | P_close | P_join | P_clear | P_reset | P_rel.
Inductive hmpc := HMNone | HM_clear | HM_loop | HM_fin | HM_ret | HMEnded.
Inductive hsk := HSNone | HSOpen | HSClosed.

Record hglob := {
  hrunning : bool; hlock : lk;
  hmref : bool;       (* self._main_thread is not None *)
  hmt : hmpc;         (* the main thread *)
  hsock : hsk;        (* listening socket of the current/last _ThreadingHTTPServer *)
  sreq : bool;        (* server.__shutdown_request *)
  isdown : bool;      (* server.__is_shut_down event *)
  herr : bool         (* a call raised (EADDRINUSE), a second main thread was spawned while one
                         lives, or select() ran on a closed socket *)
}.

Definition hinit : hglob :=
  {| hrunning := false; hlock := LFree; hmref := false; hmt := HMNone; hsock := HSNone;
     sreq := false; isdown := false; herr := false |}.

Definition hset_lock g l := {| hrunning := hrunning g; hlock := l; hmref := hmref g; hmt := hmt g; hsock := hsock g; sreq := sreq g; isdown := isdown g; herr := herr g |}.
Definition hset_running g b := {| hrunning := b; hlock := hlock g; hmref := hmref g; hmt := hmt g; hsock := hsock g; sreq := sreq g; isdown := isdown g; herr := herr g |}.
Definition hset_mref g b := {| hrunning := hrunning g; hlock := hlock g; hmref := b; hmt := hmt g; hsock := hsock g; sreq := sreq g; isdown := isdown g; herr := herr g |}.
Definition hset_mt g m := {| hrunning := hrunning g; hlock := hlock g; hmref := hmref g; hmt := m; hsock := hsock g; sreq := sreq g; isdown := isdown g; herr := herr g |}.
Definition hset_sock g s := {| hrunning := hrunning g; hlock := hlock g; hmref := hmref g; hmt := hmt g; hsock := s; sreq := sreq g; isdown := isdown g; herr := herr g |}.
Definition hset_sreq g b := {| hrunning := hrunning g; hlock := hlock g; hmref := hmref g; hmt := hmt g; hsock := hsock g; sreq := b; isdown := isdown g; herr := herr g |}.
Definition hset_isdown g b := {| hrunning := hrunning g; hlock := hlock g; hmref := hmref g; hmt := hmt g; hsock := hsock g; sreq := sreq g; isdown := b; herr := herr g |}.
Definition hset_err g := {| hrunning := hrunning g; hlock := hlock g; hmref := hmref g; hmt := hmt g; hsock := hsock g; sreq := sreq g; isdown := isdown g; herr := true |}.

Definition hmt_live (m : hmpc) : bool := match m with HM_clear | HM_loop | HM_fin | HM_ret => true | _ => false end.
Definition hmt_ended (m : hmpc) : bool := match m with HMNone | HMEnded => true | _ => false end.
Definition hsock_open (s : hsk) : bool := match s with HSOpen => true | _ => false end.
Definition hlock_free g := lk_eqb (hlock g) LFree.

Section V.
  Variable close_on_stop : bool.
  (* start() closes the freshly bound server socket when it fails after the bind (false = the code as it is:
     no try/except around thread creation) *)
  Variable cleanup_on_start_failure : bool.

  Definition hcstep (g : hglob) (me : bool) (p : hpc) (o : option hop) : option (hglob * hpc * bool) :=
    match p with
    | HIdle =>
        match o with
        | None => None
        | Some HStart => if hlock_free g then Some (hset_lock g LCaller, H_chk, true) else None
        | Some HStop => if hlock_free g then Some (hset_lock g LCaller, P_chk, true) else None
        | Some HStartF => if hlock_free g then Some (hset_lock g LCaller, H_chkF, true) else None
        | Some HStartT => if hlock_free g then Some (hset_lock g LCaller, H_chkT, true) else None
        end
    | H_chk =>
        if hrunning g then Some (hset_lock g LFree, HIdle, false)
        else if hsock_open (hsock g) then Some (hset_lock (hset_err g) LFree, HIdle, false)   (* EADDRINUSE *)
        else Some (hset_isdown (hset_sreq (hset_sock g HSOpen) false) false, H_spawn, false)
    | H_chkF => Some (hset_lock g LFree, HIdle, false)      (* already running: return; else the bind raises *)
    | H_chkT =>
        if hrunning g then Some (hset_lock g LFree, HIdle, false)
        else if hsock_open (hsock g) then Some (hset_lock (hset_err g) LFree, HIdle, false)
        else Some (hset_isdown (hset_sreq (hset_sock g HSOpen) false) false, H_spawnT, false)
    | H_spawnT =>
        Some (hset_lock (if cleanup_on_start_failure then hset_sock g HSClosed else g) LFree, HIdle, false)
    | H_spawn =>
        let g1 := if hmt_live (hmt g) then hset_err g else g in
        Some (hset_mt (hset_mref g1 true) HM_clear, H_setrun, false)
    | H_setrun => Some (hset_running g true, H_rel, false)
    | H_rel => Some (hset_lock g LFree, HIdle, false)
    | P_chk =>
        if negb (hrunning g) then Some (hset_lock g LFree, HIdle, false)
        else Some (hset_sreq g true, P_wait, false)
    | P_wait => if isdown g then Some (g, if close_on_stop then P_close else P_reset, false) else None
    | P_close => Some (hset_sock g HSClosed, P_join, false)
    | P_join => if negb (hmref g) || hmt_ended (hmt g) then Some (g, P_clear, false) else None
    | P_clear => Some (hset_mref g false, P_reset, false)
    | P_reset => Some (hset_running g false, P_rel, false)
    | P_rel => Some (hset_lock g LFree, HIdle, false)
    end.

  Definition hmstep (g : hglob) : option hglob :=
    match hmt g with
    | HMNone | HMEnded => None
    | HM_clear => Some (hset_mt (hset_isdown g false) HM_loop)
    | HM_loop =>
        if sreq g then Some (hset_mt g HM_fin)
        else Some (if hsock_open (hsock g) then g else hset_err g)
    | HM_fin => Some (hset_mt (hset_isdown (hset_sreq g false) true) HM_ret)
    | HM_ret => Some (hset_mt g HMEnded)
    end.
End V.

Definition his_idle (p : hpc) : bool := match p with HIdle => true | _ => false end.

Definition hloop_pc (m : hmpc) : bool := match m with HM_clear | HM_loop => true | _ => false end.
Definition HRunning (g : hglob) : bool :=
  hrunning g && hsock_open (hsock g) && hloop_pc (hmt g) && negb (sreq g) && negb (herr g).
Definition HStopped (g : hglob) : bool :=
  negb (hrunning g) && negb (hsock_open (hsock g)) && hmt_ended (hmt g) && hlock_free g && negb (herr g).
